/-
  JRV.Lemmas.EndToEnd — lemmas for the composition theorems of C01: JSON normalisation, well-formedness of
  the request and response envelopes, look-ups in them, and the server's answer to a request whose
  members are known by look-up (built on the normal forms of JRV.Lemmas.Server).
-/
import JRV.Model.EndToEnd
import JRV.Lemmas.Server

set_option linter.unusedSimpArgs false
set_option linter.unusedVariables false

namespace JRV.EndToEnd
open JRV PyVal Callable Payload Server

/- ---------- normalisation ---------- -/

theorem normaliseList_eq_map (xs : List PyVal) : normaliseList xs = xs.map normalise := by
  induction xs with
  | nil => rfl
  | cons x xs ih => simp [normaliseList, ih]

theorem truthy_normalise (v : PyVal) : v.normalise.truthy = v.truthy := by
  cases v <;> simp [normalise, truthy]
  all_goals (rename_i xs; cases xs <;> simp [normaliseList, normaliseKVs])
  all_goals (rename_i x _; obtain ⟨k, v⟩ := x; simp [normaliseKVs])

theorem lookupStr_normaliseKVs (k : String) (kvs : List (PyVal × PyVal)) :
    lookupStr k (normaliseKVs kvs) = (lookupStr k kvs).map normalise := by
  induction kvs with
  | nil => simp [normaliseKVs, lookupStr]
  | cons x xs ih =>
    obtain ⟨key, v⟩ := x
    cases key <;> simp [normaliseKVs, lookupStr, ih]
    split <;> simp

theorem hasKeyStr_normaliseKVs (k : String) (kvs : List (PyVal × PyVal)) :
    hasKeyStr k (normaliseKVs kvs) = hasKeyStr k kvs := by
  simp [hasKeyStr, lookupStr_normaliseKVs]

mutual
  theorem normalise_idem : ∀ v : PyVal, v.normalise.normalise = v.normalise
    | .none => rfl | .bool _ => rfl | .int _ => rfl | .float _ => rfl | .str _ => rfl
    | .list xs => by simp [normalise, normaliseList_idem xs]
    | .tuple xs => by simp [normalise, normaliseList_idem xs]
    | .set xs => by simp [normalise, normaliseList_idem xs]
    | .frozenset xs => by simp [normalise, normaliseList_idem xs]
    | .dict kvs => by simp [normalise, normaliseKVs_idem kvs]
    | .obj c fs => by simp [normalise, normaliseFields_idem fs]
  theorem normaliseList_idem : ∀ xs : List PyVal, normaliseList (normaliseList xs) = normaliseList xs
    | [] => rfl
    | x :: xs => by simp [normaliseList, normalise_idem x, normaliseList_idem xs]
  theorem normaliseKVs_idem : ∀ kvs : List (PyVal × PyVal), normaliseKVs (normaliseKVs kvs) = normaliseKVs kvs
    | [] => rfl
    | (k, v) :: xs => by simp [normaliseKVs, normalise_idem v, normaliseKVs_idem xs]
  theorem normaliseFields_idem : ∀ fs : List (String × PyVal), normaliseFields (normaliseFields fs) = normaliseFields fs
    | [] => rfl
    | (k, v) :: xs => by simp [normaliseFields, normalise_idem v, normaliseFields_idem xs]
end

/- ---------- serialisable ---------- -/

mutual
  theorem serialisable_of_isJson : ∀ v : PyVal, v.isJson = true → serialisable v = true
    | .none, _ => rfl | .bool _, _ => rfl | .int _, _ => rfl | .float _, _ => rfl | .str _, _ => rfl
    | .list xs, h => by simp only [isJson] at h; simp [serialisable, serialisableList_of_isJson xs h]
    | .tuple xs, h => by simp only [isJson] at h; simp [serialisable, serialisableList_of_isJson xs h]
    | .dict kvs, h => by simp only [isJson] at h; simp [serialisable, serialisableKVs_of_isJson kvs h]
    | .set _, h => by simp [isJson] at h
    | .frozenset _, h => by simp [isJson] at h
    | .obj _ _, h => by simp [isJson] at h
  theorem serialisableList_of_isJson : ∀ xs : List PyVal, isJsonList xs = true → serialisableList xs = true
    | [], _ => rfl
    | x :: xs, h => by
      simp only [isJsonList, Bool.and_eq_true] at h
      simp [serialisableList, serialisable_of_isJson x h.1, serialisableList_of_isJson xs h.2]
  theorem serialisableKVs_of_isJson : ∀ kvs : List (PyVal × PyVal), isJsonKVs kvs = true → serialisableKVs kvs = true
    | [], _ => rfl
    | (k, v) :: xs, h => by
      simp only [isJsonKVs, Bool.and_eq_true] at h
      have hk : jsonKey k = true := by cases k <;> simp_all [isStr, jsonKey]
      simp [serialisableKVs, hk, serialisable_of_isJson v h.1.2, serialisableKVs_of_isJson xs h.2]
end

theorem serialisable_of_wfJson (v : PyVal) (h : v.wfJson = true) : serialisable v = true := by
  simp only [wfJson, Bool.and_eq_true] at h
  exact serialisable_of_isJson v h.1

/- ---------- envelopes ---------- -/


structure ReqShape (kvs : List (PyVal × PyVal)) (m : String) (rid : Option PyVal) (ver : Nat) (p : PyVal) : Prop where
  hmethod : lookupStr "method" kvs = some (.str m)
  hid : lookupStr "id" kvs = rid
  hparams : lookupStr "params" kvs = (if p.truthy then some p else if ver < 11 then some (.list []) else Option.none)
  hjsonrpc : hasKeyStr "jsonrpc" kvs = decide (ver ≥ 20)
  hwf : p.wfJson = true → (PyVal.dict kvs).wfJson = true

def reqKVs (ver : Nat) (rid : PyVal) (m : String) (p : PyVal) : List (PyVal × PyVal) :=
  let base : List (PyVal × PyVal) := [(.str "id", rid), (.str "method", .str m)]
  let withParams :=
    if p.truthy || ver < 11 then base ++ [(.str "params", if p.truthy then p else .list [])] else base
  if ver ≥ 20 then withParams ++ [(.str "jsonrpc", .str (verStr ver))] else withParams

theorem request_eq (ver : Nat) (fresh m : String) (p : PyVal) :
    Payload.request ver .none fresh (.str m) p = .ok (.dict (reqKVs ver (.str fresh) m p)) := by
  simp [Payload.request, reqKVs, isStr, chooseId, pure, Except.pure]

theorem reqKVs_shape (ver : Nat) (rid : PyVal) (hrid : rid.wfJson = true) (m : String) (p : PyVal) :
    ReqShape (reqKVs ver rid m p) m (some rid) ver p := by
  by_cases ht : p.truthy = true <;> by_cases h20 : ver ≥ 20 <;> by_cases h11 : ver < 11 <;>
    first
    | omega
    | (constructor <;> simp [reqKVs, lookupStr, hasKeyStr, ht, h20, h11]
       intro hp
       simp only [wfJson, Bool.and_eq_true] at hp hrid ⊢
       simp [isJson, isJsonKVs, distinctKeys, distinctKeysKVs, isStr, hp.1, hp.2, hrid.1, hrid.2, isJsonList, distinctKeysList])

/-- The dictionary `Payload.notify` builds. -/
def notifKVs (ver : Nat) (rid : PyVal) (m : String) (p : PyVal) : List (PyVal × PyVal) :=
  if ver ≥ 20 then delStr "id" (reqKVs ver rid m p) else setStr "id" .none (reqKVs ver rid m p)

theorem notify_eq (ver : Nat) (fresh m : String) (p : PyVal) :
    Payload.notify ver .none fresh (.str m) p = .ok (.dict (notifKVs ver (.str fresh) m p)) := by
  simp [Payload.notify, Payload.request, reqKVs, notifKVs, isStr, chooseId, pure, Except.pure, bind, Except.bind]
  split <;> rfl

theorem notifKVs_shape (ver : Nat) (rid : PyVal) (m : String) (p : PyVal) :
    ReqShape (notifKVs ver rid m p) m (if ver ≥ 20 then Option.none else some .none) ver p := by
  by_cases ht : p.truthy = true <;> by_cases h20 : ver ≥ 20 <;> by_cases h11 : ver < 11 <;>
    first
    | omega
    | (constructor <;> simp [notifKVs, reqKVs, lookupStr, hasKeyStr, ht, h20, h11, delStr, setStr]
       intro hp
       simp only [wfJson, Bool.and_eq_true] at hp ⊢
       simp [isJson, isJsonKVs, distinctKeys, distinctKeysKVs, isStr, hp.1, hp.2, isJsonList, distinctKeysList])

/-- The members of a result envelope, by look-up. -/
structure RespLook (kvs : List (PyVal × PyVal)) (ver : Nat) (v : PyVal) : Prop where
  hresult : lookupStr "result" kvs = some v
  herror : ∀ e, lookupStr "error" kvs = some e → e.truthy = false
  hjsonrpc : lookupStr "jsonrpc" kvs = (if ver ≥ 20 then some (.str (verStr ver)) else Option.none)

theorem response_look (ver : Nat) (rid v : PyVal) :
    ∃ kvs, Payload.response ver rid v = .dict kvs ∧ RespLook kvs ver v ∧
      (rid.wfJson = true → v.wfJson = true → (PyVal.dict kvs).wfJson = true) := by
  by_cases h20 : ver ≥ 20
  · refine ⟨_, response_v2 ver h20 rid v, ⟨by simp [lookupStr], by simp [lookupStr], by simp [lookupStr, h20]⟩, ?_⟩
    intro hr hv
    simp only [wfJson, Bool.and_eq_true] at hr hv ⊢
    simp [isJson, isJsonKVs, distinctKeys, distinctKeysKVs, isStr, hr.1, hr.2, hv.1, hv.2]
  · refine ⟨_, response_v1 ver (by omega) rid v, ⟨by simp [lookupStr], by simp [lookupStr, truthy], by simp [lookupStr, h20]⟩, ?_⟩
    intro hr hv
    simp only [wfJson, Bool.and_eq_true] at hr hv ⊢
    simp [isJson, isJsonKVs, distinctKeys, distinctKeysKVs, isStr, hr.1, hr.2, hv.1, hv.2]


/- ---------- the server on a request known by look-up ---------- -/


/-- The callable a method name denotes on a registry without custom `_dispatch`: an entry of `funcs`
    under the literal name, else the callable attribute `resolve_dotted_attribute` finds on the instance. -/
def resolves (reg : Registry) (name : String) : Option (Target × Callable) :=
  match reg.funcs.lookup name with
  | some c => some (.func, c)
  | Option.none =>
    match reg.inst with
    | some inst =>
      match inst.dispatch with
      | some _ => Option.none
      | Option.none =>
        match resolveDotted inst name with
        | some a => a.callable.map fun c => (.attr, c)
        | Option.none => Option.none
    | Option.none => Option.none

theorem dispatch_resolves (reg : Registry) (m : String) (q : PyVal) (t : Target) (f : Callable)
    (hr : resolves reg m = some (t, f)) (hb : binds f.sig q = true) :
    dispatch reg m q = (.ok (invoke t (some f) (.str m) q).1, (invoke t (some f) (.str m) q).2) := by
  unfold resolves at hr
  unfold dispatch
  cases hf : reg.funcs.lookup m with
  | some c =>
    simp only [hf, Option.some.injEq, Prod.mk.injEq] at hr
    obtain ⟨rfl, rfl⟩ := hr
    simp
  | none =>
    simp only [hf] at hr
    cases hi : reg.inst with
    | none => simp [hi] at hr
    | some inst =>
      simp only [hi] at hr
      cases hd : inst.dispatch with
      | some d => simp [hd] at hr
      | none =>
        simp only [hd] at hr
        cases hres : resolveDotted inst m with
        | none => simp [hres] at hr
        | some a =>
          simp only [hres, Option.map_eq_some_iff, Prod.mk.injEq] at hr
          obtain ⟨c, hc, rfl, rfl⟩ := hr
          simp [resolveAndInvoke, hres, hc, hd]

theorem invoke_ret (t : Target) (f : Callable) (m q v : PyVal) (hb : binds f.sig q = true) (hbody : f.body q = .ret v) :
    invoke t (some f) m q = (.value v, [.call t m q]) := by
  simp [invoke, hb, hbody]

/-- `dp` is the depth at which the body raises (`CallOutcome.raised`); a `TypeError` must come with a frame
    of its own (`dp ≠ 0`: every Python callable) to be told from a binding failure. -/
theorem invoke_raised (t : Target) (f : Callable) (m q : PyVal) (cls text : String) (te ae : Bool) (dp : Nat)
    (hb : binds f.sig q = true) (hbody : f.body q = .raised cls text te ae dp) (hdp : te = true → dp ≠ 0) :
    invoke t (some f) m q = (.fault codeInternal (msgServerError cls text), [.call t m q]) := by
  cases te with
  | false => simp [invoke, hb, hbody, handleCallExc, methodExceptionFault]
  | true => simp [invoke, hb, hbody, handleCallExc, methodExceptionFault, hdp rfl]

/-- An exception that is not an instance of `Exception` (`SystemExit`, `KeyboardInterrupt`, …) is reported like any
    other method exception: the last handler around the call in `_dispatch` is a bare `except:`. -/
theorem invoke_raisedBase (t : Target) (f : Callable) (m q : PyVal) (cls text : String) (dp : Nat)
    (hb : binds f.sig q = true) (hbody : f.body q = .raisedBase cls text dp) :
    invoke t (some f) m q = (.fault codeInternal (msgServerError cls text), [.call t m q]) := by
  simp [invoke, hb, hbody, handleCallExc, methodExceptionFault]

/-- The parameters the callable receives for the `params` the client sent. -/
def serverParams (p : PyVal) : PyVal := if p.truthy then p.normalise else .list []

theorem validateNF_of_lookups (kvs : List (PyVal × PyVal)) (m : String) (po : Option PyVal)
    (hm : lookupStr "method" kvs = some (.str m)) (hne : m ≠ "")
    (hp : lookupStr "params" kvs = po) (hpt : ∀ q, po = some q → isParamType q = true)
    (hv : hasKeyStr "jsonrpc" kvs = true ∨ hasKeyStr "id" kvs = true) :
    validateNF (.dict kvs) = .valid (withParams kvs) m (po.getD (.list [])) := by
  have hv' : ¬ (hasKeyStr "jsonrpc" kvs = false ∧ hasKeyStr "id" kvs = false) := by
    rcases hv with h | h <;> simp [h]
  simp only [validateNF, hv', ↓reduceIte, lookupStr_withParams "method" (by decide), hm, Option.getD_some,
    lookup_params_withParams, hp]
  cases po with
  | none => simp [checkNF, hne, isParamType, isList]
  | some q => simp [checkNF, hne, hpt q rfl]



theorem isParamType_normalise (p : PyVal) (h : p.isTuple = true ∨ p.isDict = true ∨ p.isList = true) :
    isParamType p.normalise = true := by
  cases p <;> simp_all [isTuple, isDict, isList, normalise, isParamType]

/-- Look-ups in the parsed request (the normal form of the envelope the client rendered). -/
theorem parsed_lookups {kvs : List (PyVal × PyVal)} {m : String} {rid : Option PyVal} {ver : Nat} {p : PyVal}
    (sh : ReqShape kvs m rid ver p) (hpt : p.isTuple = true ∨ p.isDict = true ∨ p.isList = true) :
    lookupStr "method" (normaliseKVs kvs) = some (.str m) ∧
    lookupStr "id" (normaliseKVs kvs) = rid.map normalise ∧
    (∃ po, lookupStr "params" (normaliseKVs kvs) = po ∧ po.getD (.list []) = serverParams p ∧
      ∀ q, po = some q → isParamType q = true) ∧
    hasKeyStr "jsonrpc" (normaliseKVs kvs) = decide (ver ≥ 20) := by
  refine ⟨by simp [lookupStr_normaliseKVs, sh.hmethod, normalise], by simp [lookupStr_normaliseKVs, sh.hid], ?_,
    by simp [hasKeyStr_normaliseKVs, sh.hjsonrpc]⟩
  refine ⟨_, rfl, ?_, ?_⟩
  · simp only [lookupStr_normaliseKVs, sh.hparams, serverParams]
    by_cases ht : p.truthy = true
    · simp [ht]
    · by_cases h11 : ver < 11 <;> simp [ht, h11, normalise, normaliseList]
  · intro q
    simp only [lookupStr_normaliseKVs, sh.hparams]
    by_cases ht : p.truthy = true
    · simp only [ht, ↓reduceIte, Option.map_some, Option.some.injEq]
      rintro rfl
      exact isParamType_normalise p hpt
    · by_cases h11 : ver < 11 <;> simp [ht, h11, normalise, normaliseList]
      rintro rfl
      simp [isParamType, isList]

/-- The server's answer to a parsed call request: the response built from what the resolved callable
    did, and exactly the effects of that one invocation. -/
theorem entry_call (s : Server) (hcustom : s.custom = Option.none)
    {kvs : List (PyVal × PyVal)} {m fresh : String} {ver : Nat} {p : PyVal}
    (sh : ReqShape kvs m (some (.str fresh)) ver p) (hne : m ≠ "") (hfresh : fresh ≠ "")
    (hpt : p.isTuple = true ∨ p.isDict = true ∨ p.isList = true)
    (t : Target) (f : Callable) (hr : resolves s.reg m = some (t, f))
    (hb : binds f.sig (serverParams p) = true) :
    entryNF s (.dict (normaliseKVs kvs)) =
      (.ok (some (respOf s (requestConfig s.cfg (decide (ver ≥ 20))) (.str fresh)
          (.ok (invoke t (some f) (.str m) (serverParams p)).1))),
        (invoke t (some f) (.str m) (serverParams p)).2) := by
  obtain ⟨hm, hid, ⟨po, hpo, hget, hpt'⟩, hj⟩ := parsed_lookups sh hpt
  have hidk : hasKeyStr "id" (normaliseKVs kvs) = true := by simp [hasKeyStr, hid]
  rw [entryNF, validateNF_of_lookups _ m po hm hne hpo hpt' (Or.inr hidk)]
  have hnotif : notifNF (withParams (normaliseKVs kvs)) = false := by
    simp [notifNF, lookupStr_withParams "id" (by decide), hid, normalise, notifIds, pyEq, numEq, asInt?, hfresh]
  simp only [singleNF, hnotif, hasKeyStr_withParams "jsonrpc" (by decide), hj,
    lookupStr_withParams "id" (by decide), hid, Option.map_some, normalise, Option.getD_some, hget,
    runDispatcher, hcustom, dispatch_resolves s.reg m _ t f hr hb]
  cases s.pool <;> simp

/-- The server's answer to a parsed notification with no notification pool: no response, and exactly the
    effects of the one inline invocation. -/
theorem entry_notify (s : Server) (hcustom : s.custom = Option.none) (hpool : s.pool = .absent)
    {kvs : List (PyVal × PyVal)} {m : String} {ver : Nat} {p : PyVal}
    (sh : ReqShape kvs m (if ver ≥ 20 then Option.none else some .none) ver p) (hne : m ≠ "")
    (hpt : p.isTuple = true ∨ p.isDict = true ∨ p.isList = true)
    (t : Target) (f : Callable) (hr : resolves s.reg m = some (t, f))
    (hb : binds f.sig (serverParams p) = true) :
    entryNF s (.dict (normaliseKVs kvs)) = (.ok Option.none, (invoke t (some f) (.str m) (serverParams p)).2) := by
  obtain ⟨hm, hid, ⟨po, hpo, hget, hpt'⟩, hj⟩ := parsed_lookups sh hpt
  have hv : hasKeyStr "jsonrpc" (normaliseKVs kvs) = true ∨ hasKeyStr "id" (normaliseKVs kvs) = true := by
    by_cases h20 : ver ≥ 20
    · left; simp [hj, h20]
    · right; simp [hasKeyStr, hid, h20]
  rw [entryNF, validateNF_of_lookups _ m po hm hne hpo hpt' hv]
  have hnotif : notifNF (withParams (normaliseKVs kvs)) = true := by
    simp only [notifNF, lookupStr_withParams "id" (by decide), hid]
    by_cases h20 : ver ≥ 20 <;> simp [h20, normalise, notifIds, pyEq]
  simp only [singleNF, hnotif, hpool, hget, runDispatcher, hcustom, dispatch_resolves s.reg m _ t f hr hb]
  simp


/- ---------- the same two normal forms for ANY behaviour of the dispatcher ---------- -/

/-- The dispatcher on a name that denotes a callable: the `try` block around the call. -/
theorem runDispatcher_resolves (s : Server) (hcustom : s.custom = Option.none) (m : String) (q : PyVal)
    (t : Target) (f : Callable) (hr : resolves s.reg m = some (t, f)) :
    runDispatcher s (.str m) q = (.ok (invoke t (some f) (.str m) q).1, (invoke t (some f) (.str m) q).2) := by
  unfold resolves at hr
  simp only [runDispatcher, hcustom, dispatch]
  cases hf : s.reg.funcs.lookup m with
  | some c =>
    simp only [hf, Option.some.injEq, Prod.mk.injEq] at hr
    obtain ⟨rfl, rfl⟩ := hr
    simp
  | none =>
    simp only [hf] at hr
    cases hi : s.reg.inst with
    | none => simp [hi] at hr
    | some inst =>
      simp only [hi] at hr
      cases hd : inst.dispatch with
      | some d => simp [hd] at hr
      | none =>
        simp only [hd] at hr
        cases hres : resolveDotted inst m with
        | none => simp [hres] at hr
        | some a =>
          simp only [hres, Option.map_eq_some_iff, Prod.mk.injEq] at hr
          obtain ⟨c, hc, rfl, rfl⟩ := hr
          simp [resolveAndInvoke, hres, hc, hd]

/-- A call request whatever the dispatcher does with it (`r`, `eff`): the entry is answered by the
    response built from `r` and causes exactly `eff`. -/
theorem entry_call_disp (s : Server)
    {kvs : List (PyVal × PyVal)} {m fresh : String} {ver : Nat} {p : PyVal}
    (sh : ReqShape kvs m (some (.str fresh)) ver p) (hne : m ≠ "") (hfresh : fresh ≠ "")
    (hpt : p.isTuple = true ∨ p.isDict = true ∨ p.isList = true)
    (r : PyM DispResult) (eff : List Effect)
    (hd : runDispatcher s (.str m) (serverParams p) = (r, eff)) :
    entryNF s (.dict (normaliseKVs kvs)) =
      (.ok (some (respOf s (requestConfig s.cfg (decide (ver ≥ 20))) (.str fresh) r)), eff) := by
  obtain ⟨hm, hid, ⟨po, hpo, hget, hpt'⟩, hj⟩ := parsed_lookups sh hpt
  have hidk : hasKeyStr "id" (normaliseKVs kvs) = true := by simp [hasKeyStr, hid]
  rw [entryNF, validateNF_of_lookups _ m po hm hne hpo hpt' (Or.inr hidk)]
  have hnotif : notifNF (withParams (normaliseKVs kvs)) = false := by
    simp [notifNF, lookupStr_withParams "id" (by decide), hid, normalise, notifIds, pyEq, numEq, asInt?, hfresh]
  simp only [singleNF, hnotif, hasKeyStr_withParams "jsonrpc" (by decide), hj,
    lookupStr_withParams "id" (by decide), hid, Option.map_some, normalise, Option.getD_some, hget, hd]
  cases s.pool <;> simp

/-- A notification (no pool) whatever the dispatcher does with it: no response, exactly `eff`. -/
theorem entry_notify_disp (s : Server) (hpool : s.pool = .absent)
    {kvs : List (PyVal × PyVal)} {m : String} {ver : Nat} {p : PyVal}
    (sh : ReqShape kvs m (if ver ≥ 20 then Option.none else some .none) ver p) (hne : m ≠ "")
    (hpt : p.isTuple = true ∨ p.isDict = true ∨ p.isList = true)
    (r : PyM DispResult) (eff : List Effect)
    (hd : runDispatcher s (.str m) (serverParams p) = (r, eff)) :
    entryNF s (.dict (normaliseKVs kvs)) = (.ok Option.none, eff) := by
  obtain ⟨hm, hid, ⟨po, hpo, hget, hpt'⟩, hj⟩ := parsed_lookups sh hpt
  have hv : hasKeyStr "jsonrpc" (normaliseKVs kvs) = true ∨ hasKeyStr "id" (normaliseKVs kvs) = true := by
    by_cases h20 : ver ≥ 20
    · left; simp [hj, h20]
    · right; simp [hasKeyStr, hid, h20]
  rw [entryNF, validateNF_of_lookups _ m po hm hne hpo hpt' hv]
  have hnotif : notifNF (withParams (normaliseKVs kvs)) = true := by
    simp only [notifNF, lookupStr_withParams "id" (by decide), hid]
    by_cases h20 : ver ≥ 20 <;> simp [h20, normalise, notifIds, pyEq]
  simp only [singleNF, hnotif, hpool, hget, hd]
  simp

/-- No function is registered under the name and there is no instance, or the instance (without a
    `_dispatch` of its own) does not resolve the dotted name: what the server calls an unknown method. -/
def unknownName (reg : Registry) (name : String) : Bool :=
  (reg.funcs.lookup name).isNone &&
    (match reg.inst with
     | Option.none => true
     | some inst => inst.dispatch.isNone && (resolveDotted inst name).isNone)


end JRV.EndToEnd
