/-
  Helper invariants of the FutureResult LTS (JRV.Model.Future), used by JRV.Properties.C16.
  GENERATED layout (one preservation lemma per invariant clause, each with the clauses it needs), proofs by case
  analysis of `step?` and `grind`.  Five layers, each a structure of clauses over the state:
    Inv1 lock/pc/data   Inv2 locals and `__callback`/`__extra`   Inv3 ghost history   Inv4 invocation log   Inv5 observers
-/
import JRV.Model.Future

set_option linter.unusedVariables false
set_option linter.unusedSimpArgs false

namespace JRV.Future

def RPc.idx : RPc → Nat
  | .idle => 0 | .acq => 1 | .storeCb => 2 | .storeExtra => 3 | .readCompleted => 4 | .rel => 5
  | .readData => 6 | .readExc => 7 | .invoke => 8 | .logErr => 9 | .fin => 10

def EPc.idx : EPc → Nat
  | .call => 0 | .sData => 1 | .sExc => 2 | .sEvt => 3 | .acq => 4 | .setCompleted => 5 | .readCb => 6
  | .readExtra => 7 | .rel => 8 | .readData => 9 | .readExc => 10 | .invoke => 11 | .logErr => 12 | .fin => 13

theorem Outcome.exc_none {o : Outcome} (h : o.exc = none) : o = .ret o.data := by
  cases o <;> simp_all [Outcome.exc, Outcome.data]

theorem Outcome.exc_some {o : Outcome} {e : Nat} (h : o.exc = some e) : o = .raise e := by
  cases o <;> simp_all [Outcome.exc]

/-- Layer 1: lock ownership against program counters; what the executor has stored so far. -/
structure Inv1 (s : State) : Prop where
  lockExec : s.lock = some .exec ↔ (5 ≤ s.ex.pc.idx ∧ s.ex.pc.idx ≤ 8)
  lockReg : ∀ i, s.lock = some (.reg i) ↔ (2 ≤ (s.regs i).pc.idx ∧ (s.regs i).pc.idx ≤ 5)
  lockObs : ∀ j, s.lock ≠ some (.obs j)
  outcome0 : s.ex.pc.idx = 0 → s.ex.outcome = none
  outcome : 1 ≤ s.ex.pc.idx → ∃ o, s.ex.outcome = some o
  data0 : s.ex.pc.idx ≤ 1 → s.data = none
  data1 : 2 ≤ s.ex.pc.idx → ∀ o, s.ex.outcome = some o → s.data = o.data
  exc0 : s.ex.pc.idx ≤ 2 → s.exc = none
  exc1 : 3 ≤ s.ex.pc.idx → ∀ o, s.ex.outcome = some o → s.exc = o.exc
  flag : s.flag = true ↔ 4 ≤ s.ex.pc.idx
  completed : s.completed = true ↔ 6 ≤ s.ex.pc.idx

theorem inv1_init : Inv1 init := by
  constructor <;> simp [init, EPc.idx, RPc.idx]

set_option maxHeartbeats 800000 in
private theorem inv1_lockExec_step {s s' : State} (a : Action) (lockExec : s.lock = some .exec ↔ (5 ≤ s.ex.pc.idx ∧ s.ex.pc.idx ≤ 8)) (lockReg : ∀ i, s.lock = some (.reg i) ↔ (2 ≤ (s.regs i).pc.idx ∧ (s.regs i).pc.idx ≤ 5))
    (hs : step? s a = some s') : s'.lock = some .exec ↔ (5 ≤ s'.ex.pc.idx ∧ s'.ex.pc.idx ≤ 8) := by
  cases a with
  | regCall i m x =>
    simp only [step?] at hs
    split at hs
    · cases hs
      (try simp only [setReg, setObs]) <;> grind (splits := 14) [setReg, setObs, RPc.idx, EPc.idx, Reg.cb, Outcome.exc_none, Outcome.exc_some]
    · cases hs
  | reg i =>
    simp only [step?, stepReg] at hs
    split at hs <;> (try split at hs) <;> (try cases hs) <;>
      ((try simp only [setReg, setObs]) <;> grind (splits := 14) [setReg, setObs, RPc.idx, EPc.idx, Reg.cb, Outcome.exc_none, Outcome.exc_some])
  | execCall o =>
    simp only [step?] at hs
    split at hs <;> (try cases hs) <;> ((try simp only [setReg, setObs]) <;> grind (splits := 14) [setReg, setObs, RPc.idx, EPc.idx, Reg.cb, Outcome.exc_none, Outcome.exc_some])
  | exec =>
    simp only [step?, stepExec] at hs
    split at hs <;> (try split at hs) <;> (try simp only [Option.map_eq_some_iff] at hs) <;>
      (try obtain ⟨o, ho, hs⟩ := hs) <;> (try cases hs) <;>
      ((try simp only [setReg, setObs]) <;> grind (splits := 14) [setReg, setObs, RPc.idx, EPc.idx, Reg.cb, Outcome.exc_none, Outcome.exc_some])
  | obsCall j k =>
    simp only [step?] at hs
    split at hs <;> (try cases hs) <;> ((try simp only [setReg, setObs]) <;> grind (splits := 14) [setReg, setObs, RPc.idx, EPc.idx, Reg.cb, Outcome.exc_none, Outcome.exc_some])
  | obs j =>
    simp only [step?, stepObs] at hs
    split at hs <;> (try split at hs) <;> (try split at hs) <;> (try cases hs) <;>
      ((try simp only [setReg, setObs]) <;> grind (splits := 14) [setReg, setObs, RPc.idx, EPc.idx, Reg.cb, Outcome.exc_none, Outcome.exc_some])
  | obsTimeout j =>
    simp only [step?, stepObsTimeout] at hs
    split at hs <;> (try cases hs) <;> ((try simp only [setReg, setObs]) <;> grind (splits := 14) [setReg, setObs, RPc.idx, EPc.idx, Reg.cb, Outcome.exc_none, Outcome.exc_some])

set_option maxHeartbeats 800000 in
private theorem inv1_lockReg_step {s s' : State} (a : Action) (lockExec : s.lock = some .exec ↔ (5 ≤ s.ex.pc.idx ∧ s.ex.pc.idx ≤ 8)) (lockReg : ∀ i, s.lock = some (.reg i) ↔ (2 ≤ (s.regs i).pc.idx ∧ (s.regs i).pc.idx ≤ 5))
    (hs : step? s a = some s') : ∀ i, s'.lock = some (.reg i) ↔ (2 ≤ (s'.regs i).pc.idx ∧ (s'.regs i).pc.idx ≤ 5) := by
  cases a with
  | regCall i m x =>
    simp only [step?] at hs
    split at hs
    · cases hs
      (try simp only [setReg, setObs]) <;> grind (splits := 14) [setReg, setObs, RPc.idx, EPc.idx, Reg.cb, Outcome.exc_none, Outcome.exc_some]
    · cases hs
  | reg i =>
    simp only [step?, stepReg] at hs
    split at hs <;> (try split at hs) <;> (try cases hs) <;>
      ((try simp only [setReg, setObs]) <;> grind (splits := 14) [setReg, setObs, RPc.idx, EPc.idx, Reg.cb, Outcome.exc_none, Outcome.exc_some])
  | execCall o =>
    simp only [step?] at hs
    split at hs <;> (try cases hs) <;> ((try simp only [setReg, setObs]) <;> grind (splits := 14) [setReg, setObs, RPc.idx, EPc.idx, Reg.cb, Outcome.exc_none, Outcome.exc_some])
  | exec =>
    simp only [step?, stepExec] at hs
    split at hs <;> (try split at hs) <;> (try simp only [Option.map_eq_some_iff] at hs) <;>
      (try obtain ⟨o, ho, hs⟩ := hs) <;> (try cases hs) <;>
      ((try simp only [setReg, setObs]) <;> grind (splits := 14) [setReg, setObs, RPc.idx, EPc.idx, Reg.cb, Outcome.exc_none, Outcome.exc_some])
  | obsCall j k =>
    simp only [step?] at hs
    split at hs <;> (try cases hs) <;> ((try simp only [setReg, setObs]) <;> grind (splits := 14) [setReg, setObs, RPc.idx, EPc.idx, Reg.cb, Outcome.exc_none, Outcome.exc_some])
  | obs j =>
    simp only [step?, stepObs] at hs
    split at hs <;> (try split at hs) <;> (try split at hs) <;> (try cases hs) <;>
      ((try simp only [setReg, setObs]) <;> grind (splits := 14) [setReg, setObs, RPc.idx, EPc.idx, Reg.cb, Outcome.exc_none, Outcome.exc_some])
  | obsTimeout j =>
    simp only [step?, stepObsTimeout] at hs
    split at hs <;> (try cases hs) <;> ((try simp only [setReg, setObs]) <;> grind (splits := 14) [setReg, setObs, RPc.idx, EPc.idx, Reg.cb, Outcome.exc_none, Outcome.exc_some])

set_option maxHeartbeats 800000 in
private theorem inv1_lockObs_step {s s' : State} (a : Action) (lockObs : ∀ j, s.lock ≠ some (.obs j))
    (hs : step? s a = some s') : ∀ j, s'.lock ≠ some (.obs j) := by
  cases a with
  | regCall i m x =>
    simp only [step?] at hs
    split at hs
    · cases hs
      (try simp only [setReg, setObs]) <;> grind (splits := 14) [setReg, setObs, RPc.idx, EPc.idx, Reg.cb, Outcome.exc_none, Outcome.exc_some]
    · cases hs
  | reg i =>
    simp only [step?, stepReg] at hs
    split at hs <;> (try split at hs) <;> (try cases hs) <;>
      ((try simp only [setReg, setObs]) <;> grind (splits := 14) [setReg, setObs, RPc.idx, EPc.idx, Reg.cb, Outcome.exc_none, Outcome.exc_some])
  | execCall o =>
    simp only [step?] at hs
    split at hs <;> (try cases hs) <;> ((try simp only [setReg, setObs]) <;> grind (splits := 14) [setReg, setObs, RPc.idx, EPc.idx, Reg.cb, Outcome.exc_none, Outcome.exc_some])
  | exec =>
    simp only [step?, stepExec] at hs
    split at hs <;> (try split at hs) <;> (try simp only [Option.map_eq_some_iff] at hs) <;>
      (try obtain ⟨o, ho, hs⟩ := hs) <;> (try cases hs) <;>
      ((try simp only [setReg, setObs]) <;> grind (splits := 14) [setReg, setObs, RPc.idx, EPc.idx, Reg.cb, Outcome.exc_none, Outcome.exc_some])
  | obsCall j k =>
    simp only [step?] at hs
    split at hs <;> (try cases hs) <;> ((try simp only [setReg, setObs]) <;> grind (splits := 14) [setReg, setObs, RPc.idx, EPc.idx, Reg.cb, Outcome.exc_none, Outcome.exc_some])
  | obs j =>
    simp only [step?, stepObs] at hs
    split at hs <;> (try split at hs) <;> (try split at hs) <;> (try cases hs) <;>
      ((try simp only [setReg, setObs]) <;> grind (splits := 14) [setReg, setObs, RPc.idx, EPc.idx, Reg.cb, Outcome.exc_none, Outcome.exc_some])
  | obsTimeout j =>
    simp only [step?, stepObsTimeout] at hs
    split at hs <;> (try cases hs) <;> ((try simp only [setReg, setObs]) <;> grind (splits := 14) [setReg, setObs, RPc.idx, EPc.idx, Reg.cb, Outcome.exc_none, Outcome.exc_some])

set_option maxHeartbeats 800000 in
private theorem inv1_outcome0_step {s s' : State} (a : Action) (outcome0 : s.ex.pc.idx = 0 → s.ex.outcome = none)
    (hs : step? s a = some s') : s'.ex.pc.idx = 0 → s'.ex.outcome = none := by
  cases a with
  | regCall i m x =>
    simp only [step?] at hs
    split at hs
    · cases hs
      (try simp only [setReg, setObs]) <;> grind (splits := 14) [setReg, setObs, RPc.idx, EPc.idx, Reg.cb, Outcome.exc_none, Outcome.exc_some]
    · cases hs
  | reg i =>
    simp only [step?, stepReg] at hs
    split at hs <;> (try split at hs) <;> (try cases hs) <;>
      ((try simp only [setReg, setObs]) <;> grind (splits := 14) [setReg, setObs, RPc.idx, EPc.idx, Reg.cb, Outcome.exc_none, Outcome.exc_some])
  | execCall o =>
    simp only [step?] at hs
    split at hs <;> (try cases hs) <;> ((try simp only [setReg, setObs]) <;> grind (splits := 14) [setReg, setObs, RPc.idx, EPc.idx, Reg.cb, Outcome.exc_none, Outcome.exc_some])
  | exec =>
    simp only [step?, stepExec] at hs
    split at hs <;> (try split at hs) <;> (try simp only [Option.map_eq_some_iff] at hs) <;>
      (try obtain ⟨o, ho, hs⟩ := hs) <;> (try cases hs) <;>
      ((try simp only [setReg, setObs]) <;> grind (splits := 14) [setReg, setObs, RPc.idx, EPc.idx, Reg.cb, Outcome.exc_none, Outcome.exc_some])
  | obsCall j k =>
    simp only [step?] at hs
    split at hs <;> (try cases hs) <;> ((try simp only [setReg, setObs]) <;> grind (splits := 14) [setReg, setObs, RPc.idx, EPc.idx, Reg.cb, Outcome.exc_none, Outcome.exc_some])
  | obs j =>
    simp only [step?, stepObs] at hs
    split at hs <;> (try split at hs) <;> (try split at hs) <;> (try cases hs) <;>
      ((try simp only [setReg, setObs]) <;> grind (splits := 14) [setReg, setObs, RPc.idx, EPc.idx, Reg.cb, Outcome.exc_none, Outcome.exc_some])
  | obsTimeout j =>
    simp only [step?, stepObsTimeout] at hs
    split at hs <;> (try cases hs) <;> ((try simp only [setReg, setObs]) <;> grind (splits := 14) [setReg, setObs, RPc.idx, EPc.idx, Reg.cb, Outcome.exc_none, Outcome.exc_some])

set_option maxHeartbeats 800000 in
private theorem inv1_outcome_step {s s' : State} (a : Action) (outcome : 1 ≤ s.ex.pc.idx → ∃ o, s.ex.outcome = some o)
    (hs : step? s a = some s') : 1 ≤ s'.ex.pc.idx → ∃ o, s'.ex.outcome = some o := by
  cases a with
  | regCall i m x =>
    simp only [step?] at hs
    split at hs
    · cases hs
      (try simp only [setReg, setObs]) <;> grind (splits := 14) [setReg, setObs, RPc.idx, EPc.idx, Reg.cb, Outcome.exc_none, Outcome.exc_some]
    · cases hs
  | reg i =>
    simp only [step?, stepReg] at hs
    split at hs <;> (try split at hs) <;> (try cases hs) <;>
      ((try simp only [setReg, setObs]) <;> grind (splits := 14) [setReg, setObs, RPc.idx, EPc.idx, Reg.cb, Outcome.exc_none, Outcome.exc_some])
  | execCall o =>
    simp only [step?] at hs
    split at hs <;> (try cases hs) <;> ((try simp only [setReg, setObs]) <;> grind (splits := 14) [setReg, setObs, RPc.idx, EPc.idx, Reg.cb, Outcome.exc_none, Outcome.exc_some])
  | exec =>
    simp only [step?, stepExec] at hs
    split at hs <;> (try split at hs) <;> (try simp only [Option.map_eq_some_iff] at hs) <;>
      (try obtain ⟨o, ho, hs⟩ := hs) <;> (try cases hs) <;>
      ((try simp only [setReg, setObs]) <;> grind (splits := 14) [setReg, setObs, RPc.idx, EPc.idx, Reg.cb, Outcome.exc_none, Outcome.exc_some])
  | obsCall j k =>
    simp only [step?] at hs
    split at hs <;> (try cases hs) <;> ((try simp only [setReg, setObs]) <;> grind (splits := 14) [setReg, setObs, RPc.idx, EPc.idx, Reg.cb, Outcome.exc_none, Outcome.exc_some])
  | obs j =>
    simp only [step?, stepObs] at hs
    split at hs <;> (try split at hs) <;> (try split at hs) <;> (try cases hs) <;>
      ((try simp only [setReg, setObs]) <;> grind (splits := 14) [setReg, setObs, RPc.idx, EPc.idx, Reg.cb, Outcome.exc_none, Outcome.exc_some])
  | obsTimeout j =>
    simp only [step?, stepObsTimeout] at hs
    split at hs <;> (try cases hs) <;> ((try simp only [setReg, setObs]) <;> grind (splits := 14) [setReg, setObs, RPc.idx, EPc.idx, Reg.cb, Outcome.exc_none, Outcome.exc_some])

set_option maxHeartbeats 800000 in
private theorem inv1_data0_step {s s' : State} (a : Action) (data0 : s.ex.pc.idx ≤ 1 → s.data = none)
    (hs : step? s a = some s') : s'.ex.pc.idx ≤ 1 → s'.data = none := by
  cases a with
  | regCall i m x =>
    simp only [step?] at hs
    split at hs
    · cases hs
      (try simp only [setReg, setObs]) <;> grind (splits := 14) [setReg, setObs, RPc.idx, EPc.idx, Reg.cb, Outcome.exc_none, Outcome.exc_some]
    · cases hs
  | reg i =>
    simp only [step?, stepReg] at hs
    split at hs <;> (try split at hs) <;> (try cases hs) <;>
      ((try simp only [setReg, setObs]) <;> grind (splits := 14) [setReg, setObs, RPc.idx, EPc.idx, Reg.cb, Outcome.exc_none, Outcome.exc_some])
  | execCall o =>
    simp only [step?] at hs
    split at hs <;> (try cases hs) <;> ((try simp only [setReg, setObs]) <;> grind (splits := 14) [setReg, setObs, RPc.idx, EPc.idx, Reg.cb, Outcome.exc_none, Outcome.exc_some])
  | exec =>
    simp only [step?, stepExec] at hs
    split at hs <;> (try split at hs) <;> (try simp only [Option.map_eq_some_iff] at hs) <;>
      (try obtain ⟨o, ho, hs⟩ := hs) <;> (try cases hs) <;>
      ((try simp only [setReg, setObs]) <;> grind (splits := 14) [setReg, setObs, RPc.idx, EPc.idx, Reg.cb, Outcome.exc_none, Outcome.exc_some])
  | obsCall j k =>
    simp only [step?] at hs
    split at hs <;> (try cases hs) <;> ((try simp only [setReg, setObs]) <;> grind (splits := 14) [setReg, setObs, RPc.idx, EPc.idx, Reg.cb, Outcome.exc_none, Outcome.exc_some])
  | obs j =>
    simp only [step?, stepObs] at hs
    split at hs <;> (try split at hs) <;> (try split at hs) <;> (try cases hs) <;>
      ((try simp only [setReg, setObs]) <;> grind (splits := 14) [setReg, setObs, RPc.idx, EPc.idx, Reg.cb, Outcome.exc_none, Outcome.exc_some])
  | obsTimeout j =>
    simp only [step?, stepObsTimeout] at hs
    split at hs <;> (try cases hs) <;> ((try simp only [setReg, setObs]) <;> grind (splits := 14) [setReg, setObs, RPc.idx, EPc.idx, Reg.cb, Outcome.exc_none, Outcome.exc_some])

set_option maxHeartbeats 800000 in
private theorem inv1_data1_step {s s' : State} (a : Action) (data1 : 2 ≤ s.ex.pc.idx → ∀ o, s.ex.outcome = some o → s.data = o.data)
    (hs : step? s a = some s') : 2 ≤ s'.ex.pc.idx → ∀ o, s'.ex.outcome = some o → s'.data = o.data := by
  cases a with
  | regCall i m x =>
    simp only [step?] at hs
    split at hs
    · cases hs
      (try simp only [setReg, setObs]) <;> grind (splits := 14) [setReg, setObs, RPc.idx, EPc.idx, Reg.cb, Outcome.exc_none, Outcome.exc_some]
    · cases hs
  | reg i =>
    simp only [step?, stepReg] at hs
    split at hs <;> (try split at hs) <;> (try cases hs) <;>
      ((try simp only [setReg, setObs]) <;> grind (splits := 14) [setReg, setObs, RPc.idx, EPc.idx, Reg.cb, Outcome.exc_none, Outcome.exc_some])
  | execCall o =>
    simp only [step?] at hs
    split at hs <;> (try cases hs) <;> ((try simp only [setReg, setObs]) <;> grind (splits := 14) [setReg, setObs, RPc.idx, EPc.idx, Reg.cb, Outcome.exc_none, Outcome.exc_some])
  | exec =>
    simp only [step?, stepExec] at hs
    split at hs <;> (try split at hs) <;> (try simp only [Option.map_eq_some_iff] at hs) <;>
      (try obtain ⟨o, ho, hs⟩ := hs) <;> (try cases hs) <;>
      ((try simp only [setReg, setObs]) <;> grind (splits := 14) [setReg, setObs, RPc.idx, EPc.idx, Reg.cb, Outcome.exc_none, Outcome.exc_some])
  | obsCall j k =>
    simp only [step?] at hs
    split at hs <;> (try cases hs) <;> ((try simp only [setReg, setObs]) <;> grind (splits := 14) [setReg, setObs, RPc.idx, EPc.idx, Reg.cb, Outcome.exc_none, Outcome.exc_some])
  | obs j =>
    simp only [step?, stepObs] at hs
    split at hs <;> (try split at hs) <;> (try split at hs) <;> (try cases hs) <;>
      ((try simp only [setReg, setObs]) <;> grind (splits := 14) [setReg, setObs, RPc.idx, EPc.idx, Reg.cb, Outcome.exc_none, Outcome.exc_some])
  | obsTimeout j =>
    simp only [step?, stepObsTimeout] at hs
    split at hs <;> (try cases hs) <;> ((try simp only [setReg, setObs]) <;> grind (splits := 14) [setReg, setObs, RPc.idx, EPc.idx, Reg.cb, Outcome.exc_none, Outcome.exc_some])

set_option maxHeartbeats 800000 in
private theorem inv1_exc0_step {s s' : State} (a : Action) (exc0 : s.ex.pc.idx ≤ 2 → s.exc = none)
    (hs : step? s a = some s') : s'.ex.pc.idx ≤ 2 → s'.exc = none := by
  cases a with
  | regCall i m x =>
    simp only [step?] at hs
    split at hs
    · cases hs
      (try simp only [setReg, setObs]) <;> grind (splits := 14) [setReg, setObs, RPc.idx, EPc.idx, Reg.cb, Outcome.exc_none, Outcome.exc_some]
    · cases hs
  | reg i =>
    simp only [step?, stepReg] at hs
    split at hs <;> (try split at hs) <;> (try cases hs) <;>
      ((try simp only [setReg, setObs]) <;> grind (splits := 14) [setReg, setObs, RPc.idx, EPc.idx, Reg.cb, Outcome.exc_none, Outcome.exc_some])
  | execCall o =>
    simp only [step?] at hs
    split at hs <;> (try cases hs) <;> ((try simp only [setReg, setObs]) <;> grind (splits := 14) [setReg, setObs, RPc.idx, EPc.idx, Reg.cb, Outcome.exc_none, Outcome.exc_some])
  | exec =>
    simp only [step?, stepExec] at hs
    split at hs <;> (try split at hs) <;> (try simp only [Option.map_eq_some_iff] at hs) <;>
      (try obtain ⟨o, ho, hs⟩ := hs) <;> (try cases hs) <;>
      ((try simp only [setReg, setObs]) <;> grind (splits := 14) [setReg, setObs, RPc.idx, EPc.idx, Reg.cb, Outcome.exc_none, Outcome.exc_some])
  | obsCall j k =>
    simp only [step?] at hs
    split at hs <;> (try cases hs) <;> ((try simp only [setReg, setObs]) <;> grind (splits := 14) [setReg, setObs, RPc.idx, EPc.idx, Reg.cb, Outcome.exc_none, Outcome.exc_some])
  | obs j =>
    simp only [step?, stepObs] at hs
    split at hs <;> (try split at hs) <;> (try split at hs) <;> (try cases hs) <;>
      ((try simp only [setReg, setObs]) <;> grind (splits := 14) [setReg, setObs, RPc.idx, EPc.idx, Reg.cb, Outcome.exc_none, Outcome.exc_some])
  | obsTimeout j =>
    simp only [step?, stepObsTimeout] at hs
    split at hs <;> (try cases hs) <;> ((try simp only [setReg, setObs]) <;> grind (splits := 14) [setReg, setObs, RPc.idx, EPc.idx, Reg.cb, Outcome.exc_none, Outcome.exc_some])

set_option maxHeartbeats 800000 in
private theorem inv1_exc1_step {s s' : State} (a : Action) (exc1 : 3 ≤ s.ex.pc.idx → ∀ o, s.ex.outcome = some o → s.exc = o.exc)
    (hs : step? s a = some s') : 3 ≤ s'.ex.pc.idx → ∀ o, s'.ex.outcome = some o → s'.exc = o.exc := by
  cases a with
  | regCall i m x =>
    simp only [step?] at hs
    split at hs
    · cases hs
      (try simp only [setReg, setObs]) <;> grind (splits := 14) [setReg, setObs, RPc.idx, EPc.idx, Reg.cb, Outcome.exc_none, Outcome.exc_some]
    · cases hs
  | reg i =>
    simp only [step?, stepReg] at hs
    split at hs <;> (try split at hs) <;> (try cases hs) <;>
      ((try simp only [setReg, setObs]) <;> grind (splits := 14) [setReg, setObs, RPc.idx, EPc.idx, Reg.cb, Outcome.exc_none, Outcome.exc_some])
  | execCall o =>
    simp only [step?] at hs
    split at hs <;> (try cases hs) <;> ((try simp only [setReg, setObs]) <;> grind (splits := 14) [setReg, setObs, RPc.idx, EPc.idx, Reg.cb, Outcome.exc_none, Outcome.exc_some])
  | exec =>
    simp only [step?, stepExec] at hs
    split at hs <;> (try split at hs) <;> (try simp only [Option.map_eq_some_iff] at hs) <;>
      (try obtain ⟨o, ho, hs⟩ := hs) <;> (try cases hs) <;>
      ((try simp only [setReg, setObs]) <;> grind (splits := 14) [setReg, setObs, RPc.idx, EPc.idx, Reg.cb, Outcome.exc_none, Outcome.exc_some])
  | obsCall j k =>
    simp only [step?] at hs
    split at hs <;> (try cases hs) <;> ((try simp only [setReg, setObs]) <;> grind (splits := 14) [setReg, setObs, RPc.idx, EPc.idx, Reg.cb, Outcome.exc_none, Outcome.exc_some])
  | obs j =>
    simp only [step?, stepObs] at hs
    split at hs <;> (try split at hs) <;> (try split at hs) <;> (try cases hs) <;>
      ((try simp only [setReg, setObs]) <;> grind (splits := 14) [setReg, setObs, RPc.idx, EPc.idx, Reg.cb, Outcome.exc_none, Outcome.exc_some])
  | obsTimeout j =>
    simp only [step?, stepObsTimeout] at hs
    split at hs <;> (try cases hs) <;> ((try simp only [setReg, setObs]) <;> grind (splits := 14) [setReg, setObs, RPc.idx, EPc.idx, Reg.cb, Outcome.exc_none, Outcome.exc_some])

set_option maxHeartbeats 800000 in
private theorem inv1_flag_step {s s' : State} (a : Action) (flag : s.flag = true ↔ 4 ≤ s.ex.pc.idx)
    (hs : step? s a = some s') : s'.flag = true ↔ 4 ≤ s'.ex.pc.idx := by
  cases a with
  | regCall i m x =>
    simp only [step?] at hs
    split at hs
    · cases hs
      (try simp only [setReg, setObs]) <;> grind (splits := 14) [setReg, setObs, RPc.idx, EPc.idx, Reg.cb, Outcome.exc_none, Outcome.exc_some]
    · cases hs
  | reg i =>
    simp only [step?, stepReg] at hs
    split at hs <;> (try split at hs) <;> (try cases hs) <;>
      ((try simp only [setReg, setObs]) <;> grind (splits := 14) [setReg, setObs, RPc.idx, EPc.idx, Reg.cb, Outcome.exc_none, Outcome.exc_some])
  | execCall o =>
    simp only [step?] at hs
    split at hs <;> (try cases hs) <;> ((try simp only [setReg, setObs]) <;> grind (splits := 14) [setReg, setObs, RPc.idx, EPc.idx, Reg.cb, Outcome.exc_none, Outcome.exc_some])
  | exec =>
    simp only [step?, stepExec] at hs
    split at hs <;> (try split at hs) <;> (try simp only [Option.map_eq_some_iff] at hs) <;>
      (try obtain ⟨o, ho, hs⟩ := hs) <;> (try cases hs) <;>
      ((try simp only [setReg, setObs]) <;> grind (splits := 14) [setReg, setObs, RPc.idx, EPc.idx, Reg.cb, Outcome.exc_none, Outcome.exc_some])
  | obsCall j k =>
    simp only [step?] at hs
    split at hs <;> (try cases hs) <;> ((try simp only [setReg, setObs]) <;> grind (splits := 14) [setReg, setObs, RPc.idx, EPc.idx, Reg.cb, Outcome.exc_none, Outcome.exc_some])
  | obs j =>
    simp only [step?, stepObs] at hs
    split at hs <;> (try split at hs) <;> (try split at hs) <;> (try cases hs) <;>
      ((try simp only [setReg, setObs]) <;> grind (splits := 14) [setReg, setObs, RPc.idx, EPc.idx, Reg.cb, Outcome.exc_none, Outcome.exc_some])
  | obsTimeout j =>
    simp only [step?, stepObsTimeout] at hs
    split at hs <;> (try cases hs) <;> ((try simp only [setReg, setObs]) <;> grind (splits := 14) [setReg, setObs, RPc.idx, EPc.idx, Reg.cb, Outcome.exc_none, Outcome.exc_some])

set_option maxHeartbeats 800000 in
private theorem inv1_completed_step {s s' : State} (a : Action) (completed : s.completed = true ↔ 6 ≤ s.ex.pc.idx)
    (hs : step? s a = some s') : s'.completed = true ↔ 6 ≤ s'.ex.pc.idx := by
  cases a with
  | regCall i m x =>
    simp only [step?] at hs
    split at hs
    · cases hs
      (try simp only [setReg, setObs]) <;> grind (splits := 14) [setReg, setObs, RPc.idx, EPc.idx, Reg.cb, Outcome.exc_none, Outcome.exc_some]
    · cases hs
  | reg i =>
    simp only [step?, stepReg] at hs
    split at hs <;> (try split at hs) <;> (try cases hs) <;>
      ((try simp only [setReg, setObs]) <;> grind (splits := 14) [setReg, setObs, RPc.idx, EPc.idx, Reg.cb, Outcome.exc_none, Outcome.exc_some])
  | execCall o =>
    simp only [step?] at hs
    split at hs <;> (try cases hs) <;> ((try simp only [setReg, setObs]) <;> grind (splits := 14) [setReg, setObs, RPc.idx, EPc.idx, Reg.cb, Outcome.exc_none, Outcome.exc_some])
  | exec =>
    simp only [step?, stepExec] at hs
    split at hs <;> (try split at hs) <;> (try simp only [Option.map_eq_some_iff] at hs) <;>
      (try obtain ⟨o, ho, hs⟩ := hs) <;> (try cases hs) <;>
      ((try simp only [setReg, setObs]) <;> grind (splits := 14) [setReg, setObs, RPc.idx, EPc.idx, Reg.cb, Outcome.exc_none, Outcome.exc_some])
  | obsCall j k =>
    simp only [step?] at hs
    split at hs <;> (try cases hs) <;> ((try simp only [setReg, setObs]) <;> grind (splits := 14) [setReg, setObs, RPc.idx, EPc.idx, Reg.cb, Outcome.exc_none, Outcome.exc_some])
  | obs j =>
    simp only [step?, stepObs] at hs
    split at hs <;> (try split at hs) <;> (try split at hs) <;> (try cases hs) <;>
      ((try simp only [setReg, setObs]) <;> grind (splits := 14) [setReg, setObs, RPc.idx, EPc.idx, Reg.cb, Outcome.exc_none, Outcome.exc_some])
  | obsTimeout j =>
    simp only [step?, stepObsTimeout] at hs
    split at hs <;> (try cases hs) <;> ((try simp only [setReg, setObs]) <;> grind (splits := 14) [setReg, setObs, RPc.idx, EPc.idx, Reg.cb, Outcome.exc_none, Outcome.exc_some])

theorem inv1_step {s s' : State} (a : Action) (h1 : Inv1 s)
    (hs : step? s a = some s') : Inv1 s' :=
  {
    lockExec := inv1_lockExec_step a h1.lockExec h1.lockReg hs
    lockReg := inv1_lockReg_step a h1.lockExec h1.lockReg hs
    lockObs := inv1_lockObs_step a h1.lockObs hs
    outcome0 := inv1_outcome0_step a h1.outcome0 hs
    outcome := inv1_outcome_step a h1.outcome hs
    data0 := inv1_data0_step a h1.data0 hs
    data1 := inv1_data1_step a h1.data1 hs
    exc0 := inv1_exc0_step a h1.exc0 hs
    exc1 := inv1_exc1_step a h1.exc1 hs
    flag := inv1_flag_step a h1.flag hs
    completed := inv1_completed_step a h1.completed hs
  }

/-- Layer 2: locals of the registrars and of the executor; what `__callback` / `__extra` hold. -/
structure Inv2 (s : State) : Prop where
  regCompleted : ∀ i, (s.regs i).completed = true → 9 ≤ s.ex.pc.idx
  regNotify : ∀ i, 6 ≤ (s.regs i).pc.idx → (s.regs i).pc.idx ≤ 9 → (s.regs i).completed = true ∧ (s.regs i).method ≠ none
  regD : ∀ i, 7 ≤ (s.regs i).pc.idx → (s.regs i).pc.idx ≤ 9 → ∀ o, s.ex.outcome = some o → (s.regs i).d = o.data
  regX : ∀ i, 8 ≤ (s.regs i).pc.idx → (s.regs i).pc.idx ≤ 9 → ∀ o, s.ex.outcome = some o → (s.regs i).x = o.exc
  exD : 10 ≤ s.ex.pc.idx → s.ex.pc.idx ≤ 12 → ∀ o, s.ex.outcome = some o → s.ex.d = o.data
  exX : 11 ≤ s.ex.pc.idx → s.ex.pc.idx ≤ 12 → ∀ o, s.ex.outcome = some o → s.ex.x = o.exc
  cbField : ∀ c, s.callback = some c → 3 ≤ (s.regs c.rid).pc.idx ∧ (s.regs c.rid).method = some c.kind
  cbInCs : ∀ i, 3 ≤ (s.regs i).pc.idx → (s.regs i).pc.idx ≤ 5 → s.callback = (s.regs i).cb i
  extraField : ∀ c, s.callback = some c → 4 ≤ (s.regs c.rid).pc.idx → s.extra = (s.regs c.rid).extra
  exCbSame : s.ex.pc.idx = 7 → s.callback = s.ex.cb
  exCb : 7 ≤ s.ex.pc.idx → ∀ c, s.ex.cb = some c → 6 ≤ (s.regs c.rid).pc.idx ∧ (s.regs c.rid).completed = false ∧ (s.regs c.rid).method = some c.kind
  exExtra : 8 ≤ s.ex.pc.idx → ∀ c, s.ex.cb = some c → s.ex.extra = (s.regs c.rid).extra
  exNotify : 9 ≤ s.ex.pc.idx → s.ex.pc.idx ≤ 12 → s.ex.cb ≠ none

theorem inv2_init : Inv2 init := by
  constructor <;> simp [init, EPc.idx, RPc.idx]

set_option maxHeartbeats 800000 in
private theorem inv2_regCompleted_step {s s' : State} (a : Action) (regCompleted : ∀ i, (s.regs i).completed = true → 9 ≤ s.ex.pc.idx) (lockExec : s.lock = some .exec ↔ (5 ≤ s.ex.pc.idx ∧ s.ex.pc.idx ≤ 8)) (lockReg : ∀ i, s.lock = some (.reg i) ↔ (2 ≤ (s.regs i).pc.idx ∧ (s.regs i).pc.idx ≤ 5)) (completed : s.completed = true ↔ 6 ≤ s.ex.pc.idx)
    (hs : step? s a = some s') : ∀ i, (s'.regs i).completed = true → 9 ≤ s'.ex.pc.idx := by
  cases a with
  | regCall i m x =>
    simp only [step?] at hs
    split at hs
    · cases hs
      (try simp only [setReg, setObs]) <;> grind (splits := 14) [setReg, setObs, RPc.idx, EPc.idx, Reg.cb, Outcome.exc_none, Outcome.exc_some]
    · cases hs
  | reg i =>
    simp only [step?, stepReg] at hs
    split at hs <;> (try split at hs) <;> (try cases hs) <;>
      ((try simp only [setReg, setObs]) <;> grind (splits := 14) [setReg, setObs, RPc.idx, EPc.idx, Reg.cb, Outcome.exc_none, Outcome.exc_some])
  | execCall o =>
    simp only [step?] at hs
    split at hs <;> (try cases hs) <;> ((try simp only [setReg, setObs]) <;> grind (splits := 14) [setReg, setObs, RPc.idx, EPc.idx, Reg.cb, Outcome.exc_none, Outcome.exc_some])
  | exec =>
    simp only [step?, stepExec] at hs
    split at hs <;> (try split at hs) <;> (try simp only [Option.map_eq_some_iff] at hs) <;>
      (try obtain ⟨o, ho, hs⟩ := hs) <;> (try cases hs) <;>
      ((try simp only [setReg, setObs]) <;> grind (splits := 14) [setReg, setObs, RPc.idx, EPc.idx, Reg.cb, Outcome.exc_none, Outcome.exc_some])
  | obsCall j k =>
    simp only [step?] at hs
    split at hs <;> (try cases hs) <;> ((try simp only [setReg, setObs]) <;> grind (splits := 14) [setReg, setObs, RPc.idx, EPc.idx, Reg.cb, Outcome.exc_none, Outcome.exc_some])
  | obs j =>
    simp only [step?, stepObs] at hs
    split at hs <;> (try split at hs) <;> (try split at hs) <;> (try cases hs) <;>
      ((try simp only [setReg, setObs]) <;> grind (splits := 14) [setReg, setObs, RPc.idx, EPc.idx, Reg.cb, Outcome.exc_none, Outcome.exc_some])
  | obsTimeout j =>
    simp only [step?, stepObsTimeout] at hs
    split at hs <;> (try cases hs) <;> ((try simp only [setReg, setObs]) <;> grind (splits := 14) [setReg, setObs, RPc.idx, EPc.idx, Reg.cb, Outcome.exc_none, Outcome.exc_some])

set_option maxHeartbeats 800000 in
private theorem inv2_regNotify_step {s s' : State} (a : Action) (regNotify : ∀ i, 6 ≤ (s.regs i).pc.idx → (s.regs i).pc.idx ≤ 9 → (s.regs i).completed = true ∧ (s.regs i).method ≠ none)
    (hs : step? s a = some s') : ∀ i, 6 ≤ (s'.regs i).pc.idx → (s'.regs i).pc.idx ≤ 9 → (s'.regs i).completed = true ∧ (s'.regs i).method ≠ none := by
  cases a with
  | regCall i m x =>
    simp only [step?] at hs
    split at hs
    · cases hs
      (try simp only [setReg, setObs]) <;> grind (splits := 14) [setReg, setObs, RPc.idx, EPc.idx, Reg.cb, Outcome.exc_none, Outcome.exc_some]
    · cases hs
  | reg i =>
    simp only [step?, stepReg] at hs
    split at hs <;> (try split at hs) <;> (try cases hs) <;>
      ((try simp only [setReg, setObs]) <;> grind (splits := 14) [setReg, setObs, RPc.idx, EPc.idx, Reg.cb, Outcome.exc_none, Outcome.exc_some])
  | execCall o =>
    simp only [step?] at hs
    split at hs <;> (try cases hs) <;> ((try simp only [setReg, setObs]) <;> grind (splits := 14) [setReg, setObs, RPc.idx, EPc.idx, Reg.cb, Outcome.exc_none, Outcome.exc_some])
  | exec =>
    simp only [step?, stepExec] at hs
    split at hs <;> (try split at hs) <;> (try simp only [Option.map_eq_some_iff] at hs) <;>
      (try obtain ⟨o, ho, hs⟩ := hs) <;> (try cases hs) <;>
      ((try simp only [setReg, setObs]) <;> grind (splits := 14) [setReg, setObs, RPc.idx, EPc.idx, Reg.cb, Outcome.exc_none, Outcome.exc_some])
  | obsCall j k =>
    simp only [step?] at hs
    split at hs <;> (try cases hs) <;> ((try simp only [setReg, setObs]) <;> grind (splits := 14) [setReg, setObs, RPc.idx, EPc.idx, Reg.cb, Outcome.exc_none, Outcome.exc_some])
  | obs j =>
    simp only [step?, stepObs] at hs
    split at hs <;> (try split at hs) <;> (try split at hs) <;> (try cases hs) <;>
      ((try simp only [setReg, setObs]) <;> grind (splits := 14) [setReg, setObs, RPc.idx, EPc.idx, Reg.cb, Outcome.exc_none, Outcome.exc_some])
  | obsTimeout j =>
    simp only [step?, stepObsTimeout] at hs
    split at hs <;> (try cases hs) <;> ((try simp only [setReg, setObs]) <;> grind (splits := 14) [setReg, setObs, RPc.idx, EPc.idx, Reg.cb, Outcome.exc_none, Outcome.exc_some])

set_option maxHeartbeats 800000 in
private theorem inv2_regD_step {s s' : State} (a : Action) (regD : ∀ i, 7 ≤ (s.regs i).pc.idx → (s.regs i).pc.idx ≤ 9 → ∀ o, s.ex.outcome = some o → (s.regs i).d = o.data) (regNotify : ∀ i, 6 ≤ (s.regs i).pc.idx → (s.regs i).pc.idx ≤ 9 → (s.regs i).completed = true ∧ (s.regs i).method ≠ none) (regCompleted : ∀ i, (s.regs i).completed = true → 9 ≤ s.ex.pc.idx) (data1 : 2 ≤ s.ex.pc.idx → ∀ o, s.ex.outcome = some o → s.data = o.data)
    (hs : step? s a = some s') : ∀ i, 7 ≤ (s'.regs i).pc.idx → (s'.regs i).pc.idx ≤ 9 → ∀ o, s'.ex.outcome = some o → (s'.regs i).d = o.data := by
  cases a with
  | regCall i m x =>
    simp only [step?] at hs
    split at hs
    · cases hs
      (try simp only [setReg, setObs]) <;> grind (splits := 14) [setReg, setObs, RPc.idx, EPc.idx, Reg.cb, Outcome.exc_none, Outcome.exc_some]
    · cases hs
  | reg i =>
    simp only [step?, stepReg] at hs
    split at hs <;> (try split at hs) <;> (try cases hs) <;>
      ((try simp only [setReg, setObs]) <;> grind (splits := 14) [setReg, setObs, RPc.idx, EPc.idx, Reg.cb, Outcome.exc_none, Outcome.exc_some])
  | execCall o =>
    simp only [step?] at hs
    split at hs <;> (try cases hs) <;> ((try simp only [setReg, setObs]) <;> grind (splits := 14) [setReg, setObs, RPc.idx, EPc.idx, Reg.cb, Outcome.exc_none, Outcome.exc_some])
  | exec =>
    simp only [step?, stepExec] at hs
    split at hs <;> (try split at hs) <;> (try simp only [Option.map_eq_some_iff] at hs) <;>
      (try obtain ⟨o, ho, hs⟩ := hs) <;> (try cases hs) <;>
      ((try simp only [setReg, setObs]) <;> grind (splits := 14) [setReg, setObs, RPc.idx, EPc.idx, Reg.cb, Outcome.exc_none, Outcome.exc_some])
  | obsCall j k =>
    simp only [step?] at hs
    split at hs <;> (try cases hs) <;> ((try simp only [setReg, setObs]) <;> grind (splits := 14) [setReg, setObs, RPc.idx, EPc.idx, Reg.cb, Outcome.exc_none, Outcome.exc_some])
  | obs j =>
    simp only [step?, stepObs] at hs
    split at hs <;> (try split at hs) <;> (try split at hs) <;> (try cases hs) <;>
      ((try simp only [setReg, setObs]) <;> grind (splits := 14) [setReg, setObs, RPc.idx, EPc.idx, Reg.cb, Outcome.exc_none, Outcome.exc_some])
  | obsTimeout j =>
    simp only [step?, stepObsTimeout] at hs
    split at hs <;> (try cases hs) <;> ((try simp only [setReg, setObs]) <;> grind (splits := 14) [setReg, setObs, RPc.idx, EPc.idx, Reg.cb, Outcome.exc_none, Outcome.exc_some])

set_option maxHeartbeats 800000 in
private theorem inv2_regX_step {s s' : State} (a : Action) (regX : ∀ i, 8 ≤ (s.regs i).pc.idx → (s.regs i).pc.idx ≤ 9 → ∀ o, s.ex.outcome = some o → (s.regs i).x = o.exc) (regNotify : ∀ i, 6 ≤ (s.regs i).pc.idx → (s.regs i).pc.idx ≤ 9 → (s.regs i).completed = true ∧ (s.regs i).method ≠ none) (regCompleted : ∀ i, (s.regs i).completed = true → 9 ≤ s.ex.pc.idx) (exc1 : 3 ≤ s.ex.pc.idx → ∀ o, s.ex.outcome = some o → s.exc = o.exc)
    (hs : step? s a = some s') : ∀ i, 8 ≤ (s'.regs i).pc.idx → (s'.regs i).pc.idx ≤ 9 → ∀ o, s'.ex.outcome = some o → (s'.regs i).x = o.exc := by
  cases a with
  | regCall i m x =>
    simp only [step?] at hs
    split at hs
    · cases hs
      (try simp only [setReg, setObs]) <;> grind (splits := 14) [setReg, setObs, RPc.idx, EPc.idx, Reg.cb, Outcome.exc_none, Outcome.exc_some]
    · cases hs
  | reg i =>
    simp only [step?, stepReg] at hs
    split at hs <;> (try split at hs) <;> (try cases hs) <;>
      ((try simp only [setReg, setObs]) <;> grind (splits := 14) [setReg, setObs, RPc.idx, EPc.idx, Reg.cb, Outcome.exc_none, Outcome.exc_some])
  | execCall o =>
    simp only [step?] at hs
    split at hs <;> (try cases hs) <;> ((try simp only [setReg, setObs]) <;> grind (splits := 14) [setReg, setObs, RPc.idx, EPc.idx, Reg.cb, Outcome.exc_none, Outcome.exc_some])
  | exec =>
    simp only [step?, stepExec] at hs
    split at hs <;> (try split at hs) <;> (try simp only [Option.map_eq_some_iff] at hs) <;>
      (try obtain ⟨o, ho, hs⟩ := hs) <;> (try cases hs) <;>
      ((try simp only [setReg, setObs]) <;> grind (splits := 14) [setReg, setObs, RPc.idx, EPc.idx, Reg.cb, Outcome.exc_none, Outcome.exc_some])
  | obsCall j k =>
    simp only [step?] at hs
    split at hs <;> (try cases hs) <;> ((try simp only [setReg, setObs]) <;> grind (splits := 14) [setReg, setObs, RPc.idx, EPc.idx, Reg.cb, Outcome.exc_none, Outcome.exc_some])
  | obs j =>
    simp only [step?, stepObs] at hs
    split at hs <;> (try split at hs) <;> (try split at hs) <;> (try cases hs) <;>
      ((try simp only [setReg, setObs]) <;> grind (splits := 14) [setReg, setObs, RPc.idx, EPc.idx, Reg.cb, Outcome.exc_none, Outcome.exc_some])
  | obsTimeout j =>
    simp only [step?, stepObsTimeout] at hs
    split at hs <;> (try cases hs) <;> ((try simp only [setReg, setObs]) <;> grind (splits := 14) [setReg, setObs, RPc.idx, EPc.idx, Reg.cb, Outcome.exc_none, Outcome.exc_some])

set_option maxHeartbeats 800000 in
private theorem inv2_exD_step {s s' : State} (a : Action) (exD : 10 ≤ s.ex.pc.idx → s.ex.pc.idx ≤ 12 → ∀ o, s.ex.outcome = some o → s.ex.d = o.data) (data1 : 2 ≤ s.ex.pc.idx → ∀ o, s.ex.outcome = some o → s.data = o.data)
    (hs : step? s a = some s') : 10 ≤ s'.ex.pc.idx → s'.ex.pc.idx ≤ 12 → ∀ o, s'.ex.outcome = some o → s'.ex.d = o.data := by
  cases a with
  | regCall i m x =>
    simp only [step?] at hs
    split at hs
    · cases hs
      (try simp only [setReg, setObs]) <;> grind (splits := 14) [setReg, setObs, RPc.idx, EPc.idx, Reg.cb, Outcome.exc_none, Outcome.exc_some]
    · cases hs
  | reg i =>
    simp only [step?, stepReg] at hs
    split at hs <;> (try split at hs) <;> (try cases hs) <;>
      ((try simp only [setReg, setObs]) <;> grind (splits := 14) [setReg, setObs, RPc.idx, EPc.idx, Reg.cb, Outcome.exc_none, Outcome.exc_some])
  | execCall o =>
    simp only [step?] at hs
    split at hs <;> (try cases hs) <;> ((try simp only [setReg, setObs]) <;> grind (splits := 14) [setReg, setObs, RPc.idx, EPc.idx, Reg.cb, Outcome.exc_none, Outcome.exc_some])
  | exec =>
    simp only [step?, stepExec] at hs
    split at hs <;> (try split at hs) <;> (try simp only [Option.map_eq_some_iff] at hs) <;>
      (try obtain ⟨o, ho, hs⟩ := hs) <;> (try cases hs) <;>
      ((try simp only [setReg, setObs]) <;> grind (splits := 14) [setReg, setObs, RPc.idx, EPc.idx, Reg.cb, Outcome.exc_none, Outcome.exc_some])
  | obsCall j k =>
    simp only [step?] at hs
    split at hs <;> (try cases hs) <;> ((try simp only [setReg, setObs]) <;> grind (splits := 14) [setReg, setObs, RPc.idx, EPc.idx, Reg.cb, Outcome.exc_none, Outcome.exc_some])
  | obs j =>
    simp only [step?, stepObs] at hs
    split at hs <;> (try split at hs) <;> (try split at hs) <;> (try cases hs) <;>
      ((try simp only [setReg, setObs]) <;> grind (splits := 14) [setReg, setObs, RPc.idx, EPc.idx, Reg.cb, Outcome.exc_none, Outcome.exc_some])
  | obsTimeout j =>
    simp only [step?, stepObsTimeout] at hs
    split at hs <;> (try cases hs) <;> ((try simp only [setReg, setObs]) <;> grind (splits := 14) [setReg, setObs, RPc.idx, EPc.idx, Reg.cb, Outcome.exc_none, Outcome.exc_some])

set_option maxHeartbeats 800000 in
private theorem inv2_exX_step {s s' : State} (a : Action) (exX : 11 ≤ s.ex.pc.idx → s.ex.pc.idx ≤ 12 → ∀ o, s.ex.outcome = some o → s.ex.x = o.exc) (exc1 : 3 ≤ s.ex.pc.idx → ∀ o, s.ex.outcome = some o → s.exc = o.exc)
    (hs : step? s a = some s') : 11 ≤ s'.ex.pc.idx → s'.ex.pc.idx ≤ 12 → ∀ o, s'.ex.outcome = some o → s'.ex.x = o.exc := by
  cases a with
  | regCall i m x =>
    simp only [step?] at hs
    split at hs
    · cases hs
      (try simp only [setReg, setObs]) <;> grind (splits := 14) [setReg, setObs, RPc.idx, EPc.idx, Reg.cb, Outcome.exc_none, Outcome.exc_some]
    · cases hs
  | reg i =>
    simp only [step?, stepReg] at hs
    split at hs <;> (try split at hs) <;> (try cases hs) <;>
      ((try simp only [setReg, setObs]) <;> grind (splits := 14) [setReg, setObs, RPc.idx, EPc.idx, Reg.cb, Outcome.exc_none, Outcome.exc_some])
  | execCall o =>
    simp only [step?] at hs
    split at hs <;> (try cases hs) <;> ((try simp only [setReg, setObs]) <;> grind (splits := 14) [setReg, setObs, RPc.idx, EPc.idx, Reg.cb, Outcome.exc_none, Outcome.exc_some])
  | exec =>
    simp only [step?, stepExec] at hs
    split at hs <;> (try split at hs) <;> (try simp only [Option.map_eq_some_iff] at hs) <;>
      (try obtain ⟨o, ho, hs⟩ := hs) <;> (try cases hs) <;>
      ((try simp only [setReg, setObs]) <;> grind (splits := 14) [setReg, setObs, RPc.idx, EPc.idx, Reg.cb, Outcome.exc_none, Outcome.exc_some])
  | obsCall j k =>
    simp only [step?] at hs
    split at hs <;> (try cases hs) <;> ((try simp only [setReg, setObs]) <;> grind (splits := 14) [setReg, setObs, RPc.idx, EPc.idx, Reg.cb, Outcome.exc_none, Outcome.exc_some])
  | obs j =>
    simp only [step?, stepObs] at hs
    split at hs <;> (try split at hs) <;> (try split at hs) <;> (try cases hs) <;>
      ((try simp only [setReg, setObs]) <;> grind (splits := 14) [setReg, setObs, RPc.idx, EPc.idx, Reg.cb, Outcome.exc_none, Outcome.exc_some])
  | obsTimeout j =>
    simp only [step?, stepObsTimeout] at hs
    split at hs <;> (try cases hs) <;> ((try simp only [setReg, setObs]) <;> grind (splits := 14) [setReg, setObs, RPc.idx, EPc.idx, Reg.cb, Outcome.exc_none, Outcome.exc_some])

set_option maxHeartbeats 800000 in
private theorem inv2_cbField_step {s s' : State} (a : Action) (cbField : ∀ c, s.callback = some c → 3 ≤ (s.regs c.rid).pc.idx ∧ (s.regs c.rid).method = some c.kind)
    (hs : step? s a = some s') : ∀ c, s'.callback = some c → 3 ≤ (s'.regs c.rid).pc.idx ∧ (s'.regs c.rid).method = some c.kind := by
  cases a with
  | regCall i m x =>
    simp only [step?] at hs
    split at hs
    · cases hs
      (try simp only [setReg, setObs]) <;> grind (splits := 14) [setReg, setObs, RPc.idx, EPc.idx, Reg.cb, Outcome.exc_none, Outcome.exc_some]
    · cases hs
  | reg i =>
    simp only [step?, stepReg] at hs
    split at hs <;> (try split at hs) <;> (try cases hs) <;>
      ((try simp only [setReg, setObs]) <;> grind (splits := 14) [setReg, setObs, RPc.idx, EPc.idx, Reg.cb, Outcome.exc_none, Outcome.exc_some])
  | execCall o =>
    simp only [step?] at hs
    split at hs <;> (try cases hs) <;> ((try simp only [setReg, setObs]) <;> grind (splits := 14) [setReg, setObs, RPc.idx, EPc.idx, Reg.cb, Outcome.exc_none, Outcome.exc_some])
  | exec =>
    simp only [step?, stepExec] at hs
    split at hs <;> (try split at hs) <;> (try simp only [Option.map_eq_some_iff] at hs) <;>
      (try obtain ⟨o, ho, hs⟩ := hs) <;> (try cases hs) <;>
      ((try simp only [setReg, setObs]) <;> grind (splits := 14) [setReg, setObs, RPc.idx, EPc.idx, Reg.cb, Outcome.exc_none, Outcome.exc_some])
  | obsCall j k =>
    simp only [step?] at hs
    split at hs <;> (try cases hs) <;> ((try simp only [setReg, setObs]) <;> grind (splits := 14) [setReg, setObs, RPc.idx, EPc.idx, Reg.cb, Outcome.exc_none, Outcome.exc_some])
  | obs j =>
    simp only [step?, stepObs] at hs
    split at hs <;> (try split at hs) <;> (try split at hs) <;> (try cases hs) <;>
      ((try simp only [setReg, setObs]) <;> grind (splits := 14) [setReg, setObs, RPc.idx, EPc.idx, Reg.cb, Outcome.exc_none, Outcome.exc_some])
  | obsTimeout j =>
    simp only [step?, stepObsTimeout] at hs
    split at hs <;> (try cases hs) <;> ((try simp only [setReg, setObs]) <;> grind (splits := 14) [setReg, setObs, RPc.idx, EPc.idx, Reg.cb, Outcome.exc_none, Outcome.exc_some])

set_option maxHeartbeats 800000 in
private theorem inv2_cbInCs_step {s s' : State} (a : Action) (cbInCs : ∀ i, 3 ≤ (s.regs i).pc.idx → (s.regs i).pc.idx ≤ 5 → s.callback = (s.regs i).cb i) (lockReg : ∀ i, s.lock = some (.reg i) ↔ (2 ≤ (s.regs i).pc.idx ∧ (s.regs i).pc.idx ≤ 5))
    (hs : step? s a = some s') : ∀ i, 3 ≤ (s'.regs i).pc.idx → (s'.regs i).pc.idx ≤ 5 → s'.callback = (s'.regs i).cb i := by
  cases a with
  | regCall i m x =>
    simp only [step?] at hs
    split at hs
    · cases hs
      (try simp only [setReg, setObs]) <;> grind (splits := 14) [setReg, setObs, RPc.idx, EPc.idx, Reg.cb, Outcome.exc_none, Outcome.exc_some]
    · cases hs
  | reg i =>
    simp only [step?, stepReg] at hs
    split at hs <;> (try split at hs) <;> (try cases hs) <;>
      ((try simp only [setReg, setObs]) <;> grind (splits := 14) [setReg, setObs, RPc.idx, EPc.idx, Reg.cb, Outcome.exc_none, Outcome.exc_some])
  | execCall o =>
    simp only [step?] at hs
    split at hs <;> (try cases hs) <;> ((try simp only [setReg, setObs]) <;> grind (splits := 14) [setReg, setObs, RPc.idx, EPc.idx, Reg.cb, Outcome.exc_none, Outcome.exc_some])
  | exec =>
    simp only [step?, stepExec] at hs
    split at hs <;> (try split at hs) <;> (try simp only [Option.map_eq_some_iff] at hs) <;>
      (try obtain ⟨o, ho, hs⟩ := hs) <;> (try cases hs) <;>
      ((try simp only [setReg, setObs]) <;> grind (splits := 14) [setReg, setObs, RPc.idx, EPc.idx, Reg.cb, Outcome.exc_none, Outcome.exc_some])
  | obsCall j k =>
    simp only [step?] at hs
    split at hs <;> (try cases hs) <;> ((try simp only [setReg, setObs]) <;> grind (splits := 14) [setReg, setObs, RPc.idx, EPc.idx, Reg.cb, Outcome.exc_none, Outcome.exc_some])
  | obs j =>
    simp only [step?, stepObs] at hs
    split at hs <;> (try split at hs) <;> (try split at hs) <;> (try cases hs) <;>
      ((try simp only [setReg, setObs]) <;> grind (splits := 14) [setReg, setObs, RPc.idx, EPc.idx, Reg.cb, Outcome.exc_none, Outcome.exc_some])
  | obsTimeout j =>
    simp only [step?, stepObsTimeout] at hs
    split at hs <;> (try cases hs) <;> ((try simp only [setReg, setObs]) <;> grind (splits := 14) [setReg, setObs, RPc.idx, EPc.idx, Reg.cb, Outcome.exc_none, Outcome.exc_some])

set_option maxHeartbeats 800000 in
private theorem inv2_extraField_step {s s' : State} (a : Action) (extraField : ∀ c, s.callback = some c → 4 ≤ (s.regs c.rid).pc.idx → s.extra = (s.regs c.rid).extra) (cbInCs : ∀ i, 3 ≤ (s.regs i).pc.idx → (s.regs i).pc.idx ≤ 5 → s.callback = (s.regs i).cb i) (cbField : ∀ c, s.callback = some c → 3 ≤ (s.regs c.rid).pc.idx ∧ (s.regs c.rid).method = some c.kind)
    (hs : step? s a = some s') : ∀ c, s'.callback = some c → 4 ≤ (s'.regs c.rid).pc.idx → s'.extra = (s'.regs c.rid).extra := by
  cases a with
  | regCall i m x =>
    simp only [step?] at hs
    split at hs
    · cases hs
      (try simp only [setReg, setObs]) <;> grind (splits := 14) [setReg, setObs, RPc.idx, EPc.idx, Reg.cb, Outcome.exc_none, Outcome.exc_some]
    · cases hs
  | reg i =>
    simp only [step?, stepReg] at hs
    split at hs <;> (try split at hs) <;> (try cases hs) <;>
      ((try simp only [setReg, setObs]) <;> grind (splits := 14) [setReg, setObs, RPc.idx, EPc.idx, Reg.cb, Outcome.exc_none, Outcome.exc_some])
  | execCall o =>
    simp only [step?] at hs
    split at hs <;> (try cases hs) <;> ((try simp only [setReg, setObs]) <;> grind (splits := 14) [setReg, setObs, RPc.idx, EPc.idx, Reg.cb, Outcome.exc_none, Outcome.exc_some])
  | exec =>
    simp only [step?, stepExec] at hs
    split at hs <;> (try split at hs) <;> (try simp only [Option.map_eq_some_iff] at hs) <;>
      (try obtain ⟨o, ho, hs⟩ := hs) <;> (try cases hs) <;>
      ((try simp only [setReg, setObs]) <;> grind (splits := 14) [setReg, setObs, RPc.idx, EPc.idx, Reg.cb, Outcome.exc_none, Outcome.exc_some])
  | obsCall j k =>
    simp only [step?] at hs
    split at hs <;> (try cases hs) <;> ((try simp only [setReg, setObs]) <;> grind (splits := 14) [setReg, setObs, RPc.idx, EPc.idx, Reg.cb, Outcome.exc_none, Outcome.exc_some])
  | obs j =>
    simp only [step?, stepObs] at hs
    split at hs <;> (try split at hs) <;> (try split at hs) <;> (try cases hs) <;>
      ((try simp only [setReg, setObs]) <;> grind (splits := 14) [setReg, setObs, RPc.idx, EPc.idx, Reg.cb, Outcome.exc_none, Outcome.exc_some])
  | obsTimeout j =>
    simp only [step?, stepObsTimeout] at hs
    split at hs <;> (try cases hs) <;> ((try simp only [setReg, setObs]) <;> grind (splits := 14) [setReg, setObs, RPc.idx, EPc.idx, Reg.cb, Outcome.exc_none, Outcome.exc_some])

set_option maxHeartbeats 800000 in
private theorem inv2_exCbSame_step {s s' : State} (a : Action) (exCbSame : s.ex.pc.idx = 7 → s.callback = s.ex.cb) (lockExec : s.lock = some .exec ↔ (5 ≤ s.ex.pc.idx ∧ s.ex.pc.idx ≤ 8)) (lockReg : ∀ i, s.lock = some (.reg i) ↔ (2 ≤ (s.regs i).pc.idx ∧ (s.regs i).pc.idx ≤ 5))
    (hs : step? s a = some s') : s'.ex.pc.idx = 7 → s'.callback = s'.ex.cb := by
  cases a with
  | regCall i m x =>
    simp only [step?] at hs
    split at hs
    · cases hs
      (try simp only [setReg, setObs]) <;> grind (splits := 14) [setReg, setObs, RPc.idx, EPc.idx, Reg.cb, Outcome.exc_none, Outcome.exc_some]
    · cases hs
  | reg i =>
    simp only [step?, stepReg] at hs
    split at hs <;> (try split at hs) <;> (try cases hs) <;>
      ((try simp only [setReg, setObs]) <;> grind (splits := 14) [setReg, setObs, RPc.idx, EPc.idx, Reg.cb, Outcome.exc_none, Outcome.exc_some])
  | execCall o =>
    simp only [step?] at hs
    split at hs <;> (try cases hs) <;> ((try simp only [setReg, setObs]) <;> grind (splits := 14) [setReg, setObs, RPc.idx, EPc.idx, Reg.cb, Outcome.exc_none, Outcome.exc_some])
  | exec =>
    simp only [step?, stepExec] at hs
    split at hs <;> (try split at hs) <;> (try simp only [Option.map_eq_some_iff] at hs) <;>
      (try obtain ⟨o, ho, hs⟩ := hs) <;> (try cases hs) <;>
      ((try simp only [setReg, setObs]) <;> grind (splits := 14) [setReg, setObs, RPc.idx, EPc.idx, Reg.cb, Outcome.exc_none, Outcome.exc_some])
  | obsCall j k =>
    simp only [step?] at hs
    split at hs <;> (try cases hs) <;> ((try simp only [setReg, setObs]) <;> grind (splits := 14) [setReg, setObs, RPc.idx, EPc.idx, Reg.cb, Outcome.exc_none, Outcome.exc_some])
  | obs j =>
    simp only [step?, stepObs] at hs
    split at hs <;> (try split at hs) <;> (try split at hs) <;> (try cases hs) <;>
      ((try simp only [setReg, setObs]) <;> grind (splits := 14) [setReg, setObs, RPc.idx, EPc.idx, Reg.cb, Outcome.exc_none, Outcome.exc_some])
  | obsTimeout j =>
    simp only [step?, stepObsTimeout] at hs
    split at hs <;> (try cases hs) <;> ((try simp only [setReg, setObs]) <;> grind (splits := 14) [setReg, setObs, RPc.idx, EPc.idx, Reg.cb, Outcome.exc_none, Outcome.exc_some])

set_option maxHeartbeats 800000 in
private theorem inv2_exCb_step {s s' : State} (a : Action) (exCb : 7 ≤ s.ex.pc.idx → ∀ c, s.ex.cb = some c → 6 ≤ (s.regs c.rid).pc.idx ∧ (s.regs c.rid).completed = false ∧ (s.regs c.rid).method = some c.kind) (cbField : ∀ c, s.callback = some c → 3 ≤ (s.regs c.rid).pc.idx ∧ (s.regs c.rid).method = some c.kind) (regCompleted : ∀ i, (s.regs i).completed = true → 9 ≤ s.ex.pc.idx) (lockExec : s.lock = some .exec ↔ (5 ≤ s.ex.pc.idx ∧ s.ex.pc.idx ≤ 8)) (lockReg : ∀ i, s.lock = some (.reg i) ↔ (2 ≤ (s.regs i).pc.idx ∧ (s.regs i).pc.idx ≤ 5))
    (hs : step? s a = some s') : 7 ≤ s'.ex.pc.idx → ∀ c, s'.ex.cb = some c → 6 ≤ (s'.regs c.rid).pc.idx ∧ (s'.regs c.rid).completed = false ∧ (s'.regs c.rid).method = some c.kind := by
  cases a with
  | regCall i m x =>
    simp only [step?] at hs
    split at hs
    · cases hs
      (try simp only [setReg, setObs]) <;> grind (splits := 14) [setReg, setObs, RPc.idx, EPc.idx, Reg.cb, Outcome.exc_none, Outcome.exc_some]
    · cases hs
  | reg i =>
    simp only [step?, stepReg] at hs
    split at hs <;> (try split at hs) <;> (try cases hs) <;>
      ((try simp only [setReg, setObs]) <;> grind (splits := 14) [setReg, setObs, RPc.idx, EPc.idx, Reg.cb, Outcome.exc_none, Outcome.exc_some])
  | execCall o =>
    simp only [step?] at hs
    split at hs <;> (try cases hs) <;> ((try simp only [setReg, setObs]) <;> grind (splits := 14) [setReg, setObs, RPc.idx, EPc.idx, Reg.cb, Outcome.exc_none, Outcome.exc_some])
  | exec =>
    simp only [step?, stepExec] at hs
    split at hs <;> (try split at hs) <;> (try simp only [Option.map_eq_some_iff] at hs) <;>
      (try obtain ⟨o, ho, hs⟩ := hs) <;> (try cases hs) <;>
      ((try simp only [setReg, setObs]) <;> grind (splits := 14) [setReg, setObs, RPc.idx, EPc.idx, Reg.cb, Outcome.exc_none, Outcome.exc_some])
  | obsCall j k =>
    simp only [step?] at hs
    split at hs <;> (try cases hs) <;> ((try simp only [setReg, setObs]) <;> grind (splits := 14) [setReg, setObs, RPc.idx, EPc.idx, Reg.cb, Outcome.exc_none, Outcome.exc_some])
  | obs j =>
    simp only [step?, stepObs] at hs
    split at hs <;> (try split at hs) <;> (try split at hs) <;> (try cases hs) <;>
      ((try simp only [setReg, setObs]) <;> grind (splits := 14) [setReg, setObs, RPc.idx, EPc.idx, Reg.cb, Outcome.exc_none, Outcome.exc_some])
  | obsTimeout j =>
    simp only [step?, stepObsTimeout] at hs
    split at hs <;> (try cases hs) <;> ((try simp only [setReg, setObs]) <;> grind (splits := 14) [setReg, setObs, RPc.idx, EPc.idx, Reg.cb, Outcome.exc_none, Outcome.exc_some])

set_option maxHeartbeats 800000 in
private theorem inv2_exExtra_step {s s' : State} (a : Action) (exExtra : 8 ≤ s.ex.pc.idx → ∀ c, s.ex.cb = some c → s.ex.extra = (s.regs c.rid).extra) (exCbSame : s.ex.pc.idx = 7 → s.callback = s.ex.cb) (extraField : ∀ c, s.callback = some c → 4 ≤ (s.regs c.rid).pc.idx → s.extra = (s.regs c.rid).extra) (exCb : 7 ≤ s.ex.pc.idx → ∀ c, s.ex.cb = some c → 6 ≤ (s.regs c.rid).pc.idx ∧ (s.regs c.rid).completed = false ∧ (s.regs c.rid).method = some c.kind)
    (hs : step? s a = some s') : 8 ≤ s'.ex.pc.idx → ∀ c, s'.ex.cb = some c → s'.ex.extra = (s'.regs c.rid).extra := by
  cases a with
  | regCall i m x =>
    simp only [step?] at hs
    split at hs
    · cases hs
      (try simp only [setReg, setObs]) <;> grind (splits := 14) [setReg, setObs, RPc.idx, EPc.idx, Reg.cb, Outcome.exc_none, Outcome.exc_some]
    · cases hs
  | reg i =>
    simp only [step?, stepReg] at hs
    split at hs <;> (try split at hs) <;> (try cases hs) <;>
      ((try simp only [setReg, setObs]) <;> grind (splits := 14) [setReg, setObs, RPc.idx, EPc.idx, Reg.cb, Outcome.exc_none, Outcome.exc_some])
  | execCall o =>
    simp only [step?] at hs
    split at hs <;> (try cases hs) <;> ((try simp only [setReg, setObs]) <;> grind (splits := 14) [setReg, setObs, RPc.idx, EPc.idx, Reg.cb, Outcome.exc_none, Outcome.exc_some])
  | exec =>
    simp only [step?, stepExec] at hs
    split at hs <;> (try split at hs) <;> (try simp only [Option.map_eq_some_iff] at hs) <;>
      (try obtain ⟨o, ho, hs⟩ := hs) <;> (try cases hs) <;>
      ((try simp only [setReg, setObs]) <;> grind (splits := 14) [setReg, setObs, RPc.idx, EPc.idx, Reg.cb, Outcome.exc_none, Outcome.exc_some])
  | obsCall j k =>
    simp only [step?] at hs
    split at hs <;> (try cases hs) <;> ((try simp only [setReg, setObs]) <;> grind (splits := 14) [setReg, setObs, RPc.idx, EPc.idx, Reg.cb, Outcome.exc_none, Outcome.exc_some])
  | obs j =>
    simp only [step?, stepObs] at hs
    split at hs <;> (try split at hs) <;> (try split at hs) <;> (try cases hs) <;>
      ((try simp only [setReg, setObs]) <;> grind (splits := 14) [setReg, setObs, RPc.idx, EPc.idx, Reg.cb, Outcome.exc_none, Outcome.exc_some])
  | obsTimeout j =>
    simp only [step?, stepObsTimeout] at hs
    split at hs <;> (try cases hs) <;> ((try simp only [setReg, setObs]) <;> grind (splits := 14) [setReg, setObs, RPc.idx, EPc.idx, Reg.cb, Outcome.exc_none, Outcome.exc_some])

set_option maxHeartbeats 800000 in
private theorem inv2_exNotify_step {s s' : State} (a : Action) (exNotify : 9 ≤ s.ex.pc.idx → s.ex.pc.idx ≤ 12 → s.ex.cb ≠ none)
    (hs : step? s a = some s') : 9 ≤ s'.ex.pc.idx → s'.ex.pc.idx ≤ 12 → s'.ex.cb ≠ none := by
  cases a with
  | regCall i m x =>
    simp only [step?] at hs
    split at hs
    · cases hs
      (try simp only [setReg, setObs]) <;> grind (splits := 14) [setReg, setObs, RPc.idx, EPc.idx, Reg.cb, Outcome.exc_none, Outcome.exc_some]
    · cases hs
  | reg i =>
    simp only [step?, stepReg] at hs
    split at hs <;> (try split at hs) <;> (try cases hs) <;>
      ((try simp only [setReg, setObs]) <;> grind (splits := 14) [setReg, setObs, RPc.idx, EPc.idx, Reg.cb, Outcome.exc_none, Outcome.exc_some])
  | execCall o =>
    simp only [step?] at hs
    split at hs <;> (try cases hs) <;> ((try simp only [setReg, setObs]) <;> grind (splits := 14) [setReg, setObs, RPc.idx, EPc.idx, Reg.cb, Outcome.exc_none, Outcome.exc_some])
  | exec =>
    simp only [step?, stepExec] at hs
    split at hs <;> (try split at hs) <;> (try simp only [Option.map_eq_some_iff] at hs) <;>
      (try obtain ⟨o, ho, hs⟩ := hs) <;> (try cases hs) <;>
      ((try simp only [setReg, setObs]) <;> grind (splits := 14) [setReg, setObs, RPc.idx, EPc.idx, Reg.cb, Outcome.exc_none, Outcome.exc_some])
  | obsCall j k =>
    simp only [step?] at hs
    split at hs <;> (try cases hs) <;> ((try simp only [setReg, setObs]) <;> grind (splits := 14) [setReg, setObs, RPc.idx, EPc.idx, Reg.cb, Outcome.exc_none, Outcome.exc_some])
  | obs j =>
    simp only [step?, stepObs] at hs
    split at hs <;> (try split at hs) <;> (try split at hs) <;> (try cases hs) <;>
      ((try simp only [setReg, setObs]) <;> grind (splits := 14) [setReg, setObs, RPc.idx, EPc.idx, Reg.cb, Outcome.exc_none, Outcome.exc_some])
  | obsTimeout j =>
    simp only [step?, stepObsTimeout] at hs
    split at hs <;> (try cases hs) <;> ((try simp only [setReg, setObs]) <;> grind (splits := 14) [setReg, setObs, RPc.idx, EPc.idx, Reg.cb, Outcome.exc_none, Outcome.exc_some])

theorem inv2_step {s s' : State} (a : Action) (h1 : Inv1 s) (h2 : Inv2 s)
    (hs : step? s a = some s') : Inv2 s' :=
  {
    regCompleted := inv2_regCompleted_step a h2.regCompleted h1.lockExec h1.lockReg h1.completed hs
    regNotify := inv2_regNotify_step a h2.regNotify hs
    regD := inv2_regD_step a h2.regD h2.regNotify h2.regCompleted h1.data1 hs
    regX := inv2_regX_step a h2.regX h2.regNotify h2.regCompleted h1.exc1 hs
    exD := inv2_exD_step a h2.exD h1.data1 hs
    exX := inv2_exX_step a h2.exX h1.exc1 hs
    cbField := inv2_cbField_step a h2.cbField hs
    cbInCs := inv2_cbInCs_step a h2.cbInCs h1.lockReg hs
    extraField := inv2_extraField_step a h2.extraField h2.cbInCs h2.cbField hs
    exCbSame := inv2_exCbSame_step a h2.exCbSame h1.lockExec h1.lockReg hs
    exCb := inv2_exCb_step a h2.exCb h2.cbField h2.regCompleted h1.lockExec h1.lockReg hs
    exExtra := inv2_exExtra_step a h2.exExtra h2.exCbSame h2.extraField h2.exCb hs
    exNotify := inv2_exNotify_step a h2.exNotify hs
  }

/-- Layer 3: ghost history: the registration in force is the last one whose critical section was entered. -/
structure Inv3 (s : State) : Prop where
  lastRegPc : ∀ i, s.lastReg = some i → 2 ≤ (s.regs i).pc.idx
  lockLast : ∀ i, s.lock = some (.reg i) → s.lastReg = some i
  cbLast : (∀ i, s.lastReg = some i → (s.regs i).pc ≠ .storeCb) → s.callback = (match s.lastReg with | none => none | some i => (s.regs i).cb i)
  capLast : 5 ≤ s.ex.pc.idx → s.ex.pc.idx ≤ 8 → s.ex.capFrom = s.lastReg
  capPc : 5 ≤ s.ex.pc.idx → ∀ i, s.ex.capFrom = some i → 2 ≤ (s.regs i).pc.idx
  exCbCap : 7 ≤ s.ex.pc.idx → s.ex.cb = (match s.ex.capFrom with | none => none | some i => (s.regs i).cb i)

theorem inv3_init : Inv3 init := by
  constructor <;> simp [init, EPc.idx, RPc.idx]

set_option maxHeartbeats 800000 in
private theorem inv3_lastRegPc_step {s s' : State} (a : Action) (lastRegPc : ∀ i, s.lastReg = some i → 2 ≤ (s.regs i).pc.idx)
    (hs : step? s a = some s') : ∀ i, s'.lastReg = some i → 2 ≤ (s'.regs i).pc.idx := by
  cases a with
  | regCall i m x =>
    simp only [step?] at hs
    split at hs
    · cases hs
      (try simp only [setReg, setObs]) <;> grind (splits := 14) [setReg, setObs, RPc.idx, EPc.idx, Reg.cb, Outcome.exc_none, Outcome.exc_some]
    · cases hs
  | reg i =>
    simp only [step?, stepReg] at hs
    split at hs <;> (try split at hs) <;> (try cases hs) <;>
      ((try simp only [setReg, setObs]) <;> grind (splits := 14) [setReg, setObs, RPc.idx, EPc.idx, Reg.cb, Outcome.exc_none, Outcome.exc_some])
  | execCall o =>
    simp only [step?] at hs
    split at hs <;> (try cases hs) <;> ((try simp only [setReg, setObs]) <;> grind (splits := 14) [setReg, setObs, RPc.idx, EPc.idx, Reg.cb, Outcome.exc_none, Outcome.exc_some])
  | exec =>
    simp only [step?, stepExec] at hs
    split at hs <;> (try split at hs) <;> (try simp only [Option.map_eq_some_iff] at hs) <;>
      (try obtain ⟨o, ho, hs⟩ := hs) <;> (try cases hs) <;>
      ((try simp only [setReg, setObs]) <;> grind (splits := 14) [setReg, setObs, RPc.idx, EPc.idx, Reg.cb, Outcome.exc_none, Outcome.exc_some])
  | obsCall j k =>
    simp only [step?] at hs
    split at hs <;> (try cases hs) <;> ((try simp only [setReg, setObs]) <;> grind (splits := 14) [setReg, setObs, RPc.idx, EPc.idx, Reg.cb, Outcome.exc_none, Outcome.exc_some])
  | obs j =>
    simp only [step?, stepObs] at hs
    split at hs <;> (try split at hs) <;> (try split at hs) <;> (try cases hs) <;>
      ((try simp only [setReg, setObs]) <;> grind (splits := 14) [setReg, setObs, RPc.idx, EPc.idx, Reg.cb, Outcome.exc_none, Outcome.exc_some])
  | obsTimeout j =>
    simp only [step?, stepObsTimeout] at hs
    split at hs <;> (try cases hs) <;> ((try simp only [setReg, setObs]) <;> grind (splits := 14) [setReg, setObs, RPc.idx, EPc.idx, Reg.cb, Outcome.exc_none, Outcome.exc_some])

set_option maxHeartbeats 800000 in
private theorem inv3_lockLast_step {s s' : State} (a : Action) (lockLast : ∀ i, s.lock = some (.reg i) → s.lastReg = some i)
    (hs : step? s a = some s') : ∀ i, s'.lock = some (.reg i) → s'.lastReg = some i := by
  cases a with
  | regCall i m x =>
    simp only [step?] at hs
    split at hs
    · cases hs
      (try simp only [setReg, setObs]) <;> grind (splits := 14) [setReg, setObs, RPc.idx, EPc.idx, Reg.cb, Outcome.exc_none, Outcome.exc_some]
    · cases hs
  | reg i =>
    simp only [step?, stepReg] at hs
    split at hs <;> (try split at hs) <;> (try cases hs) <;>
      ((try simp only [setReg, setObs]) <;> grind (splits := 14) [setReg, setObs, RPc.idx, EPc.idx, Reg.cb, Outcome.exc_none, Outcome.exc_some])
  | execCall o =>
    simp only [step?] at hs
    split at hs <;> (try cases hs) <;> ((try simp only [setReg, setObs]) <;> grind (splits := 14) [setReg, setObs, RPc.idx, EPc.idx, Reg.cb, Outcome.exc_none, Outcome.exc_some])
  | exec =>
    simp only [step?, stepExec] at hs
    split at hs <;> (try split at hs) <;> (try simp only [Option.map_eq_some_iff] at hs) <;>
      (try obtain ⟨o, ho, hs⟩ := hs) <;> (try cases hs) <;>
      ((try simp only [setReg, setObs]) <;> grind (splits := 14) [setReg, setObs, RPc.idx, EPc.idx, Reg.cb, Outcome.exc_none, Outcome.exc_some])
  | obsCall j k =>
    simp only [step?] at hs
    split at hs <;> (try cases hs) <;> ((try simp only [setReg, setObs]) <;> grind (splits := 14) [setReg, setObs, RPc.idx, EPc.idx, Reg.cb, Outcome.exc_none, Outcome.exc_some])
  | obs j =>
    simp only [step?, stepObs] at hs
    split at hs <;> (try split at hs) <;> (try split at hs) <;> (try cases hs) <;>
      ((try simp only [setReg, setObs]) <;> grind (splits := 14) [setReg, setObs, RPc.idx, EPc.idx, Reg.cb, Outcome.exc_none, Outcome.exc_some])
  | obsTimeout j =>
    simp only [step?, stepObsTimeout] at hs
    split at hs <;> (try cases hs) <;> ((try simp only [setReg, setObs]) <;> grind (splits := 14) [setReg, setObs, RPc.idx, EPc.idx, Reg.cb, Outcome.exc_none, Outcome.exc_some])

set_option maxHeartbeats 800000 in
private theorem inv3_cbLast_step {s s' : State} (a : Action) (cbLast : (∀ i, s.lastReg = some i → (s.regs i).pc ≠ .storeCb) → s.callback = (match s.lastReg with | none => none | some i => (s.regs i).cb i)) (lastRegPc : ∀ i, s.lastReg = some i → 2 ≤ (s.regs i).pc.idx) (lockLast : ∀ i, s.lock = some (.reg i) → s.lastReg = some i) (lockReg : ∀ i, s.lock = some (.reg i) ↔ (2 ≤ (s.regs i).pc.idx ∧ (s.regs i).pc.idx ≤ 5))
    (hs : step? s a = some s') : (∀ i, s'.lastReg = some i → (s'.regs i).pc ≠ .storeCb) → s'.callback = (match s'.lastReg with | none => none | some i => (s'.regs i).cb i) := by
  cases a with
  | regCall i m x =>
    simp only [step?] at hs
    split at hs
    · cases hs
      (try simp only [setReg, setObs]) <;> grind (splits := 14) [setReg, setObs, RPc.idx, EPc.idx, Reg.cb, Outcome.exc_none, Outcome.exc_some]
    · cases hs
  | reg i =>
    simp only [step?, stepReg] at hs
    split at hs <;> (try split at hs) <;> (try cases hs) <;>
      ((try simp only [setReg, setObs]) <;> grind (splits := 14) [setReg, setObs, RPc.idx, EPc.idx, Reg.cb, Outcome.exc_none, Outcome.exc_some])
  | execCall o =>
    simp only [step?] at hs
    split at hs <;> (try cases hs) <;> ((try simp only [setReg, setObs]) <;> grind (splits := 14) [setReg, setObs, RPc.idx, EPc.idx, Reg.cb, Outcome.exc_none, Outcome.exc_some])
  | exec =>
    simp only [step?, stepExec] at hs
    split at hs <;> (try split at hs) <;> (try simp only [Option.map_eq_some_iff] at hs) <;>
      (try obtain ⟨o, ho, hs⟩ := hs) <;> (try cases hs) <;>
      ((try simp only [setReg, setObs]) <;> grind (splits := 14) [setReg, setObs, RPc.idx, EPc.idx, Reg.cb, Outcome.exc_none, Outcome.exc_some])
  | obsCall j k =>
    simp only [step?] at hs
    split at hs <;> (try cases hs) <;> ((try simp only [setReg, setObs]) <;> grind (splits := 14) [setReg, setObs, RPc.idx, EPc.idx, Reg.cb, Outcome.exc_none, Outcome.exc_some])
  | obs j =>
    simp only [step?, stepObs] at hs
    split at hs <;> (try split at hs) <;> (try split at hs) <;> (try cases hs) <;>
      ((try simp only [setReg, setObs]) <;> grind (splits := 14) [setReg, setObs, RPc.idx, EPc.idx, Reg.cb, Outcome.exc_none, Outcome.exc_some])
  | obsTimeout j =>
    simp only [step?, stepObsTimeout] at hs
    split at hs <;> (try cases hs) <;> ((try simp only [setReg, setObs]) <;> grind (splits := 14) [setReg, setObs, RPc.idx, EPc.idx, Reg.cb, Outcome.exc_none, Outcome.exc_some])

set_option maxHeartbeats 800000 in
private theorem inv3_capLast_step {s s' : State} (a : Action) (capLast : 5 ≤ s.ex.pc.idx → s.ex.pc.idx ≤ 8 → s.ex.capFrom = s.lastReg) (lockExec : s.lock = some .exec ↔ (5 ≤ s.ex.pc.idx ∧ s.ex.pc.idx ≤ 8))
    (hs : step? s a = some s') : 5 ≤ s'.ex.pc.idx → s'.ex.pc.idx ≤ 8 → s'.ex.capFrom = s'.lastReg := by
  cases a with
  | regCall i m x =>
    simp only [step?] at hs
    split at hs
    · cases hs
      (try simp only [setReg, setObs]) <;> grind (splits := 14) [setReg, setObs, RPc.idx, EPc.idx, Reg.cb, Outcome.exc_none, Outcome.exc_some]
    · cases hs
  | reg i =>
    simp only [step?, stepReg] at hs
    split at hs <;> (try split at hs) <;> (try cases hs) <;>
      ((try simp only [setReg, setObs]) <;> grind (splits := 14) [setReg, setObs, RPc.idx, EPc.idx, Reg.cb, Outcome.exc_none, Outcome.exc_some])
  | execCall o =>
    simp only [step?] at hs
    split at hs <;> (try cases hs) <;> ((try simp only [setReg, setObs]) <;> grind (splits := 14) [setReg, setObs, RPc.idx, EPc.idx, Reg.cb, Outcome.exc_none, Outcome.exc_some])
  | exec =>
    simp only [step?, stepExec] at hs
    split at hs <;> (try split at hs) <;> (try simp only [Option.map_eq_some_iff] at hs) <;>
      (try obtain ⟨o, ho, hs⟩ := hs) <;> (try cases hs) <;>
      ((try simp only [setReg, setObs]) <;> grind (splits := 14) [setReg, setObs, RPc.idx, EPc.idx, Reg.cb, Outcome.exc_none, Outcome.exc_some])
  | obsCall j k =>
    simp only [step?] at hs
    split at hs <;> (try cases hs) <;> ((try simp only [setReg, setObs]) <;> grind (splits := 14) [setReg, setObs, RPc.idx, EPc.idx, Reg.cb, Outcome.exc_none, Outcome.exc_some])
  | obs j =>
    simp only [step?, stepObs] at hs
    split at hs <;> (try split at hs) <;> (try split at hs) <;> (try cases hs) <;>
      ((try simp only [setReg, setObs]) <;> grind (splits := 14) [setReg, setObs, RPc.idx, EPc.idx, Reg.cb, Outcome.exc_none, Outcome.exc_some])
  | obsTimeout j =>
    simp only [step?, stepObsTimeout] at hs
    split at hs <;> (try cases hs) <;> ((try simp only [setReg, setObs]) <;> grind (splits := 14) [setReg, setObs, RPc.idx, EPc.idx, Reg.cb, Outcome.exc_none, Outcome.exc_some])

set_option maxHeartbeats 800000 in
private theorem inv3_capPc_step {s s' : State} (a : Action) (capPc : 5 ≤ s.ex.pc.idx → ∀ i, s.ex.capFrom = some i → 2 ≤ (s.regs i).pc.idx) (lastRegPc : ∀ i, s.lastReg = some i → 2 ≤ (s.regs i).pc.idx)
    (hs : step? s a = some s') : 5 ≤ s'.ex.pc.idx → ∀ i, s'.ex.capFrom = some i → 2 ≤ (s'.regs i).pc.idx := by
  cases a with
  | regCall i m x =>
    simp only [step?] at hs
    split at hs
    · cases hs
      (try simp only [setReg, setObs]) <;> grind (splits := 14) [setReg, setObs, RPc.idx, EPc.idx, Reg.cb, Outcome.exc_none, Outcome.exc_some]
    · cases hs
  | reg i =>
    simp only [step?, stepReg] at hs
    split at hs <;> (try split at hs) <;> (try cases hs) <;>
      ((try simp only [setReg, setObs]) <;> grind (splits := 14) [setReg, setObs, RPc.idx, EPc.idx, Reg.cb, Outcome.exc_none, Outcome.exc_some])
  | execCall o =>
    simp only [step?] at hs
    split at hs <;> (try cases hs) <;> ((try simp only [setReg, setObs]) <;> grind (splits := 14) [setReg, setObs, RPc.idx, EPc.idx, Reg.cb, Outcome.exc_none, Outcome.exc_some])
  | exec =>
    simp only [step?, stepExec] at hs
    split at hs <;> (try split at hs) <;> (try simp only [Option.map_eq_some_iff] at hs) <;>
      (try obtain ⟨o, ho, hs⟩ := hs) <;> (try cases hs) <;>
      ((try simp only [setReg, setObs]) <;> grind (splits := 14) [setReg, setObs, RPc.idx, EPc.idx, Reg.cb, Outcome.exc_none, Outcome.exc_some])
  | obsCall j k =>
    simp only [step?] at hs
    split at hs <;> (try cases hs) <;> ((try simp only [setReg, setObs]) <;> grind (splits := 14) [setReg, setObs, RPc.idx, EPc.idx, Reg.cb, Outcome.exc_none, Outcome.exc_some])
  | obs j =>
    simp only [step?, stepObs] at hs
    split at hs <;> (try split at hs) <;> (try split at hs) <;> (try cases hs) <;>
      ((try simp only [setReg, setObs]) <;> grind (splits := 14) [setReg, setObs, RPc.idx, EPc.idx, Reg.cb, Outcome.exc_none, Outcome.exc_some])
  | obsTimeout j =>
    simp only [step?, stepObsTimeout] at hs
    split at hs <;> (try cases hs) <;> ((try simp only [setReg, setObs]) <;> grind (splits := 14) [setReg, setObs, RPc.idx, EPc.idx, Reg.cb, Outcome.exc_none, Outcome.exc_some])

set_option maxHeartbeats 800000 in
private theorem inv3_exCbCap_step {s s' : State} (a : Action) (exCbCap : 7 ≤ s.ex.pc.idx → s.ex.cb = (match s.ex.capFrom with | none => none | some i => (s.regs i).cb i)) (cbLast : (∀ i, s.lastReg = some i → (s.regs i).pc ≠ .storeCb) → s.callback = (match s.lastReg with | none => none | some i => (s.regs i).cb i)) (capLast : 5 ≤ s.ex.pc.idx → s.ex.pc.idx ≤ 8 → s.ex.capFrom = s.lastReg) (capPc : 5 ≤ s.ex.pc.idx → ∀ i, s.ex.capFrom = some i → 2 ≤ (s.regs i).pc.idx) (lockExec : s.lock = some .exec ↔ (5 ≤ s.ex.pc.idx ∧ s.ex.pc.idx ≤ 8)) (lockReg : ∀ i, s.lock = some (.reg i) ↔ (2 ≤ (s.regs i).pc.idx ∧ (s.regs i).pc.idx ≤ 5))
    (hs : step? s a = some s') : 7 ≤ s'.ex.pc.idx → s'.ex.cb = (match s'.ex.capFrom with | none => none | some i => (s'.regs i).cb i) := by
  cases a with
  | regCall i m x =>
    simp only [step?] at hs
    split at hs
    · cases hs
      (try simp only [setReg, setObs]) <;> grind (splits := 14) [setReg, setObs, RPc.idx, EPc.idx, Reg.cb, Outcome.exc_none, Outcome.exc_some]
    · cases hs
  | reg i =>
    simp only [step?, stepReg] at hs
    split at hs <;> (try split at hs) <;> (try cases hs) <;>
      ((try simp only [setReg, setObs]) <;> grind (splits := 14) [setReg, setObs, RPc.idx, EPc.idx, Reg.cb, Outcome.exc_none, Outcome.exc_some])
  | execCall o =>
    simp only [step?] at hs
    split at hs <;> (try cases hs) <;> ((try simp only [setReg, setObs]) <;> grind (splits := 14) [setReg, setObs, RPc.idx, EPc.idx, Reg.cb, Outcome.exc_none, Outcome.exc_some])
  | exec =>
    simp only [step?, stepExec] at hs
    split at hs <;> (try split at hs) <;> (try simp only [Option.map_eq_some_iff] at hs) <;>
      (try obtain ⟨o, ho, hs⟩ := hs) <;> (try cases hs) <;>
      ((try simp only [setReg, setObs]) <;> grind (splits := 14) [setReg, setObs, RPc.idx, EPc.idx, Reg.cb, Outcome.exc_none, Outcome.exc_some])
  | obsCall j k =>
    simp only [step?] at hs
    split at hs <;> (try cases hs) <;> ((try simp only [setReg, setObs]) <;> grind (splits := 14) [setReg, setObs, RPc.idx, EPc.idx, Reg.cb, Outcome.exc_none, Outcome.exc_some])
  | obs j =>
    simp only [step?, stepObs] at hs
    split at hs <;> (try split at hs) <;> (try split at hs) <;> (try cases hs) <;>
      ((try simp only [setReg, setObs]) <;> grind (splits := 14) [setReg, setObs, RPc.idx, EPc.idx, Reg.cb, Outcome.exc_none, Outcome.exc_some])
  | obsTimeout j =>
    simp only [step?, stepObsTimeout] at hs
    split at hs <;> (try cases hs) <;> ((try simp only [setReg, setObs]) <;> grind (splits := 14) [setReg, setObs, RPc.idx, EPc.idx, Reg.cb, Outcome.exc_none, Outcome.exc_some])

theorem inv3_step {s s' : State} (a : Action) (h1 : Inv1 s) (h2 : Inv2 s) (h3 : Inv3 s)
    (hs : step? s a = some s') : Inv3 s' :=
  {
    lastRegPc := inv3_lastRegPc_step a h3.lastRegPc hs
    lockLast := inv3_lockLast_step a h3.lockLast hs
    cbLast := inv3_cbLast_step a h3.cbLast h3.lastRegPc h3.lockLast h1.lockReg hs
    capLast := inv3_capLast_step a h3.capLast h1.lockExec hs
    capPc := inv3_capPc_step a h3.capPc h3.lastRegPc hs
    exCbCap := inv3_exCbCap_step a h3.exCbCap h3.cbLast h3.capLast h3.capPc h1.lockExec h1.lockReg hs
  }

/-- Layer 4: the invocation log. -/
structure Inv4 (s : State) : Prop where
  shape : ∀ a ∈ s.attempts, (a.caller = .reg a.rid ∧ 9 ≤ (s.regs a.rid).pc.idx ∧ (s.regs a.rid).completed = true ∧ (s.regs a.rid).method = some a.kind ∧ a.extra = (s.regs a.rid).extra) ∨ (a.caller = .exec ∧ 12 ≤ s.ex.pc.idx ∧ (∃ c, s.ex.cb = some c ∧ c.rid = a.rid ∧ c.kind = a.kind) ∧ a.extra = s.ex.extra)
  once : s.attempts.Pairwise (fun a b => a.rid ≠ b.rid)
  args : ∀ a ∈ s.attempts, ∀ o, s.ex.outcome = some o → a.data = o.data ∧ a.exc = o.exc
  regDone : ∀ i k, 9 ≤ (s.regs i).pc.idx → (s.regs i).completed = true → (s.regs i).method = some k → ({ rid := i, kind := k, caller := .reg i, data := (s.regs i).d, exc := (s.regs i).x, extra := (s.regs i).extra } : Attempt) ∈ s.attempts
  exDone : 12 ≤ s.ex.pc.idx → ∀ c, s.ex.cb = some c → ({ rid := c.rid, kind := c.kind, caller := .exec, data := s.ex.d, exc := s.ex.x, extra := s.ex.extra } : Attempt) ∈ s.attempts

theorem inv4_init : Inv4 init := by
  constructor <;> simp [init, EPc.idx, RPc.idx]

set_option maxHeartbeats 800000 in
private theorem inv4_shape_step {s s' : State} (a : Action) (shape : ∀ a ∈ s.attempts, (a.caller = .reg a.rid ∧ 9 ≤ (s.regs a.rid).pc.idx ∧ (s.regs a.rid).completed = true ∧ (s.regs a.rid).method = some a.kind ∧ a.extra = (s.regs a.rid).extra) ∨ (a.caller = .exec ∧ 12 ≤ s.ex.pc.idx ∧ (∃ c, s.ex.cb = some c ∧ c.rid = a.rid ∧ c.kind = a.kind) ∧ a.extra = s.ex.extra)) (regNotify : ∀ i, 6 ≤ (s.regs i).pc.idx → (s.regs i).pc.idx ≤ 9 → (s.regs i).completed = true ∧ (s.regs i).method ≠ none)
    (hs : step? s a = some s') : ∀ a ∈ s'.attempts, (a.caller = .reg a.rid ∧ 9 ≤ (s'.regs a.rid).pc.idx ∧ (s'.regs a.rid).completed = true ∧ (s'.regs a.rid).method = some a.kind ∧ a.extra = (s'.regs a.rid).extra) ∨ (a.caller = .exec ∧ 12 ≤ s'.ex.pc.idx ∧ (∃ c, s'.ex.cb = some c ∧ c.rid = a.rid ∧ c.kind = a.kind) ∧ a.extra = s'.ex.extra) := by
  cases a with
  | regCall i m x =>
    simp only [step?] at hs
    split at hs
    · cases hs
      (try simp only [setReg, setObs]) <;> (try simp only [List.pairwise_append, List.pairwise_cons, List.Pairwise.nil, List.mem_singleton, List.mem_append]) <;> grind (splits := 14) [setReg, setObs, RPc.idx, EPc.idx, Reg.cb, Outcome.exc_none, Outcome.exc_some]
    · cases hs
  | reg i =>
    simp only [step?, stepReg] at hs
    split at hs <;> (try split at hs) <;> (try cases hs) <;>
      ((try simp only [setReg, setObs]) <;> (try simp only [List.pairwise_append, List.pairwise_cons, List.Pairwise.nil, List.mem_singleton, List.mem_append]) <;> grind (splits := 14) [setReg, setObs, RPc.idx, EPc.idx, Reg.cb, Outcome.exc_none, Outcome.exc_some])
  | execCall o =>
    simp only [step?] at hs
    split at hs <;> (try cases hs) <;> ((try simp only [setReg, setObs]) <;> (try simp only [List.pairwise_append, List.pairwise_cons, List.Pairwise.nil, List.mem_singleton, List.mem_append]) <;> grind (splits := 14) [setReg, setObs, RPc.idx, EPc.idx, Reg.cb, Outcome.exc_none, Outcome.exc_some])
  | exec =>
    simp only [step?, stepExec] at hs
    split at hs <;> (try split at hs) <;> (try simp only [Option.map_eq_some_iff] at hs) <;>
      (try obtain ⟨o, ho, hs⟩ := hs) <;> (try cases hs) <;>
      ((try simp only [setReg, setObs]) <;> (try simp only [List.pairwise_append, List.pairwise_cons, List.Pairwise.nil, List.mem_singleton, List.mem_append]) <;> grind (splits := 14) [setReg, setObs, RPc.idx, EPc.idx, Reg.cb, Outcome.exc_none, Outcome.exc_some])
  | obsCall j k =>
    simp only [step?] at hs
    split at hs <;> (try cases hs) <;> ((try simp only [setReg, setObs]) <;> (try simp only [List.pairwise_append, List.pairwise_cons, List.Pairwise.nil, List.mem_singleton, List.mem_append]) <;> grind (splits := 14) [setReg, setObs, RPc.idx, EPc.idx, Reg.cb, Outcome.exc_none, Outcome.exc_some])
  | obs j =>
    simp only [step?, stepObs] at hs
    split at hs <;> (try split at hs) <;> (try split at hs) <;> (try cases hs) <;>
      ((try simp only [setReg, setObs]) <;> (try simp only [List.pairwise_append, List.pairwise_cons, List.Pairwise.nil, List.mem_singleton, List.mem_append]) <;> grind (splits := 14) [setReg, setObs, RPc.idx, EPc.idx, Reg.cb, Outcome.exc_none, Outcome.exc_some])
  | obsTimeout j =>
    simp only [step?, stepObsTimeout] at hs
    split at hs <;> (try cases hs) <;> ((try simp only [setReg, setObs]) <;> (try simp only [List.pairwise_append, List.pairwise_cons, List.Pairwise.nil, List.mem_singleton, List.mem_append]) <;> grind (splits := 14) [setReg, setObs, RPc.idx, EPc.idx, Reg.cb, Outcome.exc_none, Outcome.exc_some])

set_option maxHeartbeats 800000 in
private theorem inv4_once_step {s s' : State} (a : Action) (once : s.attempts.Pairwise (fun a b => a.rid ≠ b.rid)) (shape : ∀ a ∈ s.attempts, (a.caller = .reg a.rid ∧ 9 ≤ (s.regs a.rid).pc.idx ∧ (s.regs a.rid).completed = true ∧ (s.regs a.rid).method = some a.kind ∧ a.extra = (s.regs a.rid).extra) ∨ (a.caller = .exec ∧ 12 ≤ s.ex.pc.idx ∧ (∃ c, s.ex.cb = some c ∧ c.rid = a.rid ∧ c.kind = a.kind) ∧ a.extra = s.ex.extra)) (regNotify : ∀ i, 6 ≤ (s.regs i).pc.idx → (s.regs i).pc.idx ≤ 9 → (s.regs i).completed = true ∧ (s.regs i).method ≠ none) (exCb : 7 ≤ s.ex.pc.idx → ∀ c, s.ex.cb = some c → 6 ≤ (s.regs c.rid).pc.idx ∧ (s.regs c.rid).completed = false ∧ (s.regs c.rid).method = some c.kind)
    (hs : step? s a = some s') : s'.attempts.Pairwise (fun a b => a.rid ≠ b.rid) := by
  cases a with
  | regCall i m x =>
    simp only [step?] at hs
    split at hs
    · cases hs
      (try simp only [setReg, setObs]) <;> (try simp only [List.pairwise_append, List.pairwise_cons, List.Pairwise.nil, List.mem_singleton, List.mem_append]) <;> grind (splits := 14) [setReg, setObs, RPc.idx, EPc.idx, Reg.cb, Outcome.exc_none, Outcome.exc_some]
    · cases hs
  | reg i =>
    simp only [step?, stepReg] at hs
    split at hs <;> (try split at hs) <;> (try cases hs) <;>
      ((try simp only [setReg, setObs]) <;> (try simp only [List.pairwise_append, List.pairwise_cons, List.Pairwise.nil, List.mem_singleton, List.mem_append]) <;> grind (splits := 14) [setReg, setObs, RPc.idx, EPc.idx, Reg.cb, Outcome.exc_none, Outcome.exc_some])
  | execCall o =>
    simp only [step?] at hs
    split at hs <;> (try cases hs) <;> ((try simp only [setReg, setObs]) <;> (try simp only [List.pairwise_append, List.pairwise_cons, List.Pairwise.nil, List.mem_singleton, List.mem_append]) <;> grind (splits := 14) [setReg, setObs, RPc.idx, EPc.idx, Reg.cb, Outcome.exc_none, Outcome.exc_some])
  | exec =>
    simp only [step?, stepExec] at hs
    split at hs <;> (try split at hs) <;> (try simp only [Option.map_eq_some_iff] at hs) <;>
      (try obtain ⟨o, ho, hs⟩ := hs) <;> (try cases hs) <;>
      ((try simp only [setReg, setObs]) <;> (try simp only [List.pairwise_append, List.pairwise_cons, List.Pairwise.nil, List.mem_singleton, List.mem_append]) <;> grind (splits := 14) [setReg, setObs, RPc.idx, EPc.idx, Reg.cb, Outcome.exc_none, Outcome.exc_some])
  | obsCall j k =>
    simp only [step?] at hs
    split at hs <;> (try cases hs) <;> ((try simp only [setReg, setObs]) <;> (try simp only [List.pairwise_append, List.pairwise_cons, List.Pairwise.nil, List.mem_singleton, List.mem_append]) <;> grind (splits := 14) [setReg, setObs, RPc.idx, EPc.idx, Reg.cb, Outcome.exc_none, Outcome.exc_some])
  | obs j =>
    simp only [step?, stepObs] at hs
    split at hs <;> (try split at hs) <;> (try split at hs) <;> (try cases hs) <;>
      ((try simp only [setReg, setObs]) <;> (try simp only [List.pairwise_append, List.pairwise_cons, List.Pairwise.nil, List.mem_singleton, List.mem_append]) <;> grind (splits := 14) [setReg, setObs, RPc.idx, EPc.idx, Reg.cb, Outcome.exc_none, Outcome.exc_some])
  | obsTimeout j =>
    simp only [step?, stepObsTimeout] at hs
    split at hs <;> (try cases hs) <;> ((try simp only [setReg, setObs]) <;> (try simp only [List.pairwise_append, List.pairwise_cons, List.Pairwise.nil, List.mem_singleton, List.mem_append]) <;> grind (splits := 14) [setReg, setObs, RPc.idx, EPc.idx, Reg.cb, Outcome.exc_none, Outcome.exc_some])

set_option maxHeartbeats 800000 in
private theorem inv4_args_step {s s' : State} (a : Action) (args : ∀ a ∈ s.attempts, ∀ o, s.ex.outcome = some o → a.data = o.data ∧ a.exc = o.exc) (shape : ∀ a ∈ s.attempts, (a.caller = .reg a.rid ∧ 9 ≤ (s.regs a.rid).pc.idx ∧ (s.regs a.rid).completed = true ∧ (s.regs a.rid).method = some a.kind ∧ a.extra = (s.regs a.rid).extra) ∨ (a.caller = .exec ∧ 12 ≤ s.ex.pc.idx ∧ (∃ c, s.ex.cb = some c ∧ c.rid = a.rid ∧ c.kind = a.kind) ∧ a.extra = s.ex.extra)) (regCompleted : ∀ i, (s.regs i).completed = true → 9 ≤ s.ex.pc.idx) (regD : ∀ i, 7 ≤ (s.regs i).pc.idx → (s.regs i).pc.idx ≤ 9 → ∀ o, s.ex.outcome = some o → (s.regs i).d = o.data) (regX : ∀ i, 8 ≤ (s.regs i).pc.idx → (s.regs i).pc.idx ≤ 9 → ∀ o, s.ex.outcome = some o → (s.regs i).x = o.exc) (exD : 10 ≤ s.ex.pc.idx → s.ex.pc.idx ≤ 12 → ∀ o, s.ex.outcome = some o → s.ex.d = o.data) (exX : 11 ≤ s.ex.pc.idx → s.ex.pc.idx ≤ 12 → ∀ o, s.ex.outcome = some o → s.ex.x = o.exc)
    (hs : step? s a = some s') : ∀ a ∈ s'.attempts, ∀ o, s'.ex.outcome = some o → a.data = o.data ∧ a.exc = o.exc := by
  cases a with
  | regCall i m x =>
    simp only [step?] at hs
    split at hs
    · cases hs
      (try simp only [setReg, setObs]) <;> (try simp only [List.pairwise_append, List.pairwise_cons, List.Pairwise.nil, List.mem_singleton, List.mem_append]) <;> grind (splits := 14) [setReg, setObs, RPc.idx, EPc.idx, Reg.cb, Outcome.exc_none, Outcome.exc_some]
    · cases hs
  | reg i =>
    simp only [step?, stepReg] at hs
    split at hs <;> (try split at hs) <;> (try cases hs) <;>
      ((try simp only [setReg, setObs]) <;> (try simp only [List.pairwise_append, List.pairwise_cons, List.Pairwise.nil, List.mem_singleton, List.mem_append]) <;> grind (splits := 14) [setReg, setObs, RPc.idx, EPc.idx, Reg.cb, Outcome.exc_none, Outcome.exc_some])
  | execCall o =>
    simp only [step?] at hs
    split at hs <;> (try cases hs) <;> ((try simp only [setReg, setObs]) <;> (try simp only [List.pairwise_append, List.pairwise_cons, List.Pairwise.nil, List.mem_singleton, List.mem_append]) <;> grind (splits := 14) [setReg, setObs, RPc.idx, EPc.idx, Reg.cb, Outcome.exc_none, Outcome.exc_some])
  | exec =>
    simp only [step?, stepExec] at hs
    split at hs <;> (try split at hs) <;> (try simp only [Option.map_eq_some_iff] at hs) <;>
      (try obtain ⟨o, ho, hs⟩ := hs) <;> (try cases hs) <;>
      ((try simp only [setReg, setObs]) <;> (try simp only [List.pairwise_append, List.pairwise_cons, List.Pairwise.nil, List.mem_singleton, List.mem_append]) <;> grind (splits := 14) [setReg, setObs, RPc.idx, EPc.idx, Reg.cb, Outcome.exc_none, Outcome.exc_some])
  | obsCall j k =>
    simp only [step?] at hs
    split at hs <;> (try cases hs) <;> ((try simp only [setReg, setObs]) <;> (try simp only [List.pairwise_append, List.pairwise_cons, List.Pairwise.nil, List.mem_singleton, List.mem_append]) <;> grind (splits := 14) [setReg, setObs, RPc.idx, EPc.idx, Reg.cb, Outcome.exc_none, Outcome.exc_some])
  | obs j =>
    simp only [step?, stepObs] at hs
    split at hs <;> (try split at hs) <;> (try split at hs) <;> (try cases hs) <;>
      ((try simp only [setReg, setObs]) <;> (try simp only [List.pairwise_append, List.pairwise_cons, List.Pairwise.nil, List.mem_singleton, List.mem_append]) <;> grind (splits := 14) [setReg, setObs, RPc.idx, EPc.idx, Reg.cb, Outcome.exc_none, Outcome.exc_some])
  | obsTimeout j =>
    simp only [step?, stepObsTimeout] at hs
    split at hs <;> (try cases hs) <;> ((try simp only [setReg, setObs]) <;> (try simp only [List.pairwise_append, List.pairwise_cons, List.Pairwise.nil, List.mem_singleton, List.mem_append]) <;> grind (splits := 14) [setReg, setObs, RPc.idx, EPc.idx, Reg.cb, Outcome.exc_none, Outcome.exc_some])

set_option maxHeartbeats 800000 in
private theorem inv4_regDone_step {s s' : State} (a : Action) (regDone : ∀ i k, 9 ≤ (s.regs i).pc.idx → (s.regs i).completed = true → (s.regs i).method = some k → ({ rid := i, kind := k, caller := .reg i, data := (s.regs i).d, exc := (s.regs i).x, extra := (s.regs i).extra } : Attempt) ∈ s.attempts) (regNotify : ∀ i, 6 ≤ (s.regs i).pc.idx → (s.regs i).pc.idx ≤ 9 → (s.regs i).completed = true ∧ (s.regs i).method ≠ none)
    (hs : step? s a = some s') : ∀ i k, 9 ≤ (s'.regs i).pc.idx → (s'.regs i).completed = true → (s'.regs i).method = some k → ({ rid := i, kind := k, caller := .reg i, data := (s'.regs i).d, exc := (s'.regs i).x, extra := (s'.regs i).extra } : Attempt) ∈ s'.attempts := by
  cases a with
  | regCall i m x =>
    simp only [step?] at hs
    split at hs
    · cases hs
      (try simp only [setReg, setObs]) <;> (try simp only [List.pairwise_append, List.pairwise_cons, List.Pairwise.nil, List.mem_singleton, List.mem_append]) <;> grind (splits := 14) [setReg, setObs, RPc.idx, EPc.idx, Reg.cb, Outcome.exc_none, Outcome.exc_some]
    · cases hs
  | reg i =>
    simp only [step?, stepReg] at hs
    split at hs <;> (try split at hs) <;> (try cases hs) <;>
      ((try simp only [setReg, setObs]) <;> (try simp only [List.pairwise_append, List.pairwise_cons, List.Pairwise.nil, List.mem_singleton, List.mem_append]) <;> grind (splits := 14) [setReg, setObs, RPc.idx, EPc.idx, Reg.cb, Outcome.exc_none, Outcome.exc_some])
  | execCall o =>
    simp only [step?] at hs
    split at hs <;> (try cases hs) <;> ((try simp only [setReg, setObs]) <;> (try simp only [List.pairwise_append, List.pairwise_cons, List.Pairwise.nil, List.mem_singleton, List.mem_append]) <;> grind (splits := 14) [setReg, setObs, RPc.idx, EPc.idx, Reg.cb, Outcome.exc_none, Outcome.exc_some])
  | exec =>
    simp only [step?, stepExec] at hs
    split at hs <;> (try split at hs) <;> (try simp only [Option.map_eq_some_iff] at hs) <;>
      (try obtain ⟨o, ho, hs⟩ := hs) <;> (try cases hs) <;>
      ((try simp only [setReg, setObs]) <;> (try simp only [List.pairwise_append, List.pairwise_cons, List.Pairwise.nil, List.mem_singleton, List.mem_append]) <;> grind (splits := 14) [setReg, setObs, RPc.idx, EPc.idx, Reg.cb, Outcome.exc_none, Outcome.exc_some])
  | obsCall j k =>
    simp only [step?] at hs
    split at hs <;> (try cases hs) <;> ((try simp only [setReg, setObs]) <;> (try simp only [List.pairwise_append, List.pairwise_cons, List.Pairwise.nil, List.mem_singleton, List.mem_append]) <;> grind (splits := 14) [setReg, setObs, RPc.idx, EPc.idx, Reg.cb, Outcome.exc_none, Outcome.exc_some])
  | obs j =>
    simp only [step?, stepObs] at hs
    split at hs <;> (try split at hs) <;> (try split at hs) <;> (try cases hs) <;>
      ((try simp only [setReg, setObs]) <;> (try simp only [List.pairwise_append, List.pairwise_cons, List.Pairwise.nil, List.mem_singleton, List.mem_append]) <;> grind (splits := 14) [setReg, setObs, RPc.idx, EPc.idx, Reg.cb, Outcome.exc_none, Outcome.exc_some])
  | obsTimeout j =>
    simp only [step?, stepObsTimeout] at hs
    split at hs <;> (try cases hs) <;> ((try simp only [setReg, setObs]) <;> (try simp only [List.pairwise_append, List.pairwise_cons, List.Pairwise.nil, List.mem_singleton, List.mem_append]) <;> grind (splits := 14) [setReg, setObs, RPc.idx, EPc.idx, Reg.cb, Outcome.exc_none, Outcome.exc_some])

set_option maxHeartbeats 800000 in
private theorem inv4_exDone_step {s s' : State} (a : Action) (exDone : 12 ≤ s.ex.pc.idx → ∀ c, s.ex.cb = some c → ({ rid := c.rid, kind := c.kind, caller := .exec, data := s.ex.d, exc := s.ex.x, extra := s.ex.extra } : Attempt) ∈ s.attempts)
    (hs : step? s a = some s') : 12 ≤ s'.ex.pc.idx → ∀ c, s'.ex.cb = some c → ({ rid := c.rid, kind := c.kind, caller := .exec, data := s'.ex.d, exc := s'.ex.x, extra := s'.ex.extra } : Attempt) ∈ s'.attempts := by
  cases a with
  | regCall i m x =>
    simp only [step?] at hs
    split at hs
    · cases hs
      (try simp only [setReg, setObs]) <;> (try simp only [List.pairwise_append, List.pairwise_cons, List.Pairwise.nil, List.mem_singleton, List.mem_append]) <;> grind (splits := 14) [setReg, setObs, RPc.idx, EPc.idx, Reg.cb, Outcome.exc_none, Outcome.exc_some]
    · cases hs
  | reg i =>
    simp only [step?, stepReg] at hs
    split at hs <;> (try split at hs) <;> (try cases hs) <;>
      ((try simp only [setReg, setObs]) <;> (try simp only [List.pairwise_append, List.pairwise_cons, List.Pairwise.nil, List.mem_singleton, List.mem_append]) <;> grind (splits := 14) [setReg, setObs, RPc.idx, EPc.idx, Reg.cb, Outcome.exc_none, Outcome.exc_some])
  | execCall o =>
    simp only [step?] at hs
    split at hs <;> (try cases hs) <;> ((try simp only [setReg, setObs]) <;> (try simp only [List.pairwise_append, List.pairwise_cons, List.Pairwise.nil, List.mem_singleton, List.mem_append]) <;> grind (splits := 14) [setReg, setObs, RPc.idx, EPc.idx, Reg.cb, Outcome.exc_none, Outcome.exc_some])
  | exec =>
    simp only [step?, stepExec] at hs
    split at hs <;> (try split at hs) <;> (try simp only [Option.map_eq_some_iff] at hs) <;>
      (try obtain ⟨o, ho, hs⟩ := hs) <;> (try cases hs) <;>
      ((try simp only [setReg, setObs]) <;> (try simp only [List.pairwise_append, List.pairwise_cons, List.Pairwise.nil, List.mem_singleton, List.mem_append]) <;> grind (splits := 14) [setReg, setObs, RPc.idx, EPc.idx, Reg.cb, Outcome.exc_none, Outcome.exc_some])
  | obsCall j k =>
    simp only [step?] at hs
    split at hs <;> (try cases hs) <;> ((try simp only [setReg, setObs]) <;> (try simp only [List.pairwise_append, List.pairwise_cons, List.Pairwise.nil, List.mem_singleton, List.mem_append]) <;> grind (splits := 14) [setReg, setObs, RPc.idx, EPc.idx, Reg.cb, Outcome.exc_none, Outcome.exc_some])
  | obs j =>
    simp only [step?, stepObs] at hs
    split at hs <;> (try split at hs) <;> (try split at hs) <;> (try cases hs) <;>
      ((try simp only [setReg, setObs]) <;> (try simp only [List.pairwise_append, List.pairwise_cons, List.Pairwise.nil, List.mem_singleton, List.mem_append]) <;> grind (splits := 14) [setReg, setObs, RPc.idx, EPc.idx, Reg.cb, Outcome.exc_none, Outcome.exc_some])
  | obsTimeout j =>
    simp only [step?, stepObsTimeout] at hs
    split at hs <;> (try cases hs) <;> ((try simp only [setReg, setObs]) <;> (try simp only [List.pairwise_append, List.pairwise_cons, List.Pairwise.nil, List.mem_singleton, List.mem_append]) <;> grind (splits := 14) [setReg, setObs, RPc.idx, EPc.idx, Reg.cb, Outcome.exc_none, Outcome.exc_some])

theorem inv4_step {s s' : State} (a : Action) (h1 : Inv1 s) (h2 : Inv2 s) (h3 : Inv3 s) (h4 : Inv4 s)
    (hs : step? s a = some s') : Inv4 s' :=
  {
    shape := inv4_shape_step a h4.shape h2.regNotify hs
    once := inv4_once_step a h4.once h4.shape h2.regNotify h2.exCb hs
    args := inv4_args_step a h4.args h4.shape h2.regCompleted h2.regD h2.regX h2.exD h2.exX hs
    regDone := inv4_regDone_step a h4.regDone h2.regNotify hs
    exDone := inv4_exDone_step a h4.exDone hs
  }

/-- Layer 5: observers (`done()` / `result(timeout)`). -/
structure Inv5 (s : State) : Prop where
  wFlag : ∀ j, (s.obs j).w = true → s.flag = true
  wPc : ∀ j, ((s.obs j).pc = .readExc2 ∨ (s.obs j).pc = .readData) → (s.obs j).w = true
  kindDone : ∀ j, (s.obs j).pc = .readFlag → (s.obs j).kind = .done
  kindResult : ∀ j, ((s.obs j).pc = .wait ∨ (s.obs j).pc = .readExc1 ∨ (s.obs j).pc = .readExc2 ∨ (s.obs j).pc = .readData) → ∃ t, (s.obs j).kind = .result t
  excSome : ∀ j, (s.obs j).pc = .readExc2 → ∃ e, s.exc = some e
  excNone : ∀ j, (s.obs j).pc = .readData → s.exc = none
  resVal : ∀ j v, (s.obs j).pc = .fin → (s.obs j).res = .val v → s.ex.outcome = some (.ret v) ∧ (s.obs j).w = true
  resRaised : ∀ j e, (s.obs j).pc = .fin → (s.obs j).res = .raised e → s.ex.outcome = some (.raise e) ∧ (s.obs j).w = true
  resOs : ∀ j, (s.obs j).pc = .fin → (s.obs j).res = .osError → (s.obs j).w = false ∧ (s.obs j).kind = .result true
  timedKind : ∀ j, (s.obs j).pc = .readExc1 → (s.obs j).w = false → (s.obs j).kind = .result true
  resType : ∀ j, (s.obs j).pc = .fin → (s.obs j).res ≠ .typeError
  resBool : ∀ j b, (s.obs j).pc = .fin → (s.obs j).res = .bool b → (b = true → s.flag = true) ∧ (s.obs j).kind = .done
  resKind : ∀ j, (s.obs j).pc = .fin → ∀ t, (s.obs j).kind = .result t → ((s.obs j).res = .osError ∨ (∃ v, (s.obs j).res = .val v) ∨ (∃ e, (s.obs j).res = .raised e))

theorem inv5_init : Inv5 init := by
  constructor <;> simp [init, EPc.idx, RPc.idx]

set_option maxHeartbeats 800000 in
private theorem inv5_wFlag_step {s s' : State} (a : Action) (wFlag : ∀ j, (s.obs j).w = true → s.flag = true)
    (hs : step? s a = some s') : ∀ j, (s'.obs j).w = true → s'.flag = true := by
  cases a with
  | regCall i m x =>
    simp only [step?] at hs
    split at hs
    · cases hs
      (try simp only [setReg, setObs]) <;> grind (splits := 14) [setReg, setObs, RPc.idx, EPc.idx, Reg.cb, Outcome.exc_none, Outcome.exc_some]
    · cases hs
  | reg i =>
    simp only [step?, stepReg] at hs
    split at hs <;> (try split at hs) <;> (try cases hs) <;>
      ((try simp only [setReg, setObs]) <;> grind (splits := 14) [setReg, setObs, RPc.idx, EPc.idx, Reg.cb, Outcome.exc_none, Outcome.exc_some])
  | execCall o =>
    simp only [step?] at hs
    split at hs <;> (try cases hs) <;> ((try simp only [setReg, setObs]) <;> grind (splits := 14) [setReg, setObs, RPc.idx, EPc.idx, Reg.cb, Outcome.exc_none, Outcome.exc_some])
  | exec =>
    simp only [step?, stepExec] at hs
    split at hs <;> (try split at hs) <;> (try simp only [Option.map_eq_some_iff] at hs) <;>
      (try obtain ⟨o, ho, hs⟩ := hs) <;> (try cases hs) <;>
      ((try simp only [setReg, setObs]) <;> grind (splits := 14) [setReg, setObs, RPc.idx, EPc.idx, Reg.cb, Outcome.exc_none, Outcome.exc_some])
  | obsCall j k =>
    simp only [step?] at hs
    split at hs <;> (try cases hs) <;> ((try simp only [setReg, setObs]) <;> grind (splits := 14) [setReg, setObs, RPc.idx, EPc.idx, Reg.cb, Outcome.exc_none, Outcome.exc_some])
  | obs j =>
    simp only [step?, stepObs] at hs
    split at hs <;> (try split at hs) <;> (try split at hs) <;> (try cases hs) <;>
      ((try simp only [setReg, setObs]) <;> grind (splits := 14) [setReg, setObs, RPc.idx, EPc.idx, Reg.cb, Outcome.exc_none, Outcome.exc_some])
  | obsTimeout j =>
    simp only [step?, stepObsTimeout] at hs
    split at hs <;> (try cases hs) <;> ((try simp only [setReg, setObs]) <;> grind (splits := 14) [setReg, setObs, RPc.idx, EPc.idx, Reg.cb, Outcome.exc_none, Outcome.exc_some])

set_option maxHeartbeats 800000 in
private theorem inv5_wPc_step {s s' : State} (a : Action) (wPc : ∀ j, ((s.obs j).pc = .readExc2 ∨ (s.obs j).pc = .readData) → (s.obs j).w = true)
    (hs : step? s a = some s') : ∀ j, ((s'.obs j).pc = .readExc2 ∨ (s'.obs j).pc = .readData) → (s'.obs j).w = true := by
  cases a with
  | regCall i m x =>
    simp only [step?] at hs
    split at hs
    · cases hs
      (try simp only [setReg, setObs]) <;> grind (splits := 14) [setReg, setObs, RPc.idx, EPc.idx, Reg.cb, Outcome.exc_none, Outcome.exc_some]
    · cases hs
  | reg i =>
    simp only [step?, stepReg] at hs
    split at hs <;> (try split at hs) <;> (try cases hs) <;>
      ((try simp only [setReg, setObs]) <;> grind (splits := 14) [setReg, setObs, RPc.idx, EPc.idx, Reg.cb, Outcome.exc_none, Outcome.exc_some])
  | execCall o =>
    simp only [step?] at hs
    split at hs <;> (try cases hs) <;> ((try simp only [setReg, setObs]) <;> grind (splits := 14) [setReg, setObs, RPc.idx, EPc.idx, Reg.cb, Outcome.exc_none, Outcome.exc_some])
  | exec =>
    simp only [step?, stepExec] at hs
    split at hs <;> (try split at hs) <;> (try simp only [Option.map_eq_some_iff] at hs) <;>
      (try obtain ⟨o, ho, hs⟩ := hs) <;> (try cases hs) <;>
      ((try simp only [setReg, setObs]) <;> grind (splits := 14) [setReg, setObs, RPc.idx, EPc.idx, Reg.cb, Outcome.exc_none, Outcome.exc_some])
  | obsCall j k =>
    simp only [step?] at hs
    split at hs <;> (try cases hs) <;> ((try simp only [setReg, setObs]) <;> grind (splits := 14) [setReg, setObs, RPc.idx, EPc.idx, Reg.cb, Outcome.exc_none, Outcome.exc_some])
  | obs j =>
    simp only [step?, stepObs] at hs
    split at hs <;> (try split at hs) <;> (try split at hs) <;> (try cases hs) <;>
      ((try simp only [setReg, setObs]) <;> grind (splits := 14) [setReg, setObs, RPc.idx, EPc.idx, Reg.cb, Outcome.exc_none, Outcome.exc_some])
  | obsTimeout j =>
    simp only [step?, stepObsTimeout] at hs
    split at hs <;> (try cases hs) <;> ((try simp only [setReg, setObs]) <;> grind (splits := 14) [setReg, setObs, RPc.idx, EPc.idx, Reg.cb, Outcome.exc_none, Outcome.exc_some])

set_option maxHeartbeats 800000 in
private theorem inv5_kindDone_step {s s' : State} (a : Action) (kindDone : ∀ j, (s.obs j).pc = .readFlag → (s.obs j).kind = .done)
    (hs : step? s a = some s') : ∀ j, (s'.obs j).pc = .readFlag → (s'.obs j).kind = .done := by
  cases a with
  | regCall i m x =>
    simp only [step?] at hs
    split at hs
    · cases hs
      (try simp only [setReg, setObs]) <;> grind (splits := 14) [setReg, setObs, RPc.idx, EPc.idx, Reg.cb, Outcome.exc_none, Outcome.exc_some]
    · cases hs
  | reg i =>
    simp only [step?, stepReg] at hs
    split at hs <;> (try split at hs) <;> (try cases hs) <;>
      ((try simp only [setReg, setObs]) <;> grind (splits := 14) [setReg, setObs, RPc.idx, EPc.idx, Reg.cb, Outcome.exc_none, Outcome.exc_some])
  | execCall o =>
    simp only [step?] at hs
    split at hs <;> (try cases hs) <;> ((try simp only [setReg, setObs]) <;> grind (splits := 14) [setReg, setObs, RPc.idx, EPc.idx, Reg.cb, Outcome.exc_none, Outcome.exc_some])
  | exec =>
    simp only [step?, stepExec] at hs
    split at hs <;> (try split at hs) <;> (try simp only [Option.map_eq_some_iff] at hs) <;>
      (try obtain ⟨o, ho, hs⟩ := hs) <;> (try cases hs) <;>
      ((try simp only [setReg, setObs]) <;> grind (splits := 14) [setReg, setObs, RPc.idx, EPc.idx, Reg.cb, Outcome.exc_none, Outcome.exc_some])
  | obsCall j k =>
    simp only [step?] at hs
    split at hs <;> (try cases hs) <;> ((try simp only [setReg, setObs]) <;> grind (splits := 14) [setReg, setObs, RPc.idx, EPc.idx, Reg.cb, Outcome.exc_none, Outcome.exc_some])
  | obs j =>
    simp only [step?, stepObs] at hs
    split at hs <;> (try split at hs) <;> (try split at hs) <;> (try cases hs) <;>
      ((try simp only [setReg, setObs]) <;> grind (splits := 14) [setReg, setObs, RPc.idx, EPc.idx, Reg.cb, Outcome.exc_none, Outcome.exc_some])
  | obsTimeout j =>
    simp only [step?, stepObsTimeout] at hs
    split at hs <;> (try cases hs) <;> ((try simp only [setReg, setObs]) <;> grind (splits := 14) [setReg, setObs, RPc.idx, EPc.idx, Reg.cb, Outcome.exc_none, Outcome.exc_some])

set_option maxHeartbeats 800000 in
private theorem inv5_kindResult_step {s s' : State} (a : Action) (kindResult : ∀ j, ((s.obs j).pc = .wait ∨ (s.obs j).pc = .readExc1 ∨ (s.obs j).pc = .readExc2 ∨ (s.obs j).pc = .readData) → ∃ t, (s.obs j).kind = .result t)
    (hs : step? s a = some s') : ∀ j, ((s'.obs j).pc = .wait ∨ (s'.obs j).pc = .readExc1 ∨ (s'.obs j).pc = .readExc2 ∨ (s'.obs j).pc = .readData) → ∃ t, (s'.obs j).kind = .result t := by
  cases a with
  | regCall i m x =>
    simp only [step?] at hs
    split at hs
    · cases hs
      (try simp only [setReg, setObs]) <;> grind (splits := 14) [setReg, setObs, RPc.idx, EPc.idx, Reg.cb, Outcome.exc_none, Outcome.exc_some]
    · cases hs
  | reg i =>
    simp only [step?, stepReg] at hs
    split at hs <;> (try split at hs) <;> (try cases hs) <;>
      ((try simp only [setReg, setObs]) <;> grind (splits := 14) [setReg, setObs, RPc.idx, EPc.idx, Reg.cb, Outcome.exc_none, Outcome.exc_some])
  | execCall o =>
    simp only [step?] at hs
    split at hs <;> (try cases hs) <;> ((try simp only [setReg, setObs]) <;> grind (splits := 14) [setReg, setObs, RPc.idx, EPc.idx, Reg.cb, Outcome.exc_none, Outcome.exc_some])
  | exec =>
    simp only [step?, stepExec] at hs
    split at hs <;> (try split at hs) <;> (try simp only [Option.map_eq_some_iff] at hs) <;>
      (try obtain ⟨o, ho, hs⟩ := hs) <;> (try cases hs) <;>
      ((try simp only [setReg, setObs]) <;> grind (splits := 14) [setReg, setObs, RPc.idx, EPc.idx, Reg.cb, Outcome.exc_none, Outcome.exc_some])
  | obsCall j k =>
    simp only [step?] at hs
    split at hs <;> (try cases hs) <;> ((try simp only [setReg, setObs]) <;> grind (splits := 14) [setReg, setObs, RPc.idx, EPc.idx, Reg.cb, Outcome.exc_none, Outcome.exc_some])
  | obs j =>
    simp only [step?, stepObs] at hs
    split at hs <;> (try split at hs) <;> (try split at hs) <;> (try cases hs) <;>
      ((try simp only [setReg, setObs]) <;> grind (splits := 14) [setReg, setObs, RPc.idx, EPc.idx, Reg.cb, Outcome.exc_none, Outcome.exc_some])
  | obsTimeout j =>
    simp only [step?, stepObsTimeout] at hs
    split at hs <;> (try cases hs) <;> ((try simp only [setReg, setObs]) <;> grind (splits := 14) [setReg, setObs, RPc.idx, EPc.idx, Reg.cb, Outcome.exc_none, Outcome.exc_some])

set_option maxHeartbeats 800000 in
private theorem inv5_excSome_step {s s' : State} (a : Action) (excSome : ∀ j, (s.obs j).pc = .readExc2 → ∃ e, s.exc = some e) (wPc : ∀ j, ((s.obs j).pc = .readExc2 ∨ (s.obs j).pc = .readData) → (s.obs j).w = true) (wFlag : ∀ j, (s.obs j).w = true → s.flag = true) (flag : s.flag = true ↔ 4 ≤ s.ex.pc.idx)
    (hs : step? s a = some s') : ∀ j, (s'.obs j).pc = .readExc2 → ∃ e, s'.exc = some e := by
  cases a with
  | regCall i m x =>
    simp only [step?] at hs
    split at hs
    · cases hs
      (try simp only [setReg, setObs]) <;> grind (splits := 14) [setReg, setObs, RPc.idx, EPc.idx, Reg.cb, Outcome.exc_none, Outcome.exc_some]
    · cases hs
  | reg i =>
    simp only [step?, stepReg] at hs
    split at hs <;> (try split at hs) <;> (try cases hs) <;>
      ((try simp only [setReg, setObs]) <;> grind (splits := 14) [setReg, setObs, RPc.idx, EPc.idx, Reg.cb, Outcome.exc_none, Outcome.exc_some])
  | execCall o =>
    simp only [step?] at hs
    split at hs <;> (try cases hs) <;> ((try simp only [setReg, setObs]) <;> grind (splits := 14) [setReg, setObs, RPc.idx, EPc.idx, Reg.cb, Outcome.exc_none, Outcome.exc_some])
  | exec =>
    simp only [step?, stepExec] at hs
    split at hs <;> (try split at hs) <;> (try simp only [Option.map_eq_some_iff] at hs) <;>
      (try obtain ⟨o, ho, hs⟩ := hs) <;> (try cases hs) <;>
      ((try simp only [setReg, setObs]) <;> grind (splits := 14) [setReg, setObs, RPc.idx, EPc.idx, Reg.cb, Outcome.exc_none, Outcome.exc_some])
  | obsCall j k =>
    simp only [step?] at hs
    split at hs <;> (try cases hs) <;> ((try simp only [setReg, setObs]) <;> grind (splits := 14) [setReg, setObs, RPc.idx, EPc.idx, Reg.cb, Outcome.exc_none, Outcome.exc_some])
  | obs j =>
    simp only [step?, stepObs] at hs
    split at hs <;> (try split at hs) <;> (try split at hs) <;> (try cases hs) <;>
      ((try simp only [setReg, setObs]) <;> grind (splits := 14) [setReg, setObs, RPc.idx, EPc.idx, Reg.cb, Outcome.exc_none, Outcome.exc_some])
  | obsTimeout j =>
    simp only [step?, stepObsTimeout] at hs
    split at hs <;> (try cases hs) <;> ((try simp only [setReg, setObs]) <;> grind (splits := 14) [setReg, setObs, RPc.idx, EPc.idx, Reg.cb, Outcome.exc_none, Outcome.exc_some])

set_option maxHeartbeats 800000 in
private theorem inv5_excNone_step {s s' : State} (a : Action) (excNone : ∀ j, (s.obs j).pc = .readData → s.exc = none) (wPc : ∀ j, ((s.obs j).pc = .readExc2 ∨ (s.obs j).pc = .readData) → (s.obs j).w = true) (wFlag : ∀ j, (s.obs j).w = true → s.flag = true) (flag : s.flag = true ↔ 4 ≤ s.ex.pc.idx)
    (hs : step? s a = some s') : ∀ j, (s'.obs j).pc = .readData → s'.exc = none := by
  cases a with
  | regCall i m x =>
    simp only [step?] at hs
    split at hs
    · cases hs
      (try simp only [setReg, setObs]) <;> grind (splits := 14) [setReg, setObs, RPc.idx, EPc.idx, Reg.cb, Outcome.exc_none, Outcome.exc_some]
    · cases hs
  | reg i =>
    simp only [step?, stepReg] at hs
    split at hs <;> (try split at hs) <;> (try cases hs) <;>
      ((try simp only [setReg, setObs]) <;> grind (splits := 14) [setReg, setObs, RPc.idx, EPc.idx, Reg.cb, Outcome.exc_none, Outcome.exc_some])
  | execCall o =>
    simp only [step?] at hs
    split at hs <;> (try cases hs) <;> ((try simp only [setReg, setObs]) <;> grind (splits := 14) [setReg, setObs, RPc.idx, EPc.idx, Reg.cb, Outcome.exc_none, Outcome.exc_some])
  | exec =>
    simp only [step?, stepExec] at hs
    split at hs <;> (try split at hs) <;> (try simp only [Option.map_eq_some_iff] at hs) <;>
      (try obtain ⟨o, ho, hs⟩ := hs) <;> (try cases hs) <;>
      ((try simp only [setReg, setObs]) <;> grind (splits := 14) [setReg, setObs, RPc.idx, EPc.idx, Reg.cb, Outcome.exc_none, Outcome.exc_some])
  | obsCall j k =>
    simp only [step?] at hs
    split at hs <;> (try cases hs) <;> ((try simp only [setReg, setObs]) <;> grind (splits := 14) [setReg, setObs, RPc.idx, EPc.idx, Reg.cb, Outcome.exc_none, Outcome.exc_some])
  | obs j =>
    simp only [step?, stepObs] at hs
    split at hs <;> (try split at hs) <;> (try split at hs) <;> (try cases hs) <;>
      ((try simp only [setReg, setObs]) <;> grind (splits := 14) [setReg, setObs, RPc.idx, EPc.idx, Reg.cb, Outcome.exc_none, Outcome.exc_some])
  | obsTimeout j =>
    simp only [step?, stepObsTimeout] at hs
    split at hs <;> (try cases hs) <;> ((try simp only [setReg, setObs]) <;> grind (splits := 14) [setReg, setObs, RPc.idx, EPc.idx, Reg.cb, Outcome.exc_none, Outcome.exc_some])

set_option maxHeartbeats 800000 in
private theorem inv5_resVal_step {s s' : State} (a : Action) (resVal : ∀ j v, (s.obs j).pc = .fin → (s.obs j).res = .val v → s.ex.outcome = some (.ret v) ∧ (s.obs j).w = true) (excNone : ∀ j, (s.obs j).pc = .readData → s.exc = none) (wPc : ∀ j, ((s.obs j).pc = .readExc2 ∨ (s.obs j).pc = .readData) → (s.obs j).w = true) (wFlag : ∀ j, (s.obs j).w = true → s.flag = true) (flag : s.flag = true ↔ 4 ≤ s.ex.pc.idx) (outcome : 1 ≤ s.ex.pc.idx → ∃ o, s.ex.outcome = some o) (outcome0 : s.ex.pc.idx = 0 → s.ex.outcome = none) (data1 : 2 ≤ s.ex.pc.idx → ∀ o, s.ex.outcome = some o → s.data = o.data) (exc1 : 3 ≤ s.ex.pc.idx → ∀ o, s.ex.outcome = some o → s.exc = o.exc)
    (hs : step? s a = some s') : ∀ j v, (s'.obs j).pc = .fin → (s'.obs j).res = .val v → s'.ex.outcome = some (.ret v) ∧ (s'.obs j).w = true := by
  cases a with
  | regCall i m x =>
    simp only [step?] at hs
    split at hs
    · cases hs
      (try simp only [setReg, setObs]) <;> grind (splits := 14) [setReg, setObs, RPc.idx, EPc.idx, Reg.cb, Outcome.exc_none, Outcome.exc_some]
    · cases hs
  | reg i =>
    simp only [step?, stepReg] at hs
    split at hs <;> (try split at hs) <;> (try cases hs) <;>
      ((try simp only [setReg, setObs]) <;> grind (splits := 14) [setReg, setObs, RPc.idx, EPc.idx, Reg.cb, Outcome.exc_none, Outcome.exc_some])
  | execCall o =>
    simp only [step?] at hs
    split at hs <;> (try cases hs) <;> ((try simp only [setReg, setObs]) <;> grind (splits := 14) [setReg, setObs, RPc.idx, EPc.idx, Reg.cb, Outcome.exc_none, Outcome.exc_some])
  | exec =>
    simp only [step?, stepExec] at hs
    split at hs <;> (try split at hs) <;> (try simp only [Option.map_eq_some_iff] at hs) <;>
      (try obtain ⟨o, ho, hs⟩ := hs) <;> (try cases hs) <;>
      ((try simp only [setReg, setObs]) <;> grind (splits := 14) [setReg, setObs, RPc.idx, EPc.idx, Reg.cb, Outcome.exc_none, Outcome.exc_some])
  | obsCall j k =>
    simp only [step?] at hs
    split at hs <;> (try cases hs) <;> ((try simp only [setReg, setObs]) <;> grind (splits := 14) [setReg, setObs, RPc.idx, EPc.idx, Reg.cb, Outcome.exc_none, Outcome.exc_some])
  | obs j =>
    simp only [step?, stepObs] at hs
    split at hs <;> (try split at hs) <;> (try split at hs) <;> (try cases hs) <;>
      ((try simp only [setReg, setObs]) <;> grind (splits := 14) [setReg, setObs, RPc.idx, EPc.idx, Reg.cb, Outcome.exc_none, Outcome.exc_some])
  | obsTimeout j =>
    simp only [step?, stepObsTimeout] at hs
    split at hs <;> (try cases hs) <;> ((try simp only [setReg, setObs]) <;> grind (splits := 14) [setReg, setObs, RPc.idx, EPc.idx, Reg.cb, Outcome.exc_none, Outcome.exc_some])

set_option maxHeartbeats 800000 in
private theorem inv5_resRaised_step {s s' : State} (a : Action) (resRaised : ∀ j e, (s.obs j).pc = .fin → (s.obs j).res = .raised e → s.ex.outcome = some (.raise e) ∧ (s.obs j).w = true) (excSome : ∀ j, (s.obs j).pc = .readExc2 → ∃ e, s.exc = some e) (wPc : ∀ j, ((s.obs j).pc = .readExc2 ∨ (s.obs j).pc = .readData) → (s.obs j).w = true) (wFlag : ∀ j, (s.obs j).w = true → s.flag = true) (flag : s.flag = true ↔ 4 ≤ s.ex.pc.idx) (outcome : 1 ≤ s.ex.pc.idx → ∃ o, s.ex.outcome = some o) (outcome0 : s.ex.pc.idx = 0 → s.ex.outcome = none) (exc1 : 3 ≤ s.ex.pc.idx → ∀ o, s.ex.outcome = some o → s.exc = o.exc)
    (hs : step? s a = some s') : ∀ j e, (s'.obs j).pc = .fin → (s'.obs j).res = .raised e → s'.ex.outcome = some (.raise e) ∧ (s'.obs j).w = true := by
  cases a with
  | regCall i m x =>
    simp only [step?] at hs
    split at hs
    · cases hs
      (try simp only [setReg, setObs]) <;> grind (splits := 14) [setReg, setObs, RPc.idx, EPc.idx, Reg.cb, Outcome.exc_none, Outcome.exc_some]
    · cases hs
  | reg i =>
    simp only [step?, stepReg] at hs
    split at hs <;> (try split at hs) <;> (try cases hs) <;>
      ((try simp only [setReg, setObs]) <;> grind (splits := 14) [setReg, setObs, RPc.idx, EPc.idx, Reg.cb, Outcome.exc_none, Outcome.exc_some])
  | execCall o =>
    simp only [step?] at hs
    split at hs <;> (try cases hs) <;> ((try simp only [setReg, setObs]) <;> grind (splits := 14) [setReg, setObs, RPc.idx, EPc.idx, Reg.cb, Outcome.exc_none, Outcome.exc_some])
  | exec =>
    simp only [step?, stepExec] at hs
    split at hs <;> (try split at hs) <;> (try simp only [Option.map_eq_some_iff] at hs) <;>
      (try obtain ⟨o, ho, hs⟩ := hs) <;> (try cases hs) <;>
      ((try simp only [setReg, setObs]) <;> grind (splits := 14) [setReg, setObs, RPc.idx, EPc.idx, Reg.cb, Outcome.exc_none, Outcome.exc_some])
  | obsCall j k =>
    simp only [step?] at hs
    split at hs <;> (try cases hs) <;> ((try simp only [setReg, setObs]) <;> grind (splits := 14) [setReg, setObs, RPc.idx, EPc.idx, Reg.cb, Outcome.exc_none, Outcome.exc_some])
  | obs j =>
    simp only [step?, stepObs] at hs
    split at hs <;> (try split at hs) <;> (try split at hs) <;> (try cases hs) <;>
      ((try simp only [setReg, setObs]) <;> grind (splits := 14) [setReg, setObs, RPc.idx, EPc.idx, Reg.cb, Outcome.exc_none, Outcome.exc_some])
  | obsTimeout j =>
    simp only [step?, stepObsTimeout] at hs
    split at hs <;> (try cases hs) <;> ((try simp only [setReg, setObs]) <;> grind (splits := 14) [setReg, setObs, RPc.idx, EPc.idx, Reg.cb, Outcome.exc_none, Outcome.exc_some])

set_option maxHeartbeats 800000 in
private theorem inv5_resOs_step {s s' : State} (a : Action) (resOs : ∀ j, (s.obs j).pc = .fin → (s.obs j).res = .osError → (s.obs j).w = false ∧ (s.obs j).kind = .result true) (timedKind : ∀ j, (s.obs j).pc = .readExc1 → (s.obs j).w = false → (s.obs j).kind = .result true)
    (hs : step? s a = some s') : ∀ j, (s'.obs j).pc = .fin → (s'.obs j).res = .osError → (s'.obs j).w = false ∧ (s'.obs j).kind = .result true := by
  cases a with
  | regCall i m x =>
    simp only [step?] at hs
    split at hs
    · cases hs
      (try simp only [setReg, setObs]) <;> grind (splits := 14) [setReg, setObs, RPc.idx, EPc.idx, Reg.cb, Outcome.exc_none, Outcome.exc_some]
    · cases hs
  | reg i =>
    simp only [step?, stepReg] at hs
    split at hs <;> (try split at hs) <;> (try cases hs) <;>
      ((try simp only [setReg, setObs]) <;> grind (splits := 14) [setReg, setObs, RPc.idx, EPc.idx, Reg.cb, Outcome.exc_none, Outcome.exc_some])
  | execCall o =>
    simp only [step?] at hs
    split at hs <;> (try cases hs) <;> ((try simp only [setReg, setObs]) <;> grind (splits := 14) [setReg, setObs, RPc.idx, EPc.idx, Reg.cb, Outcome.exc_none, Outcome.exc_some])
  | exec =>
    simp only [step?, stepExec] at hs
    split at hs <;> (try split at hs) <;> (try simp only [Option.map_eq_some_iff] at hs) <;>
      (try obtain ⟨o, ho, hs⟩ := hs) <;> (try cases hs) <;>
      ((try simp only [setReg, setObs]) <;> grind (splits := 14) [setReg, setObs, RPc.idx, EPc.idx, Reg.cb, Outcome.exc_none, Outcome.exc_some])
  | obsCall j k =>
    simp only [step?] at hs
    split at hs <;> (try cases hs) <;> ((try simp only [setReg, setObs]) <;> grind (splits := 14) [setReg, setObs, RPc.idx, EPc.idx, Reg.cb, Outcome.exc_none, Outcome.exc_some])
  | obs j =>
    simp only [step?, stepObs] at hs
    split at hs <;> (try split at hs) <;> (try split at hs) <;> (try cases hs) <;>
      ((try simp only [setReg, setObs]) <;> grind (splits := 14) [setReg, setObs, RPc.idx, EPc.idx, Reg.cb, Outcome.exc_none, Outcome.exc_some])
  | obsTimeout j =>
    simp only [step?, stepObsTimeout] at hs
    split at hs <;> (try cases hs) <;> ((try simp only [setReg, setObs]) <;> grind (splits := 14) [setReg, setObs, RPc.idx, EPc.idx, Reg.cb, Outcome.exc_none, Outcome.exc_some])

set_option maxHeartbeats 800000 in
private theorem inv5_timedKind_step {s s' : State} (a : Action) (timedKind : ∀ j, (s.obs j).pc = .readExc1 → (s.obs j).w = false → (s.obs j).kind = .result true)
    (hs : step? s a = some s') : ∀ j, (s'.obs j).pc = .readExc1 → (s'.obs j).w = false → (s'.obs j).kind = .result true := by
  cases a with
  | regCall i m x =>
    simp only [step?] at hs
    split at hs
    · cases hs
      (try simp only [setReg, setObs]) <;> grind (splits := 14) [setReg, setObs, RPc.idx, EPc.idx, Reg.cb, Outcome.exc_none, Outcome.exc_some]
    · cases hs
  | reg i =>
    simp only [step?, stepReg] at hs
    split at hs <;> (try split at hs) <;> (try cases hs) <;>
      ((try simp only [setReg, setObs]) <;> grind (splits := 14) [setReg, setObs, RPc.idx, EPc.idx, Reg.cb, Outcome.exc_none, Outcome.exc_some])
  | execCall o =>
    simp only [step?] at hs
    split at hs <;> (try cases hs) <;> ((try simp only [setReg, setObs]) <;> grind (splits := 14) [setReg, setObs, RPc.idx, EPc.idx, Reg.cb, Outcome.exc_none, Outcome.exc_some])
  | exec =>
    simp only [step?, stepExec] at hs
    split at hs <;> (try split at hs) <;> (try simp only [Option.map_eq_some_iff] at hs) <;>
      (try obtain ⟨o, ho, hs⟩ := hs) <;> (try cases hs) <;>
      ((try simp only [setReg, setObs]) <;> grind (splits := 14) [setReg, setObs, RPc.idx, EPc.idx, Reg.cb, Outcome.exc_none, Outcome.exc_some])
  | obsCall j k =>
    simp only [step?] at hs
    split at hs <;> (try cases hs) <;> ((try simp only [setReg, setObs]) <;> grind (splits := 14) [setReg, setObs, RPc.idx, EPc.idx, Reg.cb, Outcome.exc_none, Outcome.exc_some])
  | obs j =>
    simp only [step?, stepObs] at hs
    split at hs <;> (try split at hs) <;> (try split at hs) <;> (try cases hs) <;>
      ((try simp only [setReg, setObs]) <;> grind (splits := 14) [setReg, setObs, RPc.idx, EPc.idx, Reg.cb, Outcome.exc_none, Outcome.exc_some])
  | obsTimeout j =>
    simp only [step?, stepObsTimeout] at hs
    split at hs <;> (try cases hs) <;> ((try simp only [setReg, setObs]) <;> grind (splits := 14) [setReg, setObs, RPc.idx, EPc.idx, Reg.cb, Outcome.exc_none, Outcome.exc_some])

set_option maxHeartbeats 800000 in
private theorem inv5_resType_step {s s' : State} (a : Action) (resType : ∀ j, (s.obs j).pc = .fin → (s.obs j).res ≠ .typeError) (excSome : ∀ j, (s.obs j).pc = .readExc2 → ∃ e, s.exc = some e)
    (hs : step? s a = some s') : ∀ j, (s'.obs j).pc = .fin → (s'.obs j).res ≠ .typeError := by
  cases a with
  | regCall i m x =>
    simp only [step?] at hs
    split at hs
    · cases hs
      (try simp only [setReg, setObs]) <;> grind (splits := 14) [setReg, setObs, RPc.idx, EPc.idx, Reg.cb, Outcome.exc_none, Outcome.exc_some]
    · cases hs
  | reg i =>
    simp only [step?, stepReg] at hs
    split at hs <;> (try split at hs) <;> (try cases hs) <;>
      ((try simp only [setReg, setObs]) <;> grind (splits := 14) [setReg, setObs, RPc.idx, EPc.idx, Reg.cb, Outcome.exc_none, Outcome.exc_some])
  | execCall o =>
    simp only [step?] at hs
    split at hs <;> (try cases hs) <;> ((try simp only [setReg, setObs]) <;> grind (splits := 14) [setReg, setObs, RPc.idx, EPc.idx, Reg.cb, Outcome.exc_none, Outcome.exc_some])
  | exec =>
    simp only [step?, stepExec] at hs
    split at hs <;> (try split at hs) <;> (try simp only [Option.map_eq_some_iff] at hs) <;>
      (try obtain ⟨o, ho, hs⟩ := hs) <;> (try cases hs) <;>
      ((try simp only [setReg, setObs]) <;> grind (splits := 14) [setReg, setObs, RPc.idx, EPc.idx, Reg.cb, Outcome.exc_none, Outcome.exc_some])
  | obsCall j k =>
    simp only [step?] at hs
    split at hs <;> (try cases hs) <;> ((try simp only [setReg, setObs]) <;> grind (splits := 14) [setReg, setObs, RPc.idx, EPc.idx, Reg.cb, Outcome.exc_none, Outcome.exc_some])
  | obs j =>
    simp only [step?, stepObs] at hs
    split at hs <;> (try split at hs) <;> (try split at hs) <;> (try cases hs) <;>
      ((try simp only [setReg, setObs]) <;> grind (splits := 14) [setReg, setObs, RPc.idx, EPc.idx, Reg.cb, Outcome.exc_none, Outcome.exc_some])
  | obsTimeout j =>
    simp only [step?, stepObsTimeout] at hs
    split at hs <;> (try cases hs) <;> ((try simp only [setReg, setObs]) <;> grind (splits := 14) [setReg, setObs, RPc.idx, EPc.idx, Reg.cb, Outcome.exc_none, Outcome.exc_some])

set_option maxHeartbeats 800000 in
private theorem inv5_resBool_step {s s' : State} (a : Action) (resBool : ∀ j b, (s.obs j).pc = .fin → (s.obs j).res = .bool b → (b = true → s.flag = true) ∧ (s.obs j).kind = .done) (kindDone : ∀ j, (s.obs j).pc = .readFlag → (s.obs j).kind = .done)
    (hs : step? s a = some s') : ∀ j b, (s'.obs j).pc = .fin → (s'.obs j).res = .bool b → (b = true → s'.flag = true) ∧ (s'.obs j).kind = .done := by
  cases a with
  | regCall i m x =>
    simp only [step?] at hs
    split at hs
    · cases hs
      (try simp only [setReg, setObs]) <;> grind (splits := 14) [setReg, setObs, RPc.idx, EPc.idx, Reg.cb, Outcome.exc_none, Outcome.exc_some]
    · cases hs
  | reg i =>
    simp only [step?, stepReg] at hs
    split at hs <;> (try split at hs) <;> (try cases hs) <;>
      ((try simp only [setReg, setObs]) <;> grind (splits := 14) [setReg, setObs, RPc.idx, EPc.idx, Reg.cb, Outcome.exc_none, Outcome.exc_some])
  | execCall o =>
    simp only [step?] at hs
    split at hs <;> (try cases hs) <;> ((try simp only [setReg, setObs]) <;> grind (splits := 14) [setReg, setObs, RPc.idx, EPc.idx, Reg.cb, Outcome.exc_none, Outcome.exc_some])
  | exec =>
    simp only [step?, stepExec] at hs
    split at hs <;> (try split at hs) <;> (try simp only [Option.map_eq_some_iff] at hs) <;>
      (try obtain ⟨o, ho, hs⟩ := hs) <;> (try cases hs) <;>
      ((try simp only [setReg, setObs]) <;> grind (splits := 14) [setReg, setObs, RPc.idx, EPc.idx, Reg.cb, Outcome.exc_none, Outcome.exc_some])
  | obsCall j k =>
    simp only [step?] at hs
    split at hs <;> (try cases hs) <;> ((try simp only [setReg, setObs]) <;> grind (splits := 14) [setReg, setObs, RPc.idx, EPc.idx, Reg.cb, Outcome.exc_none, Outcome.exc_some])
  | obs j =>
    simp only [step?, stepObs] at hs
    split at hs <;> (try split at hs) <;> (try split at hs) <;> (try cases hs) <;>
      ((try simp only [setReg, setObs]) <;> grind (splits := 14) [setReg, setObs, RPc.idx, EPc.idx, Reg.cb, Outcome.exc_none, Outcome.exc_some])
  | obsTimeout j =>
    simp only [step?, stepObsTimeout] at hs
    split at hs <;> (try cases hs) <;> ((try simp only [setReg, setObs]) <;> grind (splits := 14) [setReg, setObs, RPc.idx, EPc.idx, Reg.cb, Outcome.exc_none, Outcome.exc_some])

set_option maxHeartbeats 800000 in
private theorem inv5_resKind_step {s s' : State} (a : Action) (resKind : ∀ j, (s.obs j).pc = .fin → ∀ t, (s.obs j).kind = .result t → ((s.obs j).res = .osError ∨ (∃ v, (s.obs j).res = .val v) ∨ (∃ e, (s.obs j).res = .raised e))) (kindDone : ∀ j, (s.obs j).pc = .readFlag → (s.obs j).kind = .done) (resType : ∀ j, (s.obs j).pc = .fin → (s.obs j).res ≠ .typeError) (excSome : ∀ j, (s.obs j).pc = .readExc2 → ∃ e, s.exc = some e)
    (hs : step? s a = some s') : ∀ j, (s'.obs j).pc = .fin → ∀ t, (s'.obs j).kind = .result t → ((s'.obs j).res = .osError ∨ (∃ v, (s'.obs j).res = .val v) ∨ (∃ e, (s'.obs j).res = .raised e)) := by
  cases a with
  | regCall i m x =>
    simp only [step?] at hs
    split at hs
    · cases hs
      (try simp only [setReg, setObs]) <;> grind (splits := 14) [setReg, setObs, RPc.idx, EPc.idx, Reg.cb, Outcome.exc_none, Outcome.exc_some]
    · cases hs
  | reg i =>
    simp only [step?, stepReg] at hs
    split at hs <;> (try split at hs) <;> (try cases hs) <;>
      ((try simp only [setReg, setObs]) <;> grind (splits := 14) [setReg, setObs, RPc.idx, EPc.idx, Reg.cb, Outcome.exc_none, Outcome.exc_some])
  | execCall o =>
    simp only [step?] at hs
    split at hs <;> (try cases hs) <;> ((try simp only [setReg, setObs]) <;> grind (splits := 14) [setReg, setObs, RPc.idx, EPc.idx, Reg.cb, Outcome.exc_none, Outcome.exc_some])
  | exec =>
    simp only [step?, stepExec] at hs
    split at hs <;> (try split at hs) <;> (try simp only [Option.map_eq_some_iff] at hs) <;>
      (try obtain ⟨o, ho, hs⟩ := hs) <;> (try cases hs) <;>
      ((try simp only [setReg, setObs]) <;> grind (splits := 14) [setReg, setObs, RPc.idx, EPc.idx, Reg.cb, Outcome.exc_none, Outcome.exc_some])
  | obsCall j k =>
    simp only [step?] at hs
    split at hs <;> (try cases hs) <;> ((try simp only [setReg, setObs]) <;> grind (splits := 14) [setReg, setObs, RPc.idx, EPc.idx, Reg.cb, Outcome.exc_none, Outcome.exc_some])
  | obs j =>
    simp only [step?, stepObs] at hs
    split at hs <;> (try split at hs) <;> (try split at hs) <;> (try cases hs) <;>
      ((try simp only [setReg, setObs]) <;> grind (splits := 14) [setReg, setObs, RPc.idx, EPc.idx, Reg.cb, Outcome.exc_none, Outcome.exc_some])
  | obsTimeout j =>
    simp only [step?, stepObsTimeout] at hs
    split at hs <;> (try cases hs) <;> ((try simp only [setReg, setObs]) <;> grind (splits := 14) [setReg, setObs, RPc.idx, EPc.idx, Reg.cb, Outcome.exc_none, Outcome.exc_some])

theorem inv5_step {s s' : State} (a : Action) (h1 : Inv1 s) (h2 : Inv2 s) (h3 : Inv3 s) (h4 : Inv4 s) (h5 : Inv5 s)
    (hs : step? s a = some s') : Inv5 s' :=
  {
    wFlag := inv5_wFlag_step a h5.wFlag hs
    wPc := inv5_wPc_step a h5.wPc hs
    kindDone := inv5_kindDone_step a h5.kindDone hs
    kindResult := inv5_kindResult_step a h5.kindResult hs
    excSome := inv5_excSome_step a h5.excSome h5.wPc h5.wFlag h1.flag hs
    excNone := inv5_excNone_step a h5.excNone h5.wPc h5.wFlag h1.flag hs
    resVal := inv5_resVal_step a h5.resVal h5.excNone h5.wPc h5.wFlag h1.flag h1.outcome h1.outcome0 h1.data1 h1.exc1 hs
    resRaised := inv5_resRaised_step a h5.resRaised h5.excSome h5.wPc h5.wFlag h1.flag h1.outcome h1.outcome0 h1.exc1 hs
    resOs := inv5_resOs_step a h5.resOs h5.timedKind hs
    timedKind := inv5_timedKind_step a h5.timedKind hs
    resType := inv5_resType_step a h5.resType h5.excSome hs
    resBool := inv5_resBool_step a h5.resBool h5.kindDone hs
    resKind := inv5_resKind_step a h5.resKind h5.kindDone h5.resType h5.excSome hs
  }

/-- All five layers. -/
structure FInv (s : State) : Prop where
  i1 : Inv1 s
  i2 : Inv2 s
  i3 : Inv3 s
  i4 : Inv4 s
  i5 : Inv5 s

theorem finv_of_reach {s : State} (h : Reach s) : FInv s := by
  induction h with
  | init => exact ⟨inv1_init, inv2_init, inv3_init, inv4_init, inv5_init⟩
  | step a _ hs ih =>
    obtain ⟨h1, h2, h3, h4, h5⟩ := ih
    exact ⟨inv1_step a h1 hs, inv2_step a h1 h2 hs, inv3_step a h1 h2 h3 hs, inv4_step a h1 h2 h3 h4 hs,
           inv5_step a h1 h2 h3 h4 h5 hs⟩

/-- At most one entry per registration id, as a statement about `count`. -/
theorem count_rid_le_one {l : List Attempt} (h : l.Pairwise (fun a b => a.rid ≠ b.rid)) (r : Nat) :
    (l.map (·.rid)).count r ≤ 1 := by
  induction l with
  | nil => simp
  | cons a l ih =>
    rw [List.pairwise_cons] at h
    obtain ⟨ha, hl⟩ := h
    have ih := ih hl
    simp only [List.map_cons, List.count_cons]
    by_cases hr : a.rid = r
    · have h0 : (l.map (·.rid)).count r = 0 := by
        rw [List.count_eq_zero, List.mem_map]
        rintro ⟨b, hb, hbr⟩
        exact ha b hb (by omega)
      simp [hr, h0]
    · have : (a.rid == r) = false := by simp [hr]
      simp [this]
      exact ih

end JRV.Future
