/-
  Lemmas about JRV.Model.JsonClass that are not property statements (shared by C07/C08/C15/C20).
-/
import JRV.Model.JsonClass

namespace JRV.JsonClass
open JRV JRV.PyVal

/-- `allowedChar` is membership in the extracted code point ranges (`Generated.moduleCharClass` has the
    negation flag `true` and these ranges: `C08_gen_*` can compare it with `moduleCharRanges` by `decide`). -/
theorem allowedChar_ranges (c : Char) :
    allowedChar c = moduleCharRanges.any (fun r => decide (r.1 ≤ c.toNat) && decide (c.toNat ≤ r.2)) := by
  have h1 : 'a'.toNat = 97 := by decide
  have h2 : 'z'.toNat = 122 := by decide
  have h3 : 'A'.toNat = 65 := by decide
  have h4 : 'Z'.toNat = 90 := by decide
  have h5 : '0'.toNat = 48 := by decide
  have h6 : '9'.toNat = 57 := by decide
  have h7 : '_'.toNat = 95 := by decide
  have h8 : '.'.toNat = 46 := by decide
  simp only [allowedChar, moduleCharRanges, List.any_cons, List.any_nil, h1, h2, h3, h4, h5, h6, h7, h8, Bool.or_false]
  generalize c.toNat = n
  rw [Bool.eq_iff_iff]
  simp only [Bool.or_eq_true, Bool.and_eq_true, decide_eq_true_eq, beq_iff_eq]
  omega

/-- The normalisation of the optional arguments is idempotent: the recursive calls of `dump` pass values on
    which `x or default` is the identity. -/
theorem orStr_idem (a : Option String) (d : String) : orStr (some (orStr a d)) d = orStr a d := by
  unfold orStr
  cases a with
  | none => by_cases h : d = "" <;> simp [h]
  | some s => by_cases h : s = "" <;> by_cases h' : d = "" <;> simp [h, h']

/-- No serialisation handler is registered (entries with a `None` handler fall through). -/
def noHandlers (cfg : DumpCfg) : Bool := cfg.handlers.all (fun h => h.2.isNone)

theorem lookup_noHandlers (hs : List (String × Option Nat)) (t : String)
    (h : hs.all (fun h => h.2.isNone) = true) : hs.lookup t = Option.none ∨ hs.lookup t = some Option.none := by
  induction hs with
  | nil => simp [List.lookup]
  | cons e es ih =>
    obtain ⟨t', o⟩ := e
    simp only [List.all_cons, Bool.and_eq_true] at h
    simp only [List.lookup]
    cases t == t' with
    | true => cases o <;> simp_all
    | false => exact ih h.2

theorem handlerFor_none {cfg : DumpCfg} (h : noHandlers cfg = true) (v : PyVal) : handlerFor cfg v = Option.none := by
  unfold handlerFor
  rcases lookup_noHandlers cfg.handlers v.typeName h with h' | h' <;> rw [h']

/-- Python `e == "name"` holds for the string itself only (no modelled kind equals a string). -/
theorem pyEq_str_iff (e : PyVal) (n : String) : pyEq e (.str n) = true ↔ e = .str n := by
  cases e <;> simp [pyEq, numEq, asInt?]

/-- `key in ignore_list` for an attribute name is membership of the string. -/
theorem nameIgnored_iff (il : List PyVal) (n : String) : nameIgnored il n = true ↔ PyVal.str n ∈ il := by
  simp [nameIgnored, List.any_eq_true, pyEq_str_iff]

end JRV.JsonClass
