/-
  JRV.Lemmas.JsonString — every spelling of a string denotes that string (`decode_spell`): raw characters, short escapes and
  `\\uXXXX` escapes (surrogate pairs for the characters beyond U+FFFF) with any letter case of the hexadecimal digits.
  Used by the text-level theorems of C08.
-/
import JRV.Model.JsonString

set_option linter.unusedSimpArgs false
set_option linter.unusedVariables false

namespace JRV.JsonString

theorem hexVal_hexDigit : ∀ (up : Bool) (n : Fin 16), hexVal (hexDigit up n.val) = some n.val := by decide

theorem hexVal_hexDigit' (up : Bool) (n : Nat) (h : n < 16) : hexVal (hexDigit up n) = some n :=
  hexVal_hexDigit up ⟨n, h⟩

theorem hex4_digits (cs : Bool × Bool × Bool × Bool) (n : Nat) (h : n < 65536) :
    hex4 (hexDigit cs.1 (n / 4096)) (hexDigit cs.2.1 (n / 256 % 16)) (hexDigit cs.2.2.1 (n / 16 % 16)) (hexDigit cs.2.2.2 (n % 16))
      = some n := by
  unfold hex4
  rw [hexVal_hexDigit' _ _ (by omega), hexVal_hexDigit' _ _ (by omega), hexVal_hexDigit' _ _ (by omega),
    hexVal_hexDigit' _ _ (by omega)]
  simp only
  congr 1
  omega

theorem toNat_valid (c : Char) : c.toNat < 0xD800 ∨ (0xDFFF < c.toNat ∧ c.toNat < 0x110000) := by
  have := c.valid
  simp [UInt32.isValidChar, Nat.isValidChar] at this
  exact this



theorem ofNat_toNat' (c : Char) : Char.ofNat c.toNat = c := Char.ofNat_toNat c

/-- The code units a character is written as. -/
def unitsOf (c : Char) : How → List Nat
  | .raw => [c.toNat]
  | .short => [c.toNat]
  | .u _ _ => if c.toNat < 0x10000 then [c.toNat] else [0xD800 + (c.toNat - 0x10000) / 1024, 0xDC00 + (c.toNat - 0x10000) % 1024]

def app? {α : Type} (xs : List α) : Option (List α) → Option (List α)
  | some r => some (xs ++ r)
  | none => none

theorem units_raw (c : Char) (rest : List Char) (h : allowed c .raw = true) :
    units (c :: rest) = cons? c.toNat (units rest) := by
  simp only [allowed, Bool.not_eq_true', Bool.or_eq_false_iff] at h
  obtain ⟨⟨h1, h2⟩, h3⟩ := h
  rw [units.eq_def]
  simp [h1, h2, h3]

theorem shortEscape_shortOf (c e : Char) (h : shortOf c = some e) : shortEscape e = some c ∧ (e.toNat == 117) = false := by
  have hc := ofNat_toNat' c
  unfold shortOf at h
  repeat' split at h
  all_goals first
    | (injection h with h; subst h; rename_i h1; simp at h1; rw [← hc, h1]; decide)
    | (injection h with h; subst h; rename_i h1 _; simp at h1; rw [← hc, h1]; decide)
    | skip
  all_goals (simp at h)

theorem units_short (c e : Char) (rest : List Char) (h : shortOf c = some e) :
    units (Char.ofNat 92 :: e :: rest) = cons? c.toNat (units rest) := by
  obtain ⟨h1, h2⟩ := shortEscape_shortOf c e h
  rw [units.eq_def]
  simp [h1, h2]

theorem units_u (cs : Bool × Bool × Bool × Bool) (n : Nat) (rest : List Char) (h : n < 65536) :
    units (uEscape cs n ++ rest) = cons? n (units rest) := by
  have hx := hex4_digits cs n h
  rw [units.eq_def]
  simp [uEscape, hx]

theorem surr_hi_lt (n : Nat) (h1 : ¬ n < 65536) (h2 : n < 1114112) : 55296 + (n - 65536) / 1024 < 65536 := by omega
theorem surr_lo_lt (n : Nat) : 56320 + (n - 65536) % 1024 < 65536 := by omega
theorem surr_join (n : Nat) (h1 : ¬ n < 65536) :
    65536 + (55296 + (n - 65536) / 1024 - 55296) * 1024 + (56320 + (n - 65536) % 1024 - 56320) = n := by omega
theorem surr_hi_range (n : Nat) (h1 : ¬ n < 65536) (h2 : n < 1114112) :
    55296 ≤ 55296 + (n - 65536) / 1024 ∧ 55296 + (n - 65536) / 1024 ≤ 56319 := by omega
theorem surr_lo_range (n : Nat) : 56320 ≤ 56320 + (n - 65536) % 1024 ∧ 56320 + (n - 65536) % 1024 ≤ 57343 := by omega

theorem units_spellChar (c : Char) (h : How) (rest : List Char) (ha : allowed c h = true) :
    units (spellChar c h ++ rest) = app? (unitsOf c h) (units rest) := by
  have hv : c.toNat < 1114112 := by have := toNat_valid c; omega
  cases h with
  | raw => rw [show spellChar c .raw ++ rest = c :: rest from rfl, units_raw c rest ha]; cases units rest <;> rfl
  | short =>
    simp only [allowed, Option.isSome_iff_exists] at ha
    obtain ⟨e, he⟩ := ha
    simp only [spellChar, he]
    rw [show [Char.ofNat 92, e] ++ rest = Char.ofNat 92 :: e :: rest from rfl, units_short c e rest he]
    cases units rest <;> rfl
  | u hi lo =>
    simp only [spellChar, unitsOf]
    split
    · rename_i hlt
      rw [units_u hi _ rest hlt]; cases units rest <;> rfl
    · rename_i hge
      rw [List.append_assoc, units_u hi _ _ (surr_hi_lt _ hge hv), units_u lo _ _ (surr_lo_lt _)]
      cases units rest <;> rfl

theorem join_unitsOf (c : Char) (h : How) (us : List Nat) : join (unitsOf c h ++ us) = cons? c (join us) := by
  have hv := toNat_valid c
  have one : join (c.toNat :: us) = cons? c (join us) := by
    have hh : isHigh c.toNat = false := by simp [isHigh]; omega
    have hl : isLow c.toNat = false := by simp [isLow]; omega
    rw [join.eq_def]
    simp [hh, hl]
  cases h with
  | raw => exact one
  | short => exact one
  | u hi lo =>
    simp only [unitsOf]
    split
    · exact one
    · rename_i hge
      have hv' : c.toNat < 1114112 := by omega
      have r1 := surr_hi_range _ hge hv'
      have r2 := surr_lo_range c.toNat
      have hh : isHigh (0xD800 + (c.toNat - 0x10000) / 1024) = true := by simp [isHigh, r1.1, r1.2]
      have hl : isLow (0xDC00 + (c.toNat - 0x10000) % 1024) = true := by simp [isLow, r2.1, r2.2]
      rw [join.eq_def]
      simp only [List.cons_append, List.nil_append, hh, hl, if_true]
      rw [surr_join _ hge, ofNat_toNat']

theorem units_spell : ∀ (cs : List (Char × How)), allAllowed cs = true →
    units (spell cs) = some (cs.flatMap fun p => unitsOf p.1 p.2)
  | [], _ => by simp [spell, units]
  | (c, h) :: rest, ha => by
    simp only [allAllowed, Bool.and_eq_true] at ha
    rw [spell, units_spellChar c h _ ha.1, units_spell rest ha.2]
    simp [app?]

theorem join_units : ∀ (cs : List (Char × How)), join (cs.flatMap fun p => unitsOf p.1 p.2) = some (cs.map (·.1))
  | [] => by simp [join]
  | (c, h) :: rest => by
    simp only [List.flatMap_cons, List.map_cons]
    rw [join_unitsOf, join_units rest]
    rfl

/-- Every spelling of a string denotes that string. -/
theorem decode_spell (cs : List (Char × How)) (h : allAllowed cs = true) : decode (spell cs) = some (cs.map (·.1)) := by
  simp [decode, units_spell cs h, join_units]

end JRV.JsonString
