import JRV.Lemmas.JsonTextWs

/-
  JRV.Lemmas.JsonTextGarbage — the parser must consume the whole body: a complete array, object or string
  followed by a character that is not white space (and then anything) is not a JSON text
  (`accepts_trailing_garbage`, `verdict_trailing_garbage`).  Numbers and literals are excluded on purpose:
  `1` followed by `2` is the JSON text `12`.

  Route: a successful scan is determined by the prefix it has read (`append_all`): if `value f cs = some r`
  and the scan stopped inside `cs` (`r ≠ []`) or `cs` opens an array, an object or a string, then
  `value f (cs ++ x) = some (r ++ x)` for every `x`; unconditionally so for `scanString`, `scanLiteral`,
  `elements`, `members`, which end on a character of their own.  With fuel independence (`value_fuel`) the
  value of the longer text returns `r ++ g :: rest`, where `r` is all white space and `g` is not.
-/
namespace JRV.JsonText

/-- The first character after leading white space opens an array, an object or a string. -/
def startsClosed (cs : List Char) : Bool :=
  match skipWs cs with
  | c :: _ => c.toNat == 91 || c.toNat == 123 || c.toNat == 34
  | [] => false

/-- The text opens an array, an object or a string. -/
def headClosed : List Char → Bool
  | c :: _ => c.toNat == 91 || c.toNat == 123 || c.toNat == 34
  | [] => false

/- ---------- white space ---------- -/

theorem skipWs_append_cons {cs : List Char} {d : Char} {r : List Char} (h : skipWs cs = d :: r)
    (x : List Char) : skipWs (cs ++ x) = d :: (r ++ x) := by
  induction cs with
  | nil => simp [skipWs] at h
  | cons c rest ih =>
    simp only [skipWs, List.cons_append] at h ⊢
    split
    · rename_i hc; simp only [hc, if_true] at h; exact ih h
    · rename_i hc
      simp only [hc] at h
      simp at h
      obtain ⟨rfl, rfl⟩ := h
      rfl

theorem skipWs_append_nil {cs : List Char} (h : skipWs cs = []) (x : List Char) :
    skipWs (cs ++ x) = skipWs x := by
  induction cs with
  | nil => rfl
  | cons c rest ih =>
    simp only [skipWs, List.cons_append] at h ⊢
    split
    · rename_i hc; simp only [hc, if_true] at h; exact ih h
    · rename_i hc; simp [hc] at h

/-- A scan that succeeds after skipping white space did not start at the end of the text. -/
theorem skipWs_append_of_some {g : List Char → Option (List Char)} (hg : g [] = none)
    {cs r : List Char} (h : g (skipWs cs) = some r) (x : List Char) :
    skipWs (cs ++ x) = skipWs cs ++ x := by
  cases hs : skipWs cs with
  | nil => rw [hs, hg] at h; simp at h
  | cons d r' => rw [skipWs_append_cons hs]; rfl

/- ---------- the scanners ---------- -/

theorem scanString_append {cs r : List Char} (h : scanString cs = some r) (x : List Char) :
    scanString (cs ++ x) = some (r ++ x) := by
  fun_induction scanString cs
  case case1 => simp at h
  case case3 => simp at h
  case case5 => simp at h
  case case6 => simp at h
  case case8 => simp at h
  case case9 => simp at h
  all_goals (simp only [List.cons_append]; rw [scanString.eq_def]; simp_all)

theorem skipDigits_append {cs : List Char} (h : skipDigits cs ≠ []) (x : List Char) :
    skipDigits (cs ++ x) = skipDigits cs ++ x := by
  induction cs with
  | nil => simp [skipDigits] at h
  | cons c rest ih =>
    simp only [skipDigits, List.cons_append] at h ⊢
    split
    · rename_i hc; simp only [hc, if_true] at h; exact ih h
    · rfl

theorem digits1_append {cs r : List Char} (h : digits1 cs = some r) (hr : r ≠ []) (x : List Char) :
    digits1 (cs ++ x) = some (r ++ x) := by
  cases cs with
  | nil => simp [digits1] at h
  | cons c rest =>
    simp only [digits1, List.cons_append] at h ⊢
    split
    · rename_i hc
      simp only [hc, if_true, Option.some.injEq] at h
      subst h
      rw [skipDigits_append hr]
    · rename_i hc; simp [hc] at h

theorem scanInt_append {cs r : List Char} (h : scanInt cs = some r) (hr : r ≠ []) (x : List Char) :
    scanInt (cs ++ x) = some (r ++ x) := by
  cases cs with
  | nil => simp [scanInt] at h
  | cons c rest =>
    simp only [scanInt, List.cons_append] at h ⊢
    split
    · rename_i hc; simp only [hc, if_true, Option.some.injEq] at h; subst h; rfl
    · rename_i hc
      simp only [hc] at h
      split
      · rename_i hd
        simp [hd] at h
        subst h
        rw [skipDigits_append hr]
      · rename_i hd; simp [hd] at h

theorem scanFrac_append {cs r : List Char} (h : scanFrac cs = some r) (hr : r ≠ []) (x : List Char) :
    scanFrac (cs ++ x) = some (r ++ x) := by
  cases cs with
  | nil => simp [scanFrac] at h; exact absurd h hr
  | cons c rest =>
    simp only [scanFrac, List.cons_append] at h ⊢
    split
    · rename_i hc; simp only [hc, if_true] at h; exact digits1_append h hr x
    · rename_i hc; simp only [hc] at h; simp at h; subst h; rfl

theorem scanExp_append {cs r : List Char} (h : scanExp cs = some r) (hr : r ≠ []) (x : List Char) :
    scanExp (cs ++ x) = some (r ++ x) := by
  match cs with
  | [] => simp [scanExp] at h; exact absurd h hr
  | [c] =>
    simp only [scanExp] at h
    split at h
    · simp at h
    · rename_i hc
      simp at h; subst h
      cases x with
      | nil => simp [scanExp, hc]
      | cons y x => simp only [List.cons_append, List.nil_append, scanExp, hc]; rfl
  | c :: s :: rest =>
    simp only [scanExp, List.cons_append] at h ⊢
    split
    · rename_i hc
      simp only [hc, if_true] at h
      split
      · rename_i hsg; simp only [hsg, if_true] at h; exact digits1_append h hr x
      · rename_i hsg; simp [hsg] at h; exact digits1_append h hr x
    · rename_i hc; simp only [hc] at h; simp at h; subst h; rfl

theorem numTail_append {cs r : List Char} (h : numTail cs = some r) (hr : r ≠ []) (x : List Char) :
    numTail (cs ++ x) = some (r ++ x) := by
  unfold numTail at h ⊢
  split at h
  · simp at h
  · rename_i r1 h1
    split at h
    · simp at h
    · rename_i r2 h2
      have l3 := scanExp_length h
      have l2 := scanFrac_length h2
      have hr0 : 0 < r.length := List.length_pos_iff.mpr hr
      have hr2 : 0 < r2.length := by omega
      have hr1 : 0 < r1.length := by omega
      replace hr2 : r2 ≠ [] := List.length_pos_iff.mp hr2
      replace hr1 : r1 ≠ [] := List.length_pos_iff.mp hr1
      rw [scanInt_append h1 hr1]
      simp only
      rw [scanFrac_append h2 hr2]
      simp only
      exact scanExp_append h hr x

theorem scanNumber_append {cs r : List Char} (h : scanNumber cs = some r) (hr : r ≠ []) (x : List Char) :
    scanNumber (cs ++ x) = some (r ++ x) := by
  rw [scanNumber_eq] at h ⊢
  cases cs with
  | nil => simp [numBody, numTail, scanInt] at h
  | cons c rest =>
    simp only [numBody, List.cons_append] at h ⊢
    split
    · rename_i hc; simp only [hc, if_true] at h; exact numTail_append h hr x
    · rename_i hc; simp only [hc] at h; exact numTail_append h hr x

theorem scanLiteral_append {lit cs r : List Char} (h : scanLiteral lit cs = some r) (x : List Char) :
    scanLiteral lit (cs ++ x) = some (r ++ x) := by
  induction lit generalizing cs with
  | nil => simp [scanLiteral] at h ⊢; subst h; rfl
  | cons l lit ih =>
    cases cs with
    | nil => simp [scanLiteral] at h
    | cons c rest =>
      simp only [scanLiteral, List.cons_append] at h ⊢
      split
      · rename_i hc; simp only [hc, if_true] at h; exact ih h
      · rename_i hc; simp [hc] at h

/- ---------- values ---------- -/

theorem ne_nil_of_skipWs_cons {r : List Char} {d : Char} {rest : List Char} (h : skipWs r = d :: rest) :
    r ≠ [] := by
  intro e; subst e; simp [skipWs] at h

theorem append_all (f : Nat) :
    (∀ cs r, value f cs = some r → (r ≠ [] ∨ headClosed cs = true) →
      ∀ x, value f (cs ++ x) = some (r ++ x)) ∧
    (∀ cs r, elements f cs = some r → ∀ x, elements f (cs ++ x) = some (r ++ x)) ∧
    (∀ cs r, members f cs = some r → ∀ x, members f (cs ++ x) = some (r ++ x)) := by
  induction f with
  | zero => simp [value, elements, members]
  | succ f ih =>
    obtain ⟨ihv, ihe, ihm⟩ := ih
    refine ⟨?_, ?_, ?_⟩
    · intro cs r h hc x
      cases cs with
      | nil => simp at h
      | cons c rest =>
        simp only [value, List.cons_append] at h ⊢
        split
        · rename_i h34; simp only [h34, if_true] at h; exact scanString_append h x
        rename_i h34; rw [if_neg h34] at h
        split
        · rename_i h91
          simp only [h91, if_true] at h
          cases hs : skipWs rest with
          | nil => simp [hs] at h
          | cons d r1 =>
            rw [skipWs_append_cons hs]
            simp only [hs] at h ⊢
            split
            · rename_i h93; simp [h93] at h; subst h; rfl
            · rename_i h93; simp only [h93] at h; exact ihe _ _ h x
        rename_i h91; rw [if_neg h91] at h
        split
        · rename_i h123
          simp only [h123, if_true] at h
          cases hs : skipWs rest with
          | nil => simp [hs] at h
          | cons d r1 =>
            rw [skipWs_append_cons hs]
            simp only [hs] at h ⊢
            split
            · rename_i h125; simp [h125] at h; subst h; rfl
            · rename_i h125; simp only [h125] at h; exact ihm _ _ h x
        rename_i h123; rw [if_neg h123] at h
        split
        · rename_i h116; simp only [h116, if_true] at h; exact scanLiteral_append h x
        rename_i h116; rw [if_neg h116] at h
        split
        · rename_i h102; simp only [h102, if_true] at h; exact scanLiteral_append h x
        rename_i h102; rw [if_neg h102] at h
        split
        · rename_i h110; simp only [h110, if_true] at h; exact scanLiteral_append h x
        rename_i h110; rw [if_neg h110] at h
        split
        · rename_i hnum
          simp only [hnum, if_true] at h
          have hr : r ≠ [] := by
            rcases hc with hc | hc
            · exact hc
            · simp [headClosed, h34, h91, h123] at hc
          exact scanNumber_append h hr x
        · rename_i hnum; simp [hnum] at h
    · intro cs r h x
      simp only [elements] at h ⊢
      cases hv : value f cs with
      | none => simp [hv] at h
      | some r0 =>
        simp only [hv] at h
        cases hs : skipWs r0 with
        | nil => simp [hs] at h
        | cons d rest =>
          simp only [hs] at h
          rw [ihv _ _ hv (Or.inl (ne_nil_of_skipWs_cons hs)) x]
          simp only
          rw [skipWs_append_cons hs]
          simp only
          split
          · rename_i h44
            simp only [h44, if_true] at h
            rw [skipWs_append_of_some (elements_nil f) h]
            exact ihe _ _ h x
          · rename_i h44
            simp only [h44] at h
            split
            · rename_i h93; simp [h93] at h; subst h; rfl
            · rename_i h93; simp [h93] at h
    · intro cs r h x
      cases cs with
      | nil => simp at h
      | cons q cs =>
        simp only [members, List.cons_append] at h ⊢
        split
        · rename_i h34
          simp only [h34, if_true] at h
          cases hstr : scanString cs with
          | none => simp [hstr] at h
          | some r0 =>
            simp only [hstr] at h
            rw [scanString_append hstr]
            simp only
            cases hs : skipWs r0 with
            | nil => simp [hs] at h
            | cons colon r1 =>
              simp only [hs] at h
              rw [skipWs_append_cons hs]
              simp only
              split
              · rename_i h58
                simp only [h58, if_true] at h
                cases hv : value f (skipWs r1) with
                | none => simp [hv] at h
                | some r2 =>
                  simp only [hv] at h
                  cases hs2 : skipWs r2 with
                  | nil => simp [hs2] at h
                  | cons d rest =>
                    simp only [hs2] at h
                    rw [skipWs_append_of_some (value_nil f) hv,
                      ihv _ _ hv (Or.inl (ne_nil_of_skipWs_cons hs2)) x]
                    simp only
                    rw [skipWs_append_cons hs2]
                    simp only
                    split
                    · rename_i h44
                      simp only [h44, if_true] at h
                      rw [skipWs_append_of_some (members_nil f) h]
                      exact ihm _ _ h x
                    · rename_i h44
                      simp only [h44] at h
                      split
                      · rename_i h125; simp [h125] at h; subst h; rfl
                      · rename_i h125; simp [h125] at h
              · rename_i h58; simp [h58] at h
        · rename_i h34; simp [h34] at h

/-- A complete array, object or string is determined by the prefix it occupies. -/
theorem value_append_closed {f : Nat} {cs r : List Char} (h : value f cs = some r)
    (hc : headClosed cs = true) (x : List Char) : value f (cs ++ x) = some (r ++ x) :=
  (append_all f).1 cs r h (Or.inr hc) x

/-- A value whose scan stopped inside the text is determined by the prefix it occupies. -/
theorem value_append_of_ne_nil {f : Nat} {cs r : List Char} (h : value f cs = some r)
    (hr : r ≠ []) (x : List Char) : value f (cs ++ x) = some (r ++ x) :=
  (append_all f).1 cs r h (Or.inl hr) x

/- ---------- the whole body must be consumed ---------- -/

theorem accepts_trailing_garbage (t : List Char) (g : Char) (rest : List Char)
    (ht : accepts t = true) (hs : startsClosed t = true) (hg : isWs g = false) :
    accepts (t ++ g :: rest) = false := by
  unfold accepts at ht ⊢
  unfold startsClosed at hs
  have hlen := skipWs_length_le t
  cases hst : skipWs t with
  | nil => simp [hst] at hs
  | cons c t1 =>
    rw [hst] at hs hlen
    have hc : headClosed (c :: t1) = true := hs
    rw [hst] at ht
    cases hv : value (2 * t.length + 4) (c :: t1) with
    | none => simp [hv] at ht
    | some r =>
      simp only [hv, List.isEmpty_iff] at ht
      have hv' : value (2 * (t ++ g :: rest).length + 4) (c :: t1) = some r := by
        rw [← hv]
        apply value_fuel
        · simp at hlen ⊢; omega
        · simp at hlen ⊢; omega
      rw [skipWs_append_cons hst, ← List.cons_append, value_append_closed hv' hc]
      simp only
      rw [skipWs_append_nil ht]
      simp [skipWs, hg]

theorem verdict_trailing_garbage (t : List Char) (g : Char) (rest : List Char)
    (ht : verdict t = .wellFormed) (hs : startsClosed t = true) (hg : isWs g = false) :
    verdict (t ++ g :: rest) = .malformed := by
  unfold verdict at ht ⊢
  have ha : accepts t = true := by
    cases h : accepts t with
    | true => rfl
    | false => simp [h] at ht
  simp [accepts_trailing_garbage t g rest ha hs hg]

/- ---------- the statements are not vacuous ---------- -/

example : verdict "{\"a\": 1}".toList = .wellFormed ∧ startsClosed "{\"a\": 1}".toList = true ∧
    verdict "{\"a\": 1} x".toList = .malformed := by decide +kernel

example : verdict "[1]".toList = .wellFormed ∧ startsClosed "[1]".toList = true ∧
    verdict "[1]]".toList = .malformed := by decide +kernel

example : verdict "{\"a\":1}{\"a\":1}".toList = .malformed := by decide +kernel

example : verdict "\"s\"".toList = .wellFormed ∧ startsClosed "\"s\"".toList = true ∧
    verdict "\"s\"\"t\"".toList = .malformed := by decide +kernel

example : startsClosed " \n [1]".toList = true ∧ verdict " \n [1] \n,".toList = .malformed := by
  decide +kernel

/-- Why numbers and literals are excluded: `1` followed by `2` is a JSON text. -/
example : verdict "1".toList = .wellFormed ∧ verdict "12".toList = .wellFormed ∧
    startsClosed "1".toList = false ∧ startsClosed "true".toList = false := by decide +kernel

end JRV.JsonText
