/-
  JRV.Lemmas.JsonTextTable — the productions of RFC 8259 that the standard parser enforces, one short text
  per production (and the closest texts the grammar allows), as character lists: the same production lists
  as harness/servercases_ext.py (STRING_BAD/GOOD at `{"m": "a@Sb"}`, VALUE_BAD/GOOD at `[@V]` and as the
  whole text, WS_BAD/GOOD at `[1,@W2]`, WHOLE at `{"id": 1}`, BLANK), split by the verdict of the grammar.
  `C05_text_productions` (JRV/Properties/C05.lean) evaluates the recogniser on every row.
-/
namespace JRV.JsonTextTable

def malformedTexts : List (List Char) := [
  -- string control/U+0000
  ['{', '"', 'm', '"', ':', ' ', '"', 'a', Char.ofNat 0, 'b', '"', '}'],
  -- string control/U+0001
  ['{', '"', 'm', '"', ':', ' ', '"', 'a', Char.ofNat 1, 'b', '"', '}'],
  -- string control/U+0002
  ['{', '"', 'm', '"', ':', ' ', '"', 'a', Char.ofNat 2, 'b', '"', '}'],
  -- string control/U+0003
  ['{', '"', 'm', '"', ':', ' ', '"', 'a', Char.ofNat 3, 'b', '"', '}'],
  -- string control/U+0004
  ['{', '"', 'm', '"', ':', ' ', '"', 'a', Char.ofNat 4, 'b', '"', '}'],
  -- string control/U+0005
  ['{', '"', 'm', '"', ':', ' ', '"', 'a', Char.ofNat 5, 'b', '"', '}'],
  -- string control/U+0006
  ['{', '"', 'm', '"', ':', ' ', '"', 'a', Char.ofNat 6, 'b', '"', '}'],
  -- string control/U+0007
  ['{', '"', 'm', '"', ':', ' ', '"', 'a', Char.ofNat 7, 'b', '"', '}'],
  -- string control/U+0008
  ['{', '"', 'm', '"', ':', ' ', '"', 'a', Char.ofNat 8, 'b', '"', '}'],
  -- string control/U+0009
  ['{', '"', 'm', '"', ':', ' ', '"', 'a', Char.ofNat 9, 'b', '"', '}'],
  -- string control/U+000A
  ['{', '"', 'm', '"', ':', ' ', '"', 'a', Char.ofNat 10, 'b', '"', '}'],
  -- string control/U+000B
  ['{', '"', 'm', '"', ':', ' ', '"', 'a', Char.ofNat 11, 'b', '"', '}'],
  -- string control/U+000C
  ['{', '"', 'm', '"', ':', ' ', '"', 'a', Char.ofNat 12, 'b', '"', '}'],
  -- string control/U+000D
  ['{', '"', 'm', '"', ':', ' ', '"', 'a', Char.ofNat 13, 'b', '"', '}'],
  -- string control/U+000E
  ['{', '"', 'm', '"', ':', ' ', '"', 'a', Char.ofNat 14, 'b', '"', '}'],
  -- string control/U+000F
  ['{', '"', 'm', '"', ':', ' ', '"', 'a', Char.ofNat 15, 'b', '"', '}'],
  -- string control/U+0010
  ['{', '"', 'm', '"', ':', ' ', '"', 'a', Char.ofNat 16, 'b', '"', '}'],
  -- string control/U+0011
  ['{', '"', 'm', '"', ':', ' ', '"', 'a', Char.ofNat 17, 'b', '"', '}'],
  -- string control/U+0012
  ['{', '"', 'm', '"', ':', ' ', '"', 'a', Char.ofNat 18, 'b', '"', '}'],
  -- string control/U+0013
  ['{', '"', 'm', '"', ':', ' ', '"', 'a', Char.ofNat 19, 'b', '"', '}'],
  -- string control/U+0014
  ['{', '"', 'm', '"', ':', ' ', '"', 'a', Char.ofNat 20, 'b', '"', '}'],
  -- string control/U+0015
  ['{', '"', 'm', '"', ':', ' ', '"', 'a', Char.ofNat 21, 'b', '"', '}'],
  -- string control/U+0016
  ['{', '"', 'm', '"', ':', ' ', '"', 'a', Char.ofNat 22, 'b', '"', '}'],
  -- string control/U+0017
  ['{', '"', 'm', '"', ':', ' ', '"', 'a', Char.ofNat 23, 'b', '"', '}'],
  -- string control/U+0018
  ['{', '"', 'm', '"', ':', ' ', '"', 'a', Char.ofNat 24, 'b', '"', '}'],
  -- string control/U+0019
  ['{', '"', 'm', '"', ':', ' ', '"', 'a', Char.ofNat 25, 'b', '"', '}'],
  -- string control/U+001A
  ['{', '"', 'm', '"', ':', ' ', '"', 'a', Char.ofNat 26, 'b', '"', '}'],
  -- string control/U+001B
  ['{', '"', 'm', '"', ':', ' ', '"', 'a', Char.ofNat 27, 'b', '"', '}'],
  -- string control/U+001C
  ['{', '"', 'm', '"', ':', ' ', '"', 'a', Char.ofNat 28, 'b', '"', '}'],
  -- string control/U+001D
  ['{', '"', 'm', '"', ':', ' ', '"', 'a', Char.ofNat 29, 'b', '"', '}'],
  -- string control/U+001E
  ['{', '"', 'm', '"', ':', ' ', '"', 'a', Char.ofNat 30, 'b', '"', '}'],
  -- string control/U+001F
  ['{', '"', 'm', '"', ':', ' ', '"', 'a', Char.ofNat 31, 'b', '"', '}'],
  -- string escape/a
  ['{', '"', 'm', '"', ':', ' ', '"', 'a', '\\', 'a', 'b', '"', '}'],
  -- string escape/v
  ['{', '"', 'm', '"', ':', ' ', '"', 'a', '\\', 'v', 'b', '"', '}'],
  -- string escape/0
  ['{', '"', 'm', '"', ':', ' ', '"', 'a', '\\', '0', 'b', '"', '}'],
  -- string escape/e
  ['{', '"', 'm', '"', ':', ' ', '"', 'a', '\\', 'e', 'b', '"', '}'],
  -- string escape/x41
  ['{', '"', 'm', '"', ':', ' ', '"', 'a', '\\', 'x', '4', '1', 'b', '"', '}'],
  -- string escape/apostrophe
  ['{', '"', 'm', '"', ':', ' ', '"', 'a', '\\', '\'', 'b', '"', '}'],
  -- string escape/U8
  ['{', '"', 'm', '"', ':', ' ', '"', 'a', '\\', 'U', '0', '0', '0', '0', '0', '0', '4', '1', 'b', '"', '}'],
  -- string escape/N
  ['{', '"', 'm', '"', ':', ' ', '"', 'a', '\\', 'N', '{', 'D', 'O', 'L', 'L', 'A', 'R', ' ', 'S', 'I', 'G', 'N', '}', 'b', '"', '}'],
  -- string escape/u-short2
  ['{', '"', 'm', '"', ':', ' ', '"', 'a', '\\', 'u', '1', '2', 'b', '"', '}'],
  -- string escape/u-nonhex
  ['{', '"', 'm', '"', ':', ' ', '"', 'a', '\\', 'u', '1', '2', 'G', '4', 'b', '"', '}'],
  -- string escape/u-sign
  ['{', '"', 'm', '"', ':', ' ', '"', 'a', '\\', 'u', '+', '1', '2', '3', 'b', '"', '}'],
  -- string escape/u-space
  ['{', '"', 'm', '"', ':', ' ', '"', 'a', '\\', 'u', ' ', '1', '2', '3', 'b', '"', '}'],
  -- string escape/u-underscore
  ['{', '"', 'm', '"', ':', ' ', '"', 'a', '\\', 'u', '1', '_', '2', '3', 'b', '"', '}'],
  -- string escape/uu
  ['{', '"', 'm', '"', ':', ' ', '"', 'a', '\\', 'u', 'u', '0', '0', '4', '1', 'b', '"', '}'],
  -- string escape/d
  ['{', '"', 'm', '"', ':', ' ', '"', 'a', '\\', 'd', 'b', '"', '}'],
  -- string escape/paren
  ['{', '"', 'm', '"', ':', ' ', '"', 'a', '\\', '(', 'b', '"', '}'],
  -- string escape/newline
  ['{', '"', 'm', '"', ':', ' ', '"', 'a', '\\', Char.ofNat 10, 'b', '"', '}'],
  -- string escape/space
  ['{', '"', 'm', '"', ':', ' ', '"', 'a', '\\', ' ', 'b', '"', '}'],
  -- string escape/u-nonascii-hex
  ['{', '"', 'm', '"', ':', ' ', '"', 'a', '\\', 'u', '0', '0', Char.ofNat 233, '9', 'b', '"', '}'],
  -- string escape/u-fullwidth
  ['{', '"', 'm', '"', ':', ' ', '"', 'a', '\\', 'u', Char.ofNat 65296, Char.ofNat 65296, Char.ofNat 65300, Char.ofNat 65297, 'b', '"', '}'],
  -- string escape/octal
  ['{', '"', 'm', '"', ':', ' ', '"', 'a', '\\', '1', '0', '1', 'b', '"', '}'],
  -- string escape/upper-T
  ['{', '"', 'm', '"', ':', ' ', '"', 'a', '\\', 'T', 'b', '"', '}'],
  -- string escape/u-upper
  ['{', '"', 'm', '"', ':', ' ', '"', 'a', '\\', 'U', '0', '0', '4', '1', 'b', '"', '}'],
  -- string quote/bare
  ['{', '"', 'm', '"', ':', ' ', '"', 'a', 'q', '"', 'q', 'b', '"', '}'],
  -- string control/CRLF
  ['{', '"', 'm', '"', ':', ' ', '"', 'a', Char.ofNat 13, Char.ofNat 10, 'b', '"', '}'],
  -- value number/leading-zero
  ['[', '0', '1', ']'],
  -- top-level number/leading-zero
  ['0', '1'],
  -- value number/double-zero
  ['[', '0', '0', ']'],
  -- top-level number/double-zero
  ['0', '0'],
  -- value number/neg-leading-zero
  ['[', '-', '0', '1', ']'],
  -- top-level number/neg-leading-zero
  ['-', '0', '1'],
  -- value number/trailing-point
  ['[', '1', '.', ']'],
  -- top-level number/trailing-point
  ['1', '.'],
  -- value number/leading-point
  ['[', '.', '5', ']'],
  -- top-level number/leading-point
  ['.', '5'],
  -- value number/neg-leading-point
  ['[', '-', '.', '5', ']'],
  -- top-level number/neg-leading-point
  ['-', '.', '5'],
  -- value number/point-exp
  ['[', '1', '.', 'e', '5', ']'],
  -- top-level number/point-exp
  ['1', '.', 'e', '5'],
  -- value number/exp-nodigit
  ['[', '1', 'e', ']'],
  -- top-level number/exp-nodigit
  ['1', 'e'],
  -- value number/exp-plus-nodigit
  ['[', '1', 'e', '+', ']'],
  -- top-level number/exp-plus-nodigit
  ['1', 'e', '+'],
  -- value number/exp-minus-nodigit
  ['[', '1', 'e', '-', ']'],
  -- top-level number/exp-minus-nodigit
  ['1', 'e', '-'],
  -- value number/Exp-nodigit
  ['[', '1', 'E', ']'],
  -- top-level number/Exp-nodigit
  ['1', 'E'],
  -- value number/plus
  ['[', '+', '1', ']'],
  -- top-level number/plus
  ['+', '1'],
  -- value number/plus-zero
  ['[', '+', '0', ']'],
  -- top-level number/plus-zero
  ['+', '0'],
  -- value number/hex
  ['[', '0', 'x', '1', '0', ']'],
  -- top-level number/hex
  ['0', 'x', '1', '0'],
  -- value number/HEX
  ['[', '0', 'X', '1', 'F', ']'],
  -- top-level number/HEX
  ['0', 'X', '1', 'F'],
  -- value number/octal
  ['[', '0', 'o', '7', ']'],
  -- top-level number/octal
  ['0', 'o', '7'],
  -- value number/binary
  ['[', '0', 'b', '1', ']'],
  -- top-level number/binary
  ['0', 'b', '1'],
  -- value number/underscore
  ['[', '1', '_', '0', '0', '0', ']'],
  -- top-level number/underscore
  ['1', '_', '0', '0', '0'],
  -- value number/arabic-digits
  ['[', Char.ofNat 1633, Char.ofNat 1634, ']'],
  -- top-level number/arabic-digits
  [Char.ofNat 1633, Char.ofNat 1634],
  -- value number/fullwidth-digit
  ['[', Char.ofNat 65297, ']'],
  -- top-level number/fullwidth-digit
  [Char.ofNat 65297],
  -- value number/ascii-then-arabic
  ['[', '1', Char.ofNat 1634, ']'],
  -- top-level number/ascii-then-arabic
  ['1', Char.ofNat 1634],
  -- value number/minus
  ['[', '-', ']'],
  -- top-level number/minus
  ['-'],
  -- value number/double-minus
  ['[', '-', '-', '1', ']'],
  -- top-level number/double-minus
  ['-', '-', '1'],
  -- value number/minus-space
  ['[', '-', ' ', '1', ']'],
  -- top-level number/minus-space
  ['-', ' ', '1'],
  -- value number/two-points
  ['[', '1', '.', '5', '.', '5', ']'],
  -- top-level number/two-points
  ['1', '.', '5', '.', '5'],
  -- value number/two-exps
  ['[', '1', 'e', '5', 'e', '5', ']'],
  -- top-level number/two-exps
  ['1', 'e', '5', 'e', '5'],
  -- value number/exp-fraction
  ['[', '1', 'e', '5', '.', '5', ']'],
  -- top-level number/exp-fraction
  ['1', 'e', '5', '.', '5'],
  -- value number/suffix-L
  ['[', '1', 'L', ']'],
  -- top-level number/suffix-L
  ['1', 'L'],
  -- value number/suffix-f
  ['[', '1', '.', '0', 'f', ']'],
  -- top-level number/suffix-f
  ['1', '.', '0', 'f'],
  -- value number/fraction-bar
  ['[', '1', '/', '2', ']'],
  -- top-level number/fraction-bar
  ['1', '/', '2'],
  -- value number/sum
  ['[', '1', '+', '2', ']'],
  -- top-level number/sum
  ['1', '+', '2'],
  -- value number/parens
  ['[', '(', '1', ')', ']'],
  -- top-level number/parens
  ['(', '1', ')'],
  -- value number/inf
  ['[', 'i', 'n', 'f', ']'],
  -- top-level number/inf
  ['i', 'n', 'f'],
  -- value number/nan
  ['[', 'n', 'a', 'n', ']'],
  -- top-level number/nan
  ['n', 'a', 'n'],
  -- value number/power
  ['[', '2', '*', '*', '3', ']'],
  -- top-level number/power
  ['2', '*', '*', '3'],
  -- value number/exp-point
  ['[', '1', 'e', '.', '5', ']'],
  -- top-level number/exp-point
  ['1', 'e', '.', '5'],
  -- value number/neg-exp-only
  ['[', '-', 'e', '5', ']'],
  -- top-level number/neg-exp-only
  ['-', 'e', '5'],
  -- value number/percent
  ['[', '5', '0', '%', ']'],
  -- top-level number/percent
  ['5', '0', '%'],
  -- value literal/True
  ['[', 'T', 'r', 'u', 'e', ']'],
  -- top-level literal/True
  ['T', 'r', 'u', 'e'],
  -- value literal/False
  ['[', 'F', 'a', 'l', 's', 'e', ']'],
  -- top-level literal/False
  ['F', 'a', 'l', 's', 'e'],
  -- value literal/None
  ['[', 'N', 'o', 'n', 'e', ']'],
  -- top-level literal/None
  ['N', 'o', 'n', 'e'],
  -- value literal/TRUE
  ['[', 'T', 'R', 'U', 'E', ']'],
  -- top-level literal/TRUE
  ['T', 'R', 'U', 'E'],
  -- value literal/Null
  ['[', 'N', 'u', 'l', 'l', ']'],
  -- top-level literal/Null
  ['N', 'u', 'l', 'l'],
  -- value literal/nul
  ['[', 'n', 'u', 'l', ']'],
  -- top-level literal/nul
  ['n', 'u', 'l'],
  -- value literal/tru
  ['[', 't', 'r', 'u', ']'],
  -- top-level literal/tru
  ['t', 'r', 'u'],
  -- value literal/truee
  ['[', 't', 'r', 'u', 'e', 'e', ']'],
  -- top-level literal/truee
  ['t', 'r', 'u', 'e', 'e'],
  -- value literal/nullx
  ['[', 'n', 'u', 'l', 'l', 'x', ']'],
  -- top-level literal/nullx
  ['n', 'u', 'l', 'l', 'x'],
  -- value literal/undefined
  ['[', 'u', 'n', 'd', 'e', 'f', 'i', 'n', 'e', 'd', ']'],
  -- top-level literal/undefined
  ['u', 'n', 'd', 'e', 'f', 'i', 'n', 'e', 'd'],
  -- value literal/nil
  ['[', 'n', 'i', 'l', ']'],
  -- top-level literal/nil
  ['n', 'i', 'l'],
  -- value literal/yes
  ['[', 'y', 'e', 's', ']'],
  -- top-level literal/yes
  ['y', 'e', 's'],
  -- value literal/t
  ['[', 't', ']'],
  -- top-level literal/t
  ['t'],
  -- value literal/null-fullwidth
  ['[', 'n', 'u', Char.ofNat 65356, 'l', ']'],
  -- top-level literal/null-fullwidth
  ['n', 'u', Char.ofNat 65356, 'l'],
  -- value string/single-quotes
  ['[', '\'', 's', 'i', 'n', 'g', 'l', 'e', '\'', ']'],
  -- top-level string/single-quotes
  ['\'', 's', 'i', 'n', 'g', 'l', 'e', '\''],
  -- value string/backticks
  ['[', '`', 't', 'i', 'c', 'k', '`', ']'],
  -- top-level string/backticks
  ['`', 't', 'i', 'c', 'k', '`'],
  -- value string/unterminated
  ['[', '"', 'o', 'p', 'e', 'n', ']'],
  -- top-level string/unterminated
  ['"', 'o', 'p', 'e', 'n'],
  -- value string/triple
  ['[', '"', '"', '"', 't', '"', '"', '"', ']'],
  -- top-level string/triple
  ['"', '"', '"', 't', '"', '"', '"'],
  -- value string/concatenation
  ['[', '"', 'a', '"', ' ', '"', 'b', '"', ']'],
  -- top-level string/concatenation
  ['"', 'a', '"', ' ', '"', 'b', '"'],
  -- value string/bytes-prefix
  ['[', 'b', '"', 'x', '"', ']'],
  -- top-level string/bytes-prefix
  ['b', '"', 'x', '"'],
  -- value string/raw-prefix
  ['[', 'r', '"', 'x', '"', ']'],
  -- top-level string/raw-prefix
  ['r', '"', 'x', '"'],
  -- value string/u-prefix
  ['[', 'u', '"', 'x', '"', ']'],
  -- top-level string/u-prefix
  ['u', '"', 'x', '"'],
  -- value string/f-prefix
  ['[', 'f', '"', 'x', '"', ']'],
  -- top-level string/f-prefix
  ['f', '"', 'x', '"'],
  -- value string/raw-newline
  ['[', '"', 'l', 'i', 'n', 'e', Char.ofNat 10, 'b', 'r', 'e', 'a', 'k', '"', ']'],
  -- top-level string/raw-newline
  ['"', 'l', 'i', 'n', 'e', Char.ofNat 10, 'b', 'r', 'e', 'a', 'k', '"'],
  -- value string/raw-tab
  ['[', '"', 't', 'a', 'b', Char.ofNat 9, 'h', 'e', 'r', 'e', '"', ']'],
  -- top-level string/raw-tab
  ['"', 't', 'a', 'b', Char.ofNat 9, 'h', 'e', 'r', 'e', '"'],
  -- value string/curly-quotes
  ['[', Char.ofNat 8220, 'x', Char.ofNat 8221, ']'],
  -- top-level string/curly-quotes
  [Char.ofNat 8220, 'x', Char.ofNat 8221],
  -- value string/bare-word
  ['[', 'w', 'o', 'r', 'd', ']'],
  -- top-level string/bare-word
  ['w', 'o', 'r', 'd'],
  -- value string/lone-quote
  ['[', '"', ']'],
  -- top-level string/lone-quote
  ['"'],
  -- value string/backslash-end
  ['[', '"', 'x', '\\', '"', ']'],
  -- top-level string/backslash-end
  ['"', 'x', '\\', '"'],
  -- value array/trailing-comma
  ['[', '[', '1', ',', ']', ']'],
  -- top-level array/trailing-comma
  ['[', '1', ',', ']'],
  -- value array/leading-comma
  ['[', '[', ',', '1', ']', ']'],
  -- top-level array/leading-comma
  ['[', ',', '1', ']'],
  -- value array/double-comma
  ['[', '[', '1', ',', ',', '2', ']', ']'],
  -- top-level array/double-comma
  ['[', '1', ',', ',', '2', ']'],
  -- value array/only-comma
  ['[', '[', ',', ']', ']'],
  -- top-level array/only-comma
  ['[', ',', ']'],
  -- value array/missing-comma
  ['[', '[', '1', ' ', '2', ']', ']'],
  -- top-level array/missing-comma
  ['[', '1', ' ', '2', ']'],
  -- value array/semicolon
  ['[', '[', '1', ';', '2', ']', ']'],
  -- top-level array/semicolon
  ['[', '1', ';', '2', ']'],
  -- value array/unclosed-inner
  ['[', '[', '1', ',', ' ', '[', '2', ']', ']'],
  -- top-level array/unclosed-inner
  ['[', '1', ',', ' ', '[', '2', ']'],
  -- value array/extra-close
  ['[', '[', '1', ']', ']', ']'],
  -- top-level array/extra-close
  ['[', '1', ']', ']'],
  -- value array/mismatch
  ['[', '[', '1', '}', ']'],
  -- top-level array/mismatch
  ['[', '1', '}'],
  -- value array/parens
  ['[', '(', '1', ',', ' ', '2', ')', ']'],
  -- top-level array/parens
  ['(', '1', ',', ' ', '2', ')'],
  -- value array/angle
  ['[', '<', '1', '>', ']'],
  -- top-level array/angle
  ['<', '1', '>'],
  -- value array/set-braces
  ['[', '{', '1', ',', ' ', '2', '}', ']'],
  -- top-level array/set-braces
  ['{', '1', ',', ' ', '2', '}'],
  -- value array/colon
  ['[', '[', '1', ':', '2', ']', ']'],
  -- top-level array/colon
  ['[', '1', ':', '2', ']'],
  -- value object/trailing-comma
  ['[', '{', '"', 'a', '"', ':', '1', ',', '}', ']'],
  -- top-level object/trailing-comma
  ['{', '"', 'a', '"', ':', '1', ',', '}'],
  -- value object/double-comma
  ['[', '{', '"', 'a', '"', ':', '1', ',', ',', '"', 'b', '"', ':', '2', '}', ']'],
  -- top-level object/double-comma
  ['{', '"', 'a', '"', ':', '1', ',', ',', '"', 'b', '"', ':', '2', '}'],
  -- value object/leading-comma
  ['[', '{', ',', '"', 'a', '"', ':', '1', '}', ']'],
  -- top-level object/leading-comma
  ['{', ',', '"', 'a', '"', ':', '1', '}'],
  -- value object/missing-colon
  ['[', '{', '"', 'a', '"', ' ', '1', '}', ']'],
  -- top-level object/missing-colon
  ['{', '"', 'a', '"', ' ', '1', '}'],
  -- value object/equals
  ['[', '{', '"', 'a', '"', '=', '1', '}', ']'],
  -- top-level object/equals
  ['{', '"', 'a', '"', '=', '1', '}'],
  -- value object/arrow
  ['[', '{', '"', 'a', '"', '=', '>', '1', '}', ']'],
  -- top-level object/arrow
  ['{', '"', 'a', '"', '=', '>', '1', '}'],
  -- value object/no-value
  ['[', '{', '"', 'a', '"', ':', '}', ']'],
  -- top-level object/no-value
  ['{', '"', 'a', '"', ':', '}'],
  -- value object/no-colon-value
  ['[', '{', '"', 'a', '"', '}', ']'],
  -- top-level object/no-colon-value
  ['{', '"', 'a', '"', '}'],
  -- value object/no-name
  ['[', '{', ':', '1', '}', ']'],
  -- top-level object/no-name
  ['{', ':', '1', '}'],
  -- value object/unquoted-name
  ['[', '{', 'a', ':', '1', '}', ']'],
  -- top-level object/unquoted-name
  ['{', 'a', ':', '1', '}'],
  -- value object/single-quoted-name
  ['[', '{', '\'', 'a', '\'', ':', '1', '}', ']'],
  -- top-level object/single-quoted-name
  ['{', '\'', 'a', '\'', ':', '1', '}'],
  -- value object/number-name
  ['[', '{', '1', ':', '2', '}', ']'],
  -- top-level object/number-name
  ['{', '1', ':', '2', '}'],
  -- value object/null-name
  ['[', '{', 'n', 'u', 'l', 'l', ':', '1', '}', ']'],
  -- top-level object/null-name
  ['{', 'n', 'u', 'l', 'l', ':', '1', '}'],
  -- value object/true-name
  ['[', '{', 't', 'r', 'u', 'e', ':', '1', '}', ']'],
  -- top-level object/true-name
  ['{', 't', 'r', 'u', 'e', ':', '1', '}'],
  -- value object/array-name
  ['[', '{', '[', '"', 'a', '"', ']', ':', '1', '}', ']'],
  -- top-level object/array-name
  ['{', '[', '"', 'a', '"', ']', ':', '1', '}'],
  -- value object/missing-comma
  ['[', '{', '"', 'a', '"', ':', '1', ' ', '"', 'b', '"', ':', '2', '}', ']'],
  -- top-level object/missing-comma
  ['{', '"', 'a', '"', ':', '1', ' ', '"', 'b', '"', ':', '2', '}'],
  -- value object/extra-close
  ['[', '{', '"', 'a', '"', ':', '1', '}', '}', ']'],
  -- top-level object/extra-close
  ['{', '"', 'a', '"', ':', '1', '}', '}'],
  -- value object/mismatch
  ['[', '{', '"', 'a', '"', ':', '1', ']', ']'],
  -- top-level object/mismatch
  ['{', '"', 'a', '"', ':', '1', ']'],
  -- value object/double-colon
  ['[', '{', '"', 'a', '"', ':', ':', '1', '}', ']'],
  -- top-level object/double-colon
  ['{', '"', 'a', '"', ':', ':', '1', '}'],
  -- value object/spread
  ['[', '{', '"', 'a', '"', ':', '1', ',', ' ', '*', '*', '{', '}', '}', ']'],
  -- top-level object/spread
  ['{', '"', 'a', '"', ':', '1', ',', ' ', '*', '*', '{', '}', '}'],
  -- value object/comma-only
  ['[', '{', ',', '}', ']'],
  -- top-level object/comma-only
  ['{', ',', '}'],
  -- value object/semicolon
  ['[', '{', '"', 'a', '"', ':', '1', ';', '"', 'b', '"', ':', '2', '}', ']'],
  -- top-level object/semicolon
  ['{', '"', 'a', '"', ':', '1', ';', '"', 'b', '"', ':', '2', '}'],
  -- value comment/block-before
  ['[', '/', '*', ' ', 'c', ' ', '*', '/', ' ', '1', ']'],
  -- top-level comment/block-before
  ['/', '*', ' ', 'c', ' ', '*', '/', ' ', '1'],
  -- value comment/block-after
  ['[', '1', ' ', '/', '*', ' ', 'c', ' ', '*', '/', ']'],
  -- top-level comment/block-after
  ['1', ' ', '/', '*', ' ', 'c', ' ', '*', '/'],
  -- value comment/line-before
  ['[', '/', '/', ' ', 'c', Char.ofNat 10, '1', ']'],
  -- top-level comment/line-before
  ['/', '/', ' ', 'c', Char.ofNat 10, '1'],
  -- value comment/line-after
  ['[', '1', ' ', '/', '/', ' ', 'c', ']'],
  -- top-level comment/line-after
  ['1', ' ', '/', '/', ' ', 'c'],
  -- value comment/hash-before
  ['[', '#', ' ', 'c', Char.ofNat 10, '1', ']'],
  -- top-level comment/hash-before
  ['#', ' ', 'c', Char.ofNat 10, '1'],
  -- value comment/hash-after
  ['[', '1', ' ', '#', ' ', 'c', ']'],
  -- top-level comment/hash-after
  ['1', ' ', '#', ' ', 'c'],
  -- value comment/html
  ['[', '<', '!', '-', '-', ' ', 'c', ' ', '-', '-', '>', ' ', '1', ']'],
  -- top-level comment/html
  ['<', '!', '-', '-', ' ', 'c', ' ', '-', '-', '>', ' ', '1'],
  -- value comment/block-inside-array
  ['[', '[', '1', ',', ' ', '/', '*', ' ', 'c', ' ', '*', '/', ' ', '2', ']', ']'],
  -- top-level comment/block-inside-array
  ['[', '1', ',', ' ', '/', '*', ' ', 'c', ' ', '*', '/', ' ', '2', ']'],
  -- value empty/comma
  ['[', ',', ']'],
  -- top-level empty/comma
  [','],
  -- between tokens ws/form-feed
  ['[', '1', ',', Char.ofNat 12, '2', ']'],
  -- between tokens ws/vertical-tab
  ['[', '1', ',', Char.ofNat 11, '2', ']'],
  -- between tokens ws/NUL
  ['[', '1', ',', Char.ofNat 0, '2', ']'],
  -- between tokens ws/U+001C
  ['[', '1', ',', Char.ofNat 28, '2', ']'],
  -- between tokens ws/U+001D
  ['[', '1', ',', Char.ofNat 29, '2', ']'],
  -- between tokens ws/U+001E
  ['[', '1', ',', Char.ofNat 30, '2', ']'],
  -- between tokens ws/U+001F
  ['[', '1', ',', Char.ofNat 31, '2', ']'],
  -- between tokens ws/backspace
  ['[', '1', ',', Char.ofNat 8, '2', ']'],
  -- between tokens ws/NEL
  ['[', '1', ',', Char.ofNat 133, '2', ']'],
  -- between tokens ws/NBSP
  ['[', '1', ',', Char.ofNat 160, '2', ']'],
  -- between tokens ws/ogham
  ['[', '1', ',', Char.ofNat 5760, '2', ']'],
  -- between tokens ws/en-quad
  ['[', '1', ',', Char.ofNat 8192, '2', ']'],
  -- between tokens ws/thin-space
  ['[', '1', ',', Char.ofNat 8201, '2', ']'],
  -- between tokens ws/hair-space
  ['[', '1', ',', Char.ofNat 8202, '2', ']'],
  -- between tokens ws/zero-width-space
  ['[', '1', ',', Char.ofNat 8203, '2', ']'],
  -- between tokens ws/line-separator
  ['[', '1', ',', Char.ofNat 8232, '2', ']'],
  -- between tokens ws/paragraph-separator
  ['[', '1', ',', Char.ofNat 8233, '2', ']'],
  -- between tokens ws/narrow-nbsp
  ['[', '1', ',', Char.ofNat 8239, '2', ']'],
  -- between tokens ws/math-space
  ['[', '1', ',', Char.ofNat 8287, '2', ']'],
  -- between tokens ws/ideographic-space
  ['[', '1', ',', Char.ofNat 12288, '2', ']'],
  -- between tokens ws/BOM
  ['[', '1', ',', Char.ofNat 65279, '2', ']'],
  -- between tokens ws/DEL
  ['[', '1', ',', Char.ofNat 127, '2', ']'],
  -- between tokens ws/comment
  ['[', '1', ',', '/', '*', '*', '/', '2', ']'],
  -- between tokens ws/line-comment
  ['[', '1', ',', '/', '/', Char.ofNat 10, '2', ']'],
  -- between tokens ws/escaped-n
  ['[', '1', ',', '\\', 'n', '2', ']'],
  -- between tokens ws/comma
  ['[', '1', ',', ',', '2', ']'],
  -- whole/BOM-prefix
  [Char.ofNat 65279, '{', '"', 'i', 'd', '"', ':', ' ', '1', '}'],
  -- whole/BOM-suffix
  ['{', '"', 'i', 'd', '"', ':', ' ', '1', '}', Char.ofNat 65279],
  -- whole/trailing-word
  ['{', '"', 'i', 'd', '"', ':', ' ', '1', '}', ' ', 'x'],
  -- whole/twice
  ['{', '"', 'i', 'd', '"', ':', ' ', '1', '}', '{', '"', 'i', 'd', '"', ':', ' ', '1', '}'],
  -- whole/twice-newline
  ['{', '"', 'i', 'd', '"', ':', ' ', '1', '}', Char.ofNat 10, '{', '"', 'i', 'd', '"', ':', ' ', '1', '}'],
  -- whole/trailing-comma
  ['{', '"', 'i', 'd', '"', ':', ' ', '1', '}', ','],
  -- whole/trailing-bracket
  ['{', '"', 'i', 'd', '"', ':', ' ', '1', '}', ']'],
  -- whole/trailing-brace
  ['{', '"', 'i', 'd', '"', ':', ' ', '1', '}', '}'],
  -- whole/trailing-NUL
  ['{', '"', 'i', 'd', '"', ':', ' ', '1', '}', Char.ofNat 0],
  -- whole/leading-NUL
  [Char.ofNat 0, '{', '"', 'i', 'd', '"', ':', ' ', '1', '}'],
  -- whole/truncated-1
  ['{', '"', 'i', 'd', '"', ':', ' ', '1'],
  -- whole/truncated-half
  ['{', '"', 'i', 'd'],
  -- whole/leading-word
  ['x', '{', '"', 'i', 'd', '"', ':', ' ', '1', '}'],
  -- whole/trailing-semicolon
  ['{', '"', 'i', 'd', '"', ':', ' ', '1', '}', ';'],
  -- whole/parens
  ['(', '{', '"', 'i', 'd', '"', ':', ' ', '1', '}', ')'],
  -- whole/single-quoted
  ['{', '\'', 'i', 'd', '\'', ':', ' ', '1', '}'],
  -- whole/python-repr
  ['{', '\'', 'i', 'd', '\'', ':', ' ', '1', '}'],
  -- whole/jsonp
  ['c', 'b', '(', '{', '"', 'i', 'd', '"', ':', ' ', '1', '}', ')', ';'],
  -- whole/assignment
  ['x', ' ', '=', ' ', '{', '"', 'i', 'd', '"', ':', ' ', '1', '}'],
  -- whole/trailing-form-feed
  ['{', '"', 'i', 'd', '"', ':', ' ', '1', '}', Char.ofNat 12],
  -- whole/leading-vertical-tab
  [Char.ofNat 11, '{', '"', 'i', 'd', '"', ':', ' ', '1', '}'],
  -- whole/html-escaped
  ['{', '&', 'q', 'u', 'o', 't', ';', 'i', 'd', '&', 'q', 'u', 'o', 't', ';', ':', ' ', '1', '}'],
  -- whole/unquoted-names
  ['{', 'i', 'd', ':', ' ', '1', '}'],
  -- whole/backslash-quotes
  ['{', '\\', '"', 'i', 'd', '\\', '"', ':', ' ', '1', '}'],
  -- blank/space
  [' '],
  -- blank/newline
  [Char.ofNat 10],
  -- blank/tab-crlf
  [Char.ofNat 9, Char.ofNat 13, Char.ofNat 10],
  -- blank/BOM
  [Char.ofNat 65279],
  -- blank/NUL
  [Char.ofNat 0],
  -- blank/form-feed
  [Char.ofNat 12],
  -- blank/NBSP
  [Char.ofNat 160],
  -- raw TAB in an argument
  ['{', '"', 'm', 'e', 't', 'h', 'o', 'd', '"', ':', ' ', '"', 'e', 'c', 'h', 'o', '"', ',', ' ', '"', 'p', 'a', 'r', 'a', 'm', 's', '"', ':', ' ', '[', '"', 'a', Char.ofNat 9, 'b', '"', ']', ',', ' ', '"', 'i', 'd', '"', ':', ' ', '4', '}']
]

def wellFormedTexts : List (List Char) := [
  -- string escape/u-short3
  ['{', '"', 'm', '"', ':', ' ', '"', 'a', '\\', 'u', '1', '2', '3', 'b', '"', '}'],
  -- string escape/u-end
  ['{', '"', 'm', '"', ':', ' ', '"', 'a', '\\', 'u', '0', '0', '4', 'b', '"', '}'],
  -- string raw/U+007F
  ['{', '"', 'm', '"', ':', ' ', '"', 'a', Char.ofNat 127, 'b', '"', '}'],
  -- string raw/U+0080
  ['{', '"', 'm', '"', ':', ' ', '"', 'a', Char.ofNat 128, 'b', '"', '}'],
  -- string raw/U+009F
  ['{', '"', 'm', '"', ':', ' ', '"', 'a', Char.ofNat 159, 'b', '"', '}'],
  -- string raw/U+00A0
  ['{', '"', 'm', '"', ':', ' ', '"', 'a', Char.ofNat 160, 'b', '"', '}'],
  -- string raw/U+2028
  ['{', '"', 'm', '"', ':', ' ', '"', 'a', Char.ofNat 8232, 'b', '"', '}'],
  -- string raw/U+2029
  ['{', '"', 'm', '"', ':', ' ', '"', 'a', Char.ofNat 8233, 'b', '"', '}'],
  -- string raw/U+FEFF
  ['{', '"', 'm', '"', ':', ' ', '"', 'a', Char.ofNat 65279, 'b', '"', '}'],
  -- string raw/U+FFFF
  ['{', '"', 'm', '"', ':', ' ', '"', 'a', Char.ofNat 65535, 'b', '"', '}'],
  -- string raw/U+10FFFF
  ['{', '"', 'm', '"', ':', ' ', '"', 'a', Char.ofNat 1114111, 'b', '"', '}'],
  -- string raw/e-acute
  ['{', '"', 'm', '"', ':', ' ', '"', 'a', Char.ofNat 233, 'b', '"', '}'],
  -- string raw/slash
  ['{', '"', 'm', '"', ':', ' ', '"', 'a', '/', 'b', '"', '}'],
  -- string raw/apostrophe
  ['{', '"', 'm', '"', ':', ' ', '"', 'a', '\'', 'b', '"', '}'],
  -- string raw/space
  ['{', '"', 'm', '"', ':', ' ', '"', 'a', ' ', 'b', '"', '}'],
  -- string raw/nothing
  ['{', '"', 'm', '"', ':', ' ', '"', 'a', 'b', '"', '}'],
  -- string escape/quote
  ['{', '"', 'm', '"', ':', ' ', '"', 'a', '\\', '"', 'b', '"', '}'],
  -- string escape/backslash
  ['{', '"', 'm', '"', ':', ' ', '"', 'a', '\\', '\\', 'b', '"', '}'],
  -- string escape/solidus
  ['{', '"', 'm', '"', ':', ' ', '"', 'a', '\\', '/', 'b', '"', '}'],
  -- string escape/b
  ['{', '"', 'm', '"', ':', ' ', '"', 'a', '\\', 'b', 'b', '"', '}'],
  -- string escape/f
  ['{', '"', 'm', '"', ':', ' ', '"', 'a', '\\', 'f', 'b', '"', '}'],
  -- string escape/n
  ['{', '"', 'm', '"', ':', ' ', '"', 'a', '\\', 'n', 'b', '"', '}'],
  -- string escape/r
  ['{', '"', 'm', '"', ':', ' ', '"', 'a', '\\', 'r', 'b', '"', '}'],
  -- string escape/t
  ['{', '"', 'm', '"', ':', ' ', '"', 'a', '\\', 't', 'b', '"', '}'],
  -- string escape/u0041
  ['{', '"', 'm', '"', ':', ' ', '"', 'a', '\\', 'u', '0', '0', '4', '1', 'b', '"', '}'],
  -- string escape/u-mixed-case
  ['{', '"', 'm', '"', ':', ' ', '"', 'a', '\\', 'u', 'a', 'b', 'C', 'D', 'b', '"', '}'],
  -- string escape/u-lone-high
  ['{', '"', 'm', '"', ':', ' ', '"', 'a', '\\', 'u', 'd', '8', '0', '0', 'b', '"', '}'],
  -- string escape/u-lone-low
  ['{', '"', 'm', '"', ':', ' ', '"', 'a', '\\', 'u', 'D', 'F', 'F', 'F', 'b', '"', '}'],
  -- string escape/u-pair
  ['{', '"', 'm', '"', ':', ' ', '"', 'a', '\\', 'u', 'd', '8', '3', 'd', '\\', 'u', 'd', 'e', '0', '0', 'b', '"', '}'],
  -- string escape/u0000
  ['{', '"', 'm', '"', ':', ' ', '"', 'a', '\\', 'u', '0', '0', '0', '0', 'b', '"', '}'],
  -- string escape/u001f
  ['{', '"', 'm', '"', ':', ' ', '"', 'a', '\\', 'u', '0', '0', '1', 'f', 'b', '"', '}'],
  -- string escape/double-backslash-t
  ['{', '"', 'm', '"', ':', ' ', '"', 'a', '\\', '\\', 't', 'b', '"', '}'],
  -- value number/zero
  ['[', '0', ']'],
  -- top-level number/zero
  ['0'],
  -- value number/neg-zero
  ['[', '-', '0', ']'],
  -- top-level number/neg-zero
  ['-', '0'],
  -- value number/zero-fraction
  ['[', '0', '.', '0', ']'],
  -- top-level number/zero-fraction
  ['0', '.', '0'],
  -- value number/neg-zero-exp
  ['[', '-', '0', '.', '0', 'e', '0', ']'],
  -- top-level number/neg-zero-exp
  ['-', '0', '.', '0', 'e', '0'],
  -- value number/Exp
  ['[', '1', 'E', '5', ']'],
  -- top-level number/Exp
  ['1', 'E', '5'],
  -- value number/exp-plus
  ['[', '1', 'e', '+', '5', ']'],
  -- top-level number/exp-plus
  ['1', 'e', '+', '5'],
  -- value number/exp-minus
  ['[', '1', 'e', '-', '5', ']'],
  -- top-level number/exp-minus
  ['1', 'e', '-', '5'],
  -- value number/ten
  ['[', '1', '0', ']'],
  -- top-level number/ten
  ['1', '0'],
  -- value number/long
  ['[', '1', '2', '3', '4', '5', '6', '7', '8', '9', '0', '1', '2', '3', '4', '5', '6', '7', '8', '9', '0', '1', '2', '3', '4', '5', '6', '7', '8', '9', '0', ']'],
  -- top-level number/long
  ['1', '2', '3', '4', '5', '6', '7', '8', '9', '0', '1', '2', '3', '4', '5', '6', '7', '8', '9', '0', '1', '2', '3', '4', '5', '6', '7', '8', '9', '0'],
  -- value number/fraction-Exp
  ['[', '1', '.', '5', 'E', '-', '3', ']'],
  -- top-level number/fraction-Exp
  ['1', '.', '5', 'E', '-', '3'],
  -- value number/zero-exp
  ['[', '0', 'e', '0', ']'],
  -- top-level number/zero-exp
  ['0', 'e', '0'],
  -- value number/exp-leading-zeros
  ['[', '1', 'e', '0', '0', '7', ']'],
  -- top-level number/exp-leading-zeros
  ['1', 'e', '0', '0', '7'],
  -- value number/fraction-trailing-zeros
  ['[', '1', '.', '5', '0', '0', ']'],
  -- top-level number/fraction-trailing-zeros
  ['1', '.', '5', '0', '0'],
  -- value literal/true
  ['[', 't', 'r', 'u', 'e', ']'],
  -- top-level literal/true
  ['t', 'r', 'u', 'e'],
  -- value literal/false
  ['[', 'f', 'a', 'l', 's', 'e', ']'],
  -- top-level literal/false
  ['f', 'a', 'l', 's', 'e'],
  -- value literal/null
  ['[', 'n', 'u', 'l', 'l', ']'],
  -- top-level literal/null
  ['n', 'u', 'l', 'l'],
  -- value string/empty
  ['[', '"', '"', ']'],
  -- top-level string/empty
  ['"', '"'],
  -- value string/apostrophe
  ['[', '"', 'i', 't', '\'', 's', '"', ']'],
  -- top-level string/apostrophe
  ['"', 'i', 't', '\'', 's', '"'],
  -- value string/comment-inside
  ['[', '"', '/', '*', ' ', 'n', 'o', 't', ' ', 'a', ' ', 'c', 'o', 'm', 'm', 'e', 'n', 't', ' ', '*', '/', '"', ']'],
  -- top-level string/comment-inside
  ['"', '/', '*', ' ', 'n', 'o', 't', ' ', 'a', ' ', 'c', 'o', 'm', 'm', 'e', 'n', 't', ' ', '*', '/', '"'],
  -- value string/brackets-inside
  ['[', '"', '[', '1', ',', ']', '"', ']'],
  -- top-level string/brackets-inside
  ['"', '[', '1', ',', ']', '"'],
  -- value array/empty
  ['[', '[', ']', ']'],
  -- top-level array/empty
  ['[', ']'],
  -- value array/spaced
  ['[', '[', ' ', '1', ' ', ',', ' ', '2', ' ', ']', ']'],
  -- top-level array/spaced
  ['[', ' ', '1', ' ', ',', ' ', '2', ' ', ']'],
  -- value array/nested-empty
  ['[', '[', '[', ']', ',', ' ', '{', '}', ']', ']'],
  -- top-level array/nested-empty
  ['[', '[', ']', ',', ' ', '{', '}', ']'],
  -- value array/newlines
  ['[', '[', Char.ofNat 10, '1', ',', Char.ofNat 13, Char.ofNat 10, '2', Char.ofNat 9, ']', ']'],
  -- top-level array/newlines
  ['[', Char.ofNat 10, '1', ',', Char.ofNat 13, Char.ofNat 10, '2', Char.ofNat 9, ']'],
  -- value object/empty
  ['[', '{', '}', ']'],
  -- top-level object/empty
  ['{', '}'],
  -- value object/spaced
  ['[', '{', ' ', '"', 'a', '"', ' ', ':', ' ', '1', ' ', '}', ']'],
  -- top-level object/spaced
  ['{', ' ', '"', 'a', '"', ' ', ':', ' ', '1', ' ', '}'],
  -- value object/empty-name
  ['[', '{', '"', '"', ':', ' ', '0', '}', ']'],
  -- top-level object/empty-name
  ['{', '"', '"', ':', ' ', '0', '}'],
  -- value object/duplicate-names
  ['[', '{', '"', 'a', '"', ':', ' ', '1', ',', ' ', '"', 'a', '"', ':', ' ', '2', '}', ']'],
  -- top-level object/duplicate-names
  ['{', '"', 'a', '"', ':', ' ', '1', ',', ' ', '"', 'a', '"', ':', ' ', '2', '}'],
  -- value object/nested
  ['[', '{', '"', 'a', '"', ':', ' ', '{', '"', 'b', '"', ':', ' ', '[', 'n', 'u', 'l', 'l', ']', '}', '}', ']'],
  -- top-level object/nested
  ['{', '"', 'a', '"', ':', ' ', '{', '"', 'b', '"', ':', ' ', '[', 'n', 'u', 'l', 'l', ']', '}', '}'],
  -- between tokens ws/space
  ['[', '1', ',', ' ', '2', ']'],
  -- between tokens ws/tab
  ['[', '1', ',', Char.ofNat 9, '2', ']'],
  -- between tokens ws/LF
  ['[', '1', ',', Char.ofNat 10, '2', ']'],
  -- between tokens ws/CR
  ['[', '1', ',', Char.ofNat 13, '2', ']'],
  -- between tokens ws/CRLF
  ['[', '1', ',', Char.ofNat 13, Char.ofNat 10, '2', ']'],
  -- between tokens ws/mixed
  ['[', '1', ',', ' ', Char.ofNat 9, Char.ofNat 10, Char.ofNat 13, ' ', '2', ']'],
  -- between tokens ws/none
  ['[', '1', ',', '2', ']'],
  -- whole/padded
  [' ', Char.ofNat 13, Char.ofNat 10, Char.ofNat 9, '{', '"', 'i', 'd', '"', ':', ' ', '1', '}', Char.ofNat 10],
  -- whole/as-is
  ['{', '"', 'i', 'd', '"', ':', ' ', '1', '}'],
  -- escaped TAB in an argument
  ['{', '"', 'm', 'e', 't', 'h', 'o', 'd', '"', ':', ' ', '"', 'e', 'c', 'h', 'o', '"', ',', ' ', '"', 'p', 'a', 'r', 'a', 'm', 's', '"', ':', ' ', '[', '"', 'a', '\\', 't', 'b', '"', ']', ',', ' ', '"', 'i', 'd', '"', ':', ' ', '4', '}']
]

end JRV.JsonTextTable
