import JRV.Model.JsonText

/-
  JRV.Lemmas.JsonTextWs — `JSON-text = ws value ws` for the recogniser of JRV.Model.JsonText: white space
  (U+0020, U+0009, U+000A, U+000D) before and after the top-level value does not change `accepts` /
  `verdict` (`accepts_ws_wrap`, `verdict_ws_wrap`).

  Route: (1) one white-space character `w` after the text commutes with every scanner and, by induction on
  the fuel, with `value` / `elements` / `members` (`snocOK_all`); (2) no scanner returns more than it was
  given (`length_all`); (3) hence the result does not depend on the fuel once it is at least
  `2 * length + 1` (`value`) resp. `2 * length + 2` (`elements`, `members`) (`fuel_all`); (4) `accepts` is
  unchanged by one white-space character in front (`accepts_ws_cons`) or behind (`accepts_ws_snoc`), and the
  general statement follows by induction on `pre` and `post`.
-/
namespace JRV.JsonText

/-- Every character of the list is one of the four white-space characters of RFC 8259. -/
def allWs (l : List Char) : Bool := l.all isWs

/- ---------- what a white-space character is not ---------- -/

/-- Every test the recogniser makes on a character, except `isWs` itself and `isControl`, fails on a
    white-space character. -/
structure WsFacts (w : Char) : Prop where
  ws : isWs w = true
  n34 : (w.toNat == 34) = false
  n92 : (w.toNat == 92) = false
  n91 : (w.toNat == 91) = false
  n93 : (w.toNat == 93) = false
  n123 : (w.toNat == 123) = false
  n125 : (w.toNat == 125) = false
  n116 : (w.toNat == 116) = false
  n102 : (w.toNat == 102) = false
  n110 : (w.toNat == 110) = false
  n117 : (w.toNat == 117) = false
  n45 : (w.toNat == 45) = false
  n43 : (w.toNat == 43) = false
  n48 : (w.toNat == 48) = false
  n46 : (w.toNat == 46) = false
  n101 : (w.toNat == 101) = false
  n69 : (w.toNat == 69) = false
  n44 : (w.toNat == 44) = false
  n58 : (w.toNat == 58) = false
  digit : isDigit w = false
  digit19 : isDigit19 w = false
  hex : isHex w = false
  esc : isSimpleEscape w = false

theorem wsFacts {w : Char} (hw : isWs w = true) : WsFacts w := by
  have h : w.toNat = 32 ∨ w.toNat = 9 ∨ w.toNat = 10 ∨ w.toNat = 13 := by
    simp [isWs] at hw; omega
  rcases h with h | h | h | h <;>
    constructor <;> simp [isWs, isDigit, isDigit19, isHex, isSimpleEscape, h]

/- ---------- one white-space character after the text: the scanners ---------- -/

theorem skipWs_snoc_nil {w : Char} (hw : isWs w = true) (cs : List Char) (h : skipWs cs = []) :
    skipWs (cs ++ [w]) = [] := by
  induction cs with
  | nil => simp [skipWs, hw]
  | cons c rest ih =>
    simp only [skipWs, List.cons_append] at h ⊢
    split
    · rename_i hc; simp only [hc, if_true] at h; exact ih h
    · rename_i hc; simp [hc] at h

theorem skipWs_snoc_cons {w : Char} (cs : List Char) {d : Char} {r : List Char}
    (h : skipWs cs = d :: r) : skipWs (cs ++ [w]) = d :: (r ++ [w]) := by
  induction cs with
  | nil => simp [skipWs] at h
  | cons c rest ih =>
    simp only [skipWs, List.cons_append] at h ⊢
    split
    · rename_i hc; simp only [hc, if_true] at h; exact ih h
    · rename_i hc
      simp only [hc] at h
      simp at h
      obtain ⟨rfl, rfl⟩ := h
      rfl

theorem scanString_snoc {w : Char} (hw : isWs w = true) (cs : List Char) :
    scanString (cs ++ [w]) = (scanString cs).map (· ++ [w]) := by
  have F := wsFacts hw
  fun_induction scanString cs
  case case1 => cases h : isControl w <;> simp [scanString, F.n34, F.n92, h]
  case case3 => simp [scanString, *, F.n117, F.esc]
  case case6 c0 _ _ c rest h117 hx =>
    match rest, hx with
    | [], _ => simp [scanString, *]
    | [a], _ => simp [scanString, *]
    | [a, b], _ => simp [scanString, *]
    | [a, b, c], _ => simp [scanString, *, F.hex]
    | a :: b :: c :: d :: r, hx => exact (hx _ _ _ _ _ rfl).elim
  all_goals (simp only [List.cons_append]; rw [scanString.eq_def]; simp [*])

theorem skipDigits_snoc {w : Char} (hw : isWs w = true) (cs : List Char) :
    skipDigits (cs ++ [w]) = skipDigits cs ++ [w] := by
  have F := wsFacts hw
  induction cs with
  | nil => simp [skipDigits, F.digit]
  | cons c rest ih =>
    simp only [List.cons_append, skipDigits]
    split <;> simp [ih]

theorem digits1_snoc {w : Char} (hw : isWs w = true) (cs : List Char) :
    digits1 (cs ++ [w]) = (digits1 cs).map (· ++ [w]) := by
  have F := wsFacts hw
  cases cs with
  | nil => simp [digits1, F.digit]
  | cons c rest =>
    simp only [List.cons_append, digits1]
    split <;> simp [skipDigits_snoc hw]

theorem scanInt_snoc {w : Char} (hw : isWs w = true) (cs : List Char) :
    scanInt (cs ++ [w]) = (scanInt cs).map (· ++ [w]) := by
  have F := wsFacts hw
  cases cs with
  | nil => simp [scanInt, F.n48, F.digit19]
  | cons c rest =>
    simp only [List.cons_append, scanInt]
    split
    · simp
    · split <;> simp [skipDigits_snoc hw]

theorem scanFrac_snoc {w : Char} (hw : isWs w = true) (cs : List Char) :
    scanFrac (cs ++ [w]) = (scanFrac cs).map (· ++ [w]) := by
  have F := wsFacts hw
  cases cs with
  | nil => simp [scanFrac, F.n46]
  | cons c rest =>
    simp only [List.cons_append, scanFrac]
    split <;> simp [digits1_snoc hw]

theorem scanExp_snoc {w : Char} (hw : isWs w = true) (cs : List Char) :
    scanExp (cs ++ [w]) = (scanExp cs).map (· ++ [w]) := by
  have F := wsFacts hw
  match cs with
  | [] => simp [scanExp, F.n101, F.n69]
  | [c] =>
    simp only [List.cons_append, List.nil_append, scanExp]
    split <;> simp [F.n43, F.n45, digits1, F.digit]
  | c :: s :: rest =>
    simp only [List.cons_append, scanExp]
    split
    · split
      · exact digits1_snoc hw rest
      · exact digits1_snoc hw (s :: rest)
    · simp

/-- The number without its optional sign. -/
def numBody : List Char → List Char
  | [] => []
  | c :: rest => if c.toNat == 45 then rest else c :: rest

/-- `int [frac] [exp]`. -/
def numTail (body : List Char) : Option (List Char) :=
  match scanInt body with
  | none => none
  | some r1 =>
    match scanFrac r1 with
    | none => none
    | some r2 => scanExp r2

theorem scanNumber_eq (cs : List Char) : scanNumber cs = numTail (numBody cs) := by
  cases cs <;> rfl

theorem numTail_snoc {w : Char} (hw : isWs w = true) (body : List Char) :
    numTail (body ++ [w]) = (numTail body).map (· ++ [w]) := by
  unfold numTail
  rw [scanInt_snoc hw]
  cases scanInt body with
  | none => rfl
  | some r1 =>
    simp only [Option.map_some, scanFrac_snoc hw]
    cases scanFrac r1 with
    | none => rfl
    | some r2 => simp only [Option.map_some, scanExp_snoc hw]

theorem scanNumber_snoc {w : Char} (hw : isWs w = true) (cs : List Char) :
    scanNumber (cs ++ [w]) = (scanNumber cs).map (· ++ [w]) := by
  have F := wsFacts hw
  rw [scanNumber_eq, scanNumber_eq, ← numTail_snoc hw]
  congr 1
  cases cs with
  | nil => simp [numBody, F.n45]
  | cons c rest =>
    simp only [List.cons_append, numBody]
    split <;> rfl

theorem scanLiteral_snoc {w : Char} (hw : isWs w = true) (lit : List Char)
    (hlit : lit.all (fun l => !isWs l) = true) (cs : List Char) :
    scanLiteral lit (cs ++ [w]) = (scanLiteral lit cs).map (· ++ [w]) := by
  induction lit generalizing cs with
  | nil => simp [scanLiteral]
  | cons l lit ih =>
    simp only [List.all_cons, Bool.and_eq_true] at hlit
    cases cs with
    | nil =>
      have : (l == w) = false := by
        cases h : l == w
        · rfl
        · have := eq_of_beq h; subst this; simp [hw] at hlit
      simp [scanLiteral, this]
    | cons c rest =>
      simp only [List.cons_append, scanLiteral]
      split
      · exact ih hlit.2 rest
      · rfl

/- ---------- one white-space character after the text: values ---------- -/

@[simp] theorem value_nil (f : Nat) : value f [] = none := by cases f <;> simp [value]

@[simp] theorem elements_nil (f : Nat) : elements f [] = none := by cases f <;> simp [elements]

@[simp] theorem members_nil (f : Nat) : members f [] = none := by cases f <;> simp [members]

/-- `g` rejects the empty text and commutes with appending the white-space character `w`. -/
def SnocOK (w : Char) (g : List Char → Option (List Char)) : Prop :=
  g [] = none ∧ ∀ cs, g (cs ++ [w]) = (g cs).map (· ++ [w])

theorem SnocOK.skipWs {w : Char} (hw : isWs w = true) {g : List Char → Option (List Char)}
    (hg : SnocOK w g) (cs : List Char) :
    g (skipWs (cs ++ [w])) = (g (skipWs cs)).map (· ++ [w]) := by
  cases h : JsonText.skipWs cs with
  | nil => rw [skipWs_snoc_nil hw cs h, hg.1]; rfl
  | cons d r => rw [skipWs_snoc_cons cs h]; exact hg.2 (d :: r)

theorem snocOK_all {w : Char} (hw : isWs w = true) (f : Nat) :
    SnocOK w (value f) ∧ SnocOK w (elements f) ∧ SnocOK w (members f) := by
  have F := wsFacts hw
  induction f with
  | zero => simp [SnocOK, value, elements, members]
  | succ f ih =>
    obtain ⟨ihv, ihe, ihm⟩ := ih
    refine ⟨⟨value_nil _, ?_⟩, ⟨elements_nil _, ?_⟩, ⟨members_nil _, ?_⟩⟩
    · intro cs
      cases cs with
      | nil => simp [value, F.n34, F.n91, F.n123, F.n116, F.n102, F.n110, F.n45, F.digit]
      | cons c rest =>
        simp only [List.cons_append, value]
        split
        · exact scanString_snoc hw rest
        split
        · cases h : skipWs rest with
          | nil => rw [skipWs_snoc_nil hw rest h]; rfl
          | cons d r =>
            rw [skipWs_snoc_cons rest h]
            simp only
            split
            · rfl
            · exact ihe.2 (d :: r)
        split
        · cases h : skipWs rest with
          | nil => rw [skipWs_snoc_nil hw rest h]; rfl
          | cons d r =>
            rw [skipWs_snoc_cons rest h]
            simp only
            split
            · rfl
            · exact ihm.2 (d :: r)
        split
        · exact scanLiteral_snoc hw _ (by decide) rest
        split
        · exact scanLiteral_snoc hw _ (by decide) rest
        split
        · exact scanLiteral_snoc hw _ (by decide) rest
        split
        · exact scanNumber_snoc hw (c :: rest)
        · rfl
    · intro cs
      simp only [elements]
      rw [ihv.2 cs]
      cases value f cs with
      | none => rfl
      | some r =>
        simp only [Option.map_some]
        cases h : skipWs r with
        | nil => rw [skipWs_snoc_nil hw r h]; rfl
        | cons d rest =>
          rw [skipWs_snoc_cons r h]
          simp only
          split
          · exact ihe.skipWs hw rest
          · split <;> rfl
    · intro cs
      cases cs with
      | nil => simp [members, F.n34]
      | cons q cs =>
        simp only [List.cons_append, members]
        split
        · rw [scanString_snoc hw cs]
          cases scanString cs with
          | none => rfl
          | some r =>
            simp only [Option.map_some]
            cases h : skipWs r with
            | nil => rw [skipWs_snoc_nil hw r h]; rfl
            | cons colon r1 =>
              rw [skipWs_snoc_cons r h]
              simp only
              split
              · rw [ihv.skipWs hw r1]
                cases value f (skipWs r1) with
                | none => rfl
                | some r2 =>
                  simp only [Option.map_some]
                  cases h2 : skipWs r2 with
                  | nil => rw [skipWs_snoc_nil hw r2 h2]; rfl
                  | cons d rest =>
                    rw [skipWs_snoc_cons r2 h2]
                    simp only
                    split
                    · exact ihm.skipWs hw rest
                    · split <;> rfl
              · rfl
        · rfl

theorem value_snoc {w : Char} (hw : isWs w = true) (f : Nat) (cs : List Char) :
    value f (cs ++ [w]) = (value f cs).map (· ++ [w]) := (snocOK_all hw f).1.2 cs

/- ---------- no scanner returns more than it was given ---------- -/

theorem skipWs_length_le (cs : List Char) : (skipWs cs).length ≤ cs.length := by
  induction cs with
  | nil => simp [skipWs]
  | cons c rest ih => simp only [skipWs]; split <;> simp <;> omega

theorem skipWs_length_of_eq {cs : List Char} {d : Char} {r : List Char} (h : skipWs cs = d :: r) :
    r.length + 1 ≤ cs.length := by
  have := skipWs_length_le cs
  rw [h] at this
  simpa using this

theorem scanString_length {cs r : List Char} (h : scanString cs = some r) : r.length ≤ cs.length := by
  fun_induction scanString cs <;> simp_all <;> omega

theorem skipDigits_length_le (cs : List Char) : (skipDigits cs).length ≤ cs.length := by
  induction cs with
  | nil => simp [skipDigits]
  | cons c rest ih => simp only [skipDigits]; split <;> simp <;> omega

theorem digits1_length {cs r : List Char} (h : digits1 cs = some r) : r.length ≤ cs.length := by
  cases cs with
  | nil => simp [digits1] at h
  | cons c rest =>
    simp only [digits1] at h
    split at h
    · have := skipDigits_length_le rest
      simp at h; subst h; simp; omega
    · simp at h

theorem scanInt_length {cs r : List Char} (h : scanInt cs = some r) : r.length ≤ cs.length := by
  cases cs with
  | nil => simp [scanInt] at h
  | cons c rest =>
    have := skipDigits_length_le rest
    simp only [scanInt] at h
    split at h
    · simp at h; subst h; simp
    · split at h
      · simp at h; subst h; simp; omega
      · simp at h

theorem scanFrac_length {cs r : List Char} (h : scanFrac cs = some r) : r.length ≤ cs.length := by
  cases cs with
  | nil => simp [scanFrac] at h; subst h; simp
  | cons c rest =>
    simp only [scanFrac] at h
    split at h
    · have := digits1_length h; simp; omega
    · simp at h; subst h; simp

theorem scanExp_length {cs r : List Char} (h : scanExp cs = some r) : r.length ≤ cs.length := by
  match cs with
  | [] => simp [scanExp] at h; subst h; simp
  | [c] =>
    simp only [scanExp] at h
    split at h
    · simp at h
    · simp at h; subst h; simp
  | c :: s :: rest =>
    simp only [scanExp] at h
    split at h
    · split at h
      · have := digits1_length h; simp; omega
      · have := digits1_length h; simp at this ⊢; omega
    · simp at h; subst h; simp

theorem numTail_length {cs r : List Char} (h : numTail cs = some r) : r.length ≤ cs.length := by
  unfold numTail at h
  split at h
  · simp at h
  · rename_i r1 h1
    split at h
    · simp at h
    · rename_i r2 h2
      have := scanInt_length h1
      have := scanFrac_length h2
      have := scanExp_length h
      omega

theorem scanNumber_length {cs r : List Char} (h : scanNumber cs = some r) : r.length ≤ cs.length := by
  rw [scanNumber_eq] at h
  have := numTail_length h
  have : (numBody cs).length ≤ cs.length := by
    cases cs with
    | nil => simp [numBody]
    | cons c rest => simp only [numBody]; split <;> simp
  omega

theorem scanLiteral_length {lit cs r : List Char} (h : scanLiteral lit cs = some r) :
    r.length ≤ cs.length := by
  induction lit generalizing cs with
  | nil => simp [scanLiteral] at h; subst h; simp
  | cons l lit ih =>
    cases cs with
    | nil => simp [scanLiteral] at h
    | cons c rest =>
      simp only [scanLiteral] at h
      split at h
      · have := ih h; simp; omega
      · simp at h

theorem length_all (f : Nat) :
    (∀ cs r, value f cs = some r → r.length ≤ cs.length) ∧
    (∀ cs r, elements f cs = some r → r.length ≤ cs.length) ∧
    (∀ cs r, members f cs = some r → r.length ≤ cs.length) := by
  induction f with
  | zero => simp [value, elements, members]
  | succ f ih =>
    obtain ⟨ihv, ihe, ihm⟩ := ih
    refine ⟨?_, ?_, ?_⟩
    · intro cs r h
      cases cs with
      | nil => simp at h
      | cons c rest =>
        simp only [value] at h
        simp only [List.length_cons]
        split at h
        · have := scanString_length h; omega
        split at h
        · split at h
          · simp at h
          · rename_i d r1 hs
            have := skipWs_length_of_eq hs
            split at h
            · simp at h; subst h; omega
            · have := ihe _ _ h; simp at this; omega
        split at h
        · split at h
          · simp at h
          · rename_i d r1 hs
            have := skipWs_length_of_eq hs
            split at h
            · simp at h; subst h; omega
            · have := ihm _ _ h; simp at this; omega
        split at h
        · have := scanLiteral_length h; omega
        split at h
        · have := scanLiteral_length h; omega
        split at h
        · have := scanLiteral_length h; omega
        split at h
        · have := scanNumber_length h; simp at this; omega
        · simp at h
    · intro cs r h
      simp only [elements] at h
      split at h
      · simp at h
      · rename_i r0 hv
        have := ihv _ _ hv
        split at h
        · simp at h
        · rename_i d rest hs
          have := skipWs_length_of_eq hs
          split at h
          · have := ihe _ _ h
            have := skipWs_length_le rest
            omega
          · split at h
            · simp at h; subst h; omega
            · simp at h
    · intro cs r h
      cases cs with
      | nil => simp at h
      | cons q cs =>
        simp only [members] at h
        simp only [List.length_cons]
        split at h
        · split at h
          · simp at h
          · rename_i r0 hstr
            have := scanString_length hstr
            split at h
            · simp at h
            · rename_i colon r1 hs
              have := skipWs_length_of_eq hs
              split at h
              · split at h
                · simp at h
                · rename_i r2 hv
                  have := ihv _ _ hv
                  have := skipWs_length_le r1
                  split at h
                  · simp at h
                  · rename_i d rest hs2
                    have := skipWs_length_of_eq hs2
                    split at h
                    · have := ihm _ _ h
                      have := skipWs_length_le rest
                      omega
                    · split at h
                      · simp at h; subst h; omega
                      · simp at h
              · simp at h
        · simp at h

theorem value_length {f : Nat} {cs r : List Char} (h : value f cs = some r) : r.length ≤ cs.length :=
  (length_all f).1 cs r h

/- ---------- enough fuel is enough ---------- -/

theorem fuel_all (f : Nat) : ∀ g,
    (∀ cs : List Char, 2 * cs.length + 1 ≤ f → 2 * cs.length + 1 ≤ g → value f cs = value g cs) ∧
    (∀ cs : List Char, 2 * cs.length + 2 ≤ f → 2 * cs.length + 2 ≤ g → elements f cs = elements g cs) ∧
    (∀ cs : List Char, 2 * cs.length + 2 ≤ f → 2 * cs.length + 2 ≤ g → members f cs = members g cs) := by
  induction f with
  | zero => intro g; refine ⟨?_, ?_, ?_⟩ <;> intros <;> omega
  | succ f ih =>
    intro g
    cases g with
    | zero => refine ⟨?_, ?_, ?_⟩ <;> intros <;> omega
    | succ g =>
      obtain ⟨ihv, ihe, ihm⟩ := ih g
      refine ⟨?_, ?_, ?_⟩
      · intro cs hf hg
        cases cs with
        | nil => simp
        | cons c rest =>
          simp only [List.length_cons] at hf hg
          cases h : skipWs rest with
          | nil => simp only [value, h]
          | cons d r1 =>
            have := skipWs_length_of_eq h
            simp only [value, h]
            rw [ihe (d :: r1) (by simp; omega) (by simp; omega),
              ihm (d :: r1) (by simp; omega) (by simp; omega)]
      · intro cs hf hg
        simp only [elements]
        rw [ihv cs (by omega) (by omega)]
        cases hv : value g cs with
        | none => rfl
        | some r =>
          have := value_length hv
          simp only
          cases hs : skipWs r with
          | nil => rfl
          | cons d rest =>
            have := skipWs_length_of_eq hs
            have := skipWs_length_le rest
            simp only
            rw [ihe (skipWs rest) (by omega) (by omega)]
      · intro cs hf hg
        cases cs with
        | nil => simp
        | cons q cs =>
          simp only [List.length_cons] at hf hg
          simp only [members]
          cases hstr : scanString cs with
          | none => rfl
          | some r =>
            have := scanString_length hstr
            simp only
            cases hs : skipWs r with
            | nil => rfl
            | cons colon r1 =>
              have := skipWs_length_of_eq hs
              have := skipWs_length_le r1
              simp only
              rw [ihv (skipWs r1) (by omega) (by omega)]
              cases hv : value g (skipWs r1) with
              | none => rfl
              | some r2 =>
                have := value_length hv
                simp only
                cases hs2 : skipWs r2 with
                | nil => rfl
                | cons d rest =>
                  have := skipWs_length_of_eq hs2
                  have := skipWs_length_le rest
                  simp only
                  rw [ihm (skipWs rest) (by omega) (by omega)]

theorem value_fuel {f g : Nat} {cs : List Char} (hf : 2 * cs.length + 1 ≤ f) (hg : 2 * cs.length + 1 ≤ g) :
    value f cs = value g cs := (fuel_all f g).1 cs hf hg

/- ---------- JSON-text = ws value ws ---------- -/

theorem accepts_ws_cons {w : Char} (hw : isWs w = true) (cs : List Char) :
    accepts (w :: cs) = accepts cs := by
  have := skipWs_length_le cs
  unfold accepts
  simp only [skipWs, hw, if_true, List.length_cons]
  rw [value_fuel (f := 2 * (cs.length + 1) + 4) (g := 2 * cs.length + 4) (by omega) (by omega)]

theorem accepts_ws_snoc {w : Char} (hw : isWs w = true) (cs : List Char) :
    accepts (cs ++ [w]) = accepts cs := by
  unfold accepts
  cases h : skipWs cs with
  | nil => simp [skipWs_snoc_nil hw cs h]
  | cons d r =>
    have := skipWs_length_of_eq h
    rw [skipWs_snoc_cons cs h, ← List.cons_append, value_snoc hw,
      value_fuel (f := 2 * (cs ++ [w]).length + 4) (g := 2 * cs.length + 4)
        (by simp; omega) (by simp; omega)]
    cases value (2 * cs.length + 4) (d :: r) with
    | none => rfl
    | some rest =>
      simp only [Option.map_some]
      cases h2 : skipWs rest with
      | nil => rw [skipWs_snoc_nil hw rest h2]
      | cons d2 r2 => rw [skipWs_snoc_cons rest h2]; rfl

theorem accepts_ws_prefix (pre cs : List Char) (hpre : allWs pre = true) :
    accepts (pre ++ cs) = accepts cs := by
  induction pre with
  | nil => rfl
  | cons w pre ih =>
    simp only [allWs, List.all_cons, Bool.and_eq_true] at hpre
    rw [List.cons_append, accepts_ws_cons hpre.1]
    exact ih hpre.2

theorem accepts_ws_suffix (cs post : List Char) (hpost : allWs post = true) :
    accepts (cs ++ post) = accepts cs := by
  induction post generalizing cs with
  | nil => simp
  | cons w post ih =>
    simp only [allWs, List.all_cons, Bool.and_eq_true] at hpost
    have : cs ++ w :: post = (cs ++ [w]) ++ post := by simp
    rw [this, ih _ hpost.2, accepts_ws_snoc hpost.1]

/-- `JSON-text = ws value ws`: insignificant white space before and after the top-level value does not
    change the verdict. -/
theorem accepts_ws_wrap (pre cs post : List Char) (hpre : allWs pre = true) (hpost : allWs post = true) :
    accepts (pre ++ cs ++ post) = accepts cs := by
  rw [accepts_ws_suffix _ _ hpost, accepts_ws_prefix _ _ hpre]

theorem verdict_ws_wrap (pre cs post : List Char) (hpre : allWs pre = true) (hpost : allWs post = true) :
    verdict (pre ++ cs ++ post) = verdict cs := by
  unfold verdict
  rw [accepts_ws_wrap pre cs post hpre hpost]

/- ---------- the statements are not vacuous ---------- -/

example : allWs [' ', '\t', '\n', '\r'] = true := by decide +kernel

example : allWs ['\n', 'x'] = false := by decide +kernel

example : verdict "\n{\"a\": 1} ".toList = .wellFormed := by decide +kernel

example : verdict "{\"a\": 1}".toList = .wellFormed := by decide +kernel

example : verdict " \t\r\n[1, 2 ,{\"k\" : [true , null]}]\n\n".toList = .wellFormed := by decide +kernel

example : verdict " \t{\"a\": 1,} ".toList = .malformed := by decide +kernel

example : verdict "{\"a\": 1,}".toList = .malformed := by decide +kernel

/-- A white-space character inside a token is significant: the theorem is about the two ends only. -/
example : verdict "tr ue".toList = .malformed ∧ verdict " true ".toList = .wellFormed := by decide +kernel

/-- Other blank characters (here U+000B, U+00A0) are not white space of the grammar. -/
example : verdict [Char.ofNat 11, '1'] = .malformed ∧ verdict [Char.ofNat 160, '1'] = .malformed ∧
    allWs [Char.ofNat 11] = false ∧ allWs [Char.ofNat 160] = false := by decide +kernel

end JRV.JsonText
