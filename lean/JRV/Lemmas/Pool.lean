/-
  Shared lemmas about JRV.Model.Pool: list counting, the helper operations, and the inductive
  invariants from which C09–C11 are derived.
-/
import JRV.Model.Pool

set_option linter.unusedSimpArgs false
set_option linter.unusedVariables false

namespace JRV.Pool

/- `step_cases`: case split of a hypothesis `h : workerStep … = some s'` / `clientStep … = some s'` (already unfolded):
   one goal per transition, with `s'` substituted by the explicit successor state and the guards in the context. -/
set_option hygiene false in
macro "step_cases" : tactic => `(tactic|
  (split at h <;> (try split at h) <;> (try split at h) <;> (try split at h) <;> simp at h <;>
   (first | subst h | (obtain ⟨hg, h⟩ := h; subst h) | (obtain ⟨hg, hg2, h⟩ := h; subst h)
          | (obtain ⟨hg, hg2, hg3, h⟩ := h; subst h) | (obtain ⟨⟨hg, hg2⟩, h⟩ := h; subst h))))

/-! ### list counting -/

theorem countP_set_add {α} (p : α → Bool) (l : List α) (i : Nat) (a w : α) (h : l[i]? = some w) :
    (l.set i a).countP p + (if p w then 1 else 0) = l.countP p + (if p a then 1 else 0) := by
  induction l generalizing i with
  | nil => simp at h
  | cons x xs ih =>
    cases i with
    | zero =>
      simp at h; subst h
      simp [List.countP_cons]; omega
    | succ n =>
      simp at h
      have := ih n h
      simp [List.countP_cons]; omega

theorem countP_ge {α} (p : α → Bool) {l : List α} {i : Nat} {w : α} (h : l[i]? = some w) :
    (if p w then 1 else 0) ≤ l.countP p := by
  have := countP_set_add p l i w w h
  split
  · have hm : w ∈ l := List.mem_of_getElem? h
    have := List.countP_pos_iff.mpr ⟨w, hm, by assumption⟩
    omega
  · omega

theorem countP_set_eq {α} (p : α → Bool) {l : List α} {i : Nat} {w : α} (h : l[i]? = some w) (a : α) :
    (l.set i a).countP p = l.countP p - (if p w then 1 else 0) + (if p a then 1 else 0) := by
  have h1 := countP_set_add p l i a w h
  have h2 := countP_ge p h
  omega

theorem countP_map_eq {α} (p : α → Bool) (f : α → α) (l : List α) (h : ∀ x, p (f x) = p x) :
    (l.map f).countP p = l.countP p := by
  induction l with
  | nil => rfl
  | cons x xs ih => simp [List.countP_cons, h, ih]

theorem countP_set_map_eq {α} (p : α → Bool) (f : α → α) (hp : ∀ x, p (f x) = p x) {l : List α} {i : Nat} {w : α}
    (h : l[i]? = some w) (a : α) :
    ((l.map f).set i a).countP p = l.countP p - (if p w then 1 else 0) + (if p a then 1 else 0) := by
  have h' : (l.map f)[i]? = some (f w) := by simp [h]
  rw [countP_set_eq p h' a, countP_map_eq p f l hp, hp]

/-! ### unfinished-task accounting -/

/-- The worker holds an item it took from the queue and has not yet called `task_done` for it. -/
def wHoldsItem (w : Worker) : Bool :=
  match w.pc with
  | .sentDone | .actAcq | .actRel | .begin | .body | .futSet | .taskDone => true
  | _ => false

def cHoldsItem (c : Client) : Bool :=
  match c.pc with
  | .clrDone _ => true
  | _ => false

@[simp] theorem cHoldsItem_notify (c : Client) : cHoldsItem (notifyClient c) = cHoldsItem c := by
  cases c with | mk pc ret => cases pc <;> simp [notifyClient, cHoldsItem]

@[simp] theorem cHoldsItem_notifyIf (b : Bool) (c : Client) : cHoldsItem (notifyIf b c) = cHoldsItem c := by
  unfold notifyIf; split <;> simp

@[simp] theorem countP_cHoldsItem_notify (b : Bool) (l : List Client) :
    (l.map (notifyIf b)).countP cHoldsItem = l.countP cHoldsItem :=
  countP_map_eq _ _ _ (cHoldsItem_notifyIf b)

/-- `unfinished_tasks` = items in the queue + items taken and not yet `task_done`. -/
def UnfInv (s : State) : Prop :=
  s.unfinished = s.queue.length + s.workers.countP wHoldsItem + s.clients.countP cHoldsItem

theorem UnfInv_worker {s s' : State} {i : Nat} {w : Worker} {op : Op} {tmo : Bool}
    (hw : s.workers[i]? = some w) (hI : UnfInv s) (h : workerStep s i w op tmo = some s') : UnfInv s' := by
  have hle := countP_ge wHoldsItem hw
  unfold workerStep at h
  step_cases
  all_goals (
    simp only [UnfInv, setWorker, tdone, acq, rel, updTask, countP_set_eq wHoldsItem hw,
      countP_cHoldsItem_notify] at hI ⊢
    generalize List.countP wHoldsItem s.workers = n at *
    simp [wHoldsItem, *] at hle ⊢
    try omega)

theorem wHoldsItem_new : wHoldsItem {} = false := rfl

theorem UnfInv_client {s s' : State} {i : Nat} {c : Client} {op : Op} {tmo : Bool}
    (hc : s.clients[i]? = some c) (hI : UnfInv s) (h : clientStep s i c op tmo = some s') : UnfInv s' := by
  have hle := countP_ge cHoldsItem hc
  unfold clientStep at h
  step_cases
  all_goals (
    simp only [UnfInv, setClient, tdone, acq, rel, updTask, put, spawnWorker, countP_set_eq cHoldsItem hc,
      countP_set_map_eq cHoldsItem _ (cHoldsItem_notifyIf _) hc, apply_ite State.workers, apply_ite State.queue,
      apply_ite State.unfinished, apply_ite State.clients,
      apply_ite (fun l => List.set l i _), apply_ite (List.countP cHoldsItem), ite_self, List.countP_append, List.length_append] at hI ⊢
    generalize List.countP cHoldsItem s.clients = n at *
    simp [cHoldsItem, wHoldsItem, *] at hle ⊢
    try omega)

/-! ### the three counters are exact -/

/-- Counted in `nb_threads`: started, has not yet executed its decrement. -/
def counted (w : Worker) : Bool :=
  match w.pc with
  | .exitRel | .dead => false
  | _ => !w.cleaned

/-- Counted in `nb_active_threads`. -/
def active (w : Worker) : Bool :=
  match w.pc with
  | .actRel | .begin | .body | .futSet | .taskDone | .finAcq => true
  | _ => false

/-- Holds a task that is still counted in `nb_pending_task` (from `queue.get` to the decrement). -/
def wHasTask (w : Worker) : Bool :=
  match w.pc with
  | .actAcq | .actRel | .begin | .body | .futSet | .taskDone | .finAcq => true
  | _ => false

def cHoldsTask (c : Client) : Bool :=
  match c.pc with
  | .clrDone (.task _) => true
  | _ => false

def isTask : Item → Bool
  | .task _ => true
  | .sentinel => false

@[simp] theorem cHoldsTask_notifyIf (b : Bool) (c : Client) : cHoldsTask (notifyIf b c) = cHoldsTask c := by
  cases c with | mk pc ret => cases pc <;> cases b <;> simp [notifyIf, notifyClient, cHoldsTask]

@[simp] theorem countP_cHoldsTask_notify (b : Bool) (l : List Client) :
    (l.map (notifyIf b)).countP cHoldsTask = l.countP cHoldsTask :=
  countP_map_eq _ _ _ (cHoldsTask_notifyIf b)

def exiting (pc : WPc) : Bool :=
  match pc with
  | .retRelExit | .exitAcq | .exitRel | .dead => true
  | _ => false

/-- `already_cleaned` is only set on the way out. -/
def CleanInv (s : State) : Prop :=
  ∀ (j : Nat) (w : Worker), s.workers[j]? = some w → w.cleaned = true → exiting w.pc = true

theorem CleanInv_worker {s s' : State} {i : Nat} {w : Worker} {op : Op} {tmo : Bool}
    (hw : s.workers[i]? = some w) (hI : CleanInv s) (h : workerStep s i w op tmo = some s') : CleanInv s' := by
  have hme := hI i w hw
  unfold workerStep at h
  step_cases
  all_goals (
    unfold CleanInv at *
    intro j w' hj
    simp only [setWorker, tdone, acq, rel, updTask, List.getElem?_set] at hj
    split at hj
    · split at hj <;> simp at hj
      subst hj
      simp_all [exiting]
    · exact hI j w' hj)

theorem CleanInv_client {s s' : State} {i : Nat} {c : Client} {op : Op} {tmo : Bool}
    (hI : CleanInv s) (h : clientStep s i c op tmo = some s') : CleanInv s' := by
  unfold clientStep at h
  step_cases
  all_goals (
    unfold CleanInv at *
    intro j w' hj
    simp only [setClient, tdone, acq, rel, updTask, put, spawnWorker, apply_ite State.workers] at hj
    try (split at hj)
    all_goals (first
      | exact hI j w' hj
      | (rw [List.getElem?_append] at hj
         split at hj
         · exact hI j w' hj
         · have : w' = {} := by
             have := List.mem_of_getElem? hj
             simp at this; exact this
           subst this; intro hc; simp at hc)))

structure CountInv (s : State) : Prop where
  threads : s.nbThreads = s.workers.countP counted
  active : s.nbActive = s.workers.countP active
  pending : s.nbPending = s.queue.countP isTask + s.workers.countP wHasTask + s.clients.countP cHoldsTask

theorem CountInv_worker {s s' : State} {i : Nat} {w : Worker} {op : Op} {tmo : Bool}
    (hw : s.workers[i]? = some w) (hcl : w.cleaned = true → exiting w.pc = true)
    (hI : CountInv s) (h : workerStep s i w op tmo = some s') : CountInv s' := by
  have hle1 := countP_ge counted hw
  have hle2 := countP_ge active hw
  have hle3 := countP_ge wHasTask hw
  obtain ⟨h1, h2, h3⟩ := hI
  unfold workerStep at h
  step_cases
  all_goals (
    refine ⟨?_, ?_, ?_⟩ <;>
    simp only [setWorker, tdone, acq, rel, updTask, countP_set_eq _ hw, countP_cHoldsTask_notify] at h1 h2 h3 ⊢ <;>
    generalize List.countP counted s.workers = n1 at * <;>
    generalize List.countP active s.workers = n2 at * <;>
    generalize List.countP wHasTask s.workers = n3 at * <;>
    simp [counted, active, wHasTask, isTask, exiting, List.countP_cons, *] at hcl hle1 hle2 hle3 h3 ⊢ <;>
    (try simp [hcl] at hle1 ⊢) <;>
    try omega)

theorem CountInv_client {s s' : State} {i : Nat} {c : Client} {op : Op} {tmo : Bool}
    (hc : s.clients[i]? = some c) (hI : CountInv s) (h : clientStep s i c op tmo = some s') : CountInv s' := by
  have hle := countP_ge cHoldsTask hc
  obtain ⟨h1, h2, h3⟩ := hI
  unfold clientStep at h
  step_cases
  all_goals (
    refine ⟨?_, ?_, ?_⟩ <;>
    simp only [setClient, tdone, acq, rel, updTask, put, spawnWorker, countP_set_eq cHoldsTask hc,
      countP_set_map_eq cHoldsTask _ (cHoldsTask_notifyIf _) hc, apply_ite State.workers, apply_ite State.queue,
      apply_ite State.nbThreads, apply_ite State.nbActive, apply_ite State.nbPending, apply_ite State.clients,
      apply_ite (fun l => List.set l i _), List.countP_append] at h1 h2 h3 ⊢ <;>
    generalize List.countP cHoldsTask s.clients = n at * <;>
    simp [cHoldsTask, counted, active, wHasTask, isTask, List.countP_cons, *] at hle h3 ⊢ <;>
    (try split) <;>
    try omega)

/-! ### reachability -/

theorem Reach.induct {P : State → Prop} {s0 : State} (h0 : P s0)
    (hstep : ∀ s a s', Reach s0 s → P s → step? s a = some s' → P s') : ∀ s, Reach s0 s → P s := by
  intro s hr
  induction hr with
  | refl => exact h0
  | step a hr hs ih => exact hstep _ a _ hr ih hs

/-- The counting invariants bundled. -/
structure BaseInv (s : State) : Prop where
  unf : UnfInv s
  clean : CleanInv s
  count : CountInv s

theorem BaseInv_init (cfg : Config) (n : Nat) : BaseInv (init cfg n) := by
  refine ⟨?_, ?_, ⟨?_, ?_, ?_⟩⟩
  · simp [UnfInv, init, cHoldsItem, List.countP_replicate]
  · intro j w h; simp [init] at h
  · simp [init]
  · simp [init]
  · simp [init, cHoldsTask, List.countP_replicate]

theorem BaseInv_step {s s' : State} {a : Action} (hI : BaseInv s) (h : step? s a = some s') : BaseInv s' := by
  unfold step? at h
  split at h
  · split at h
    · rename_i i w hw
      exact ⟨UnfInv_worker hw hI.unf h, CleanInv_worker hw hI.clean h, CountInv_worker hw (hI.clean _ _ hw) hI.count h⟩
    · simp at h
  · split at h
    · rename_i i c hc
      exact ⟨UnfInv_client hc hI.unf h, CleanInv_client hI.clean h, CountInv_client hc hI.count h⟩
    · simp at h

theorem BaseInv_reach {cfg : Config} {n : Nat} {s : State} (hr : Reach (init cfg n) s) : BaseInv s :=
  Reach.induct (BaseInv_init cfg n) (fun _ _ _ _ hI h => BaseInv_step hI h) s hr

end JRV.Pool
