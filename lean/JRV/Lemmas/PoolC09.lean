/-
  Invariants behind the C09 theorems (future faithfulness, nothing runs after stop(), FIFO with one worker, progress).

    PoolC09Base  reachability is transitive, steps keep the configuration
    PoolC09Fut   FutInv   : future flags / outcome tokens
    PoolC09Obs   a done future keeps its flag, value and outcome along every run (done() then result())
    PoolC09Lock  LockInv  : exact mutual exclusion of the pool lock (clients and workers)
    PoolC09Stop  StopInv  : the controlling thread's stop() — flag, thread list, join loop
    PoolC09Fifo  TaskFrame, FifoPair : one step = one task event; order of acceptance with a single worker
    PoolC09Live  NoSentInv, ServInv, GrowInv : a queued task of a running pool has a serving worker
    PoolC09Prog  enabledness of worker actions, the variant `progressMeasure`
-/
import JRV.Lemmas.PoolC09Fut
import JRV.Lemmas.PoolC09Obs
import JRV.Lemmas.PoolC09Lock
import JRV.Lemmas.PoolC09Stop
import JRV.Lemmas.PoolC09Fifo
import JRV.Lemmas.PoolC09Live
import JRV.Lemmas.PoolC09Prog
