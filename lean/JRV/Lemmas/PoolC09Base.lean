/-
  C09, generic facts about runs of the pool model: reachability is transitive, steps keep the configuration.
-/
import JRV.Lemmas.Pool

set_option linter.unusedSimpArgs false
set_option linter.unusedVariables false

namespace JRV.Pool

theorem Reach.trans {s0 s s' : State} (h1 : Reach s0 s) (h2 : Reach s s') : Reach s0 s' := by
  induction h2 with
  | refl => exact h1
  | step a _ hs ih => exact Reach.step a ih hs

/-- Steps do not change the configuration. -/
theorem step_cfg {s s' : State} {a : Action} (h : step? s a = some s') : s'.cfg = s.cfg := by
  unfold step? at h
  split at h
  · split at h
    · rename_i i w hw
      unfold workerStep at h
      step_cases <;> rfl
    · simp at h
  · split at h
    · rename_i i c hc
      unfold clientStep at h
      step_cases <;> rfl
    · simp at h

theorem reach_cfg {s0 s : State} (hr : Reach s0 s) : s.cfg = s0.cfg := by
  induction hr with
  | refl => rfl
  | step a _ hs ih => rw [step_cfg hs, ih]

end JRV.Pool
