/-
  C09, "with a single worker tasks start in submission order".

  `step_task_frame`: what one step does to the phases of the tasks and to the queue (one of seven events).
  `FifoPair a b`: for a task `a` accepted before task `b` — while `a` waits in the queue, `b` is not yet accepted or waits
  behind it; while `a` is held by the (single) worker, `b` has not been taken by a worker.
-/
import JRV.Lemmas.PoolC09Base
import JRV.Lemmas.PoolLock
import JRV.Lemmas.PoolTask2

set_option linter.unusedSimpArgs false
set_option linter.unusedVariables false

namespace JRV.Pool

/-- The phase of task `t`, `none` when the task does not exist (yet). -/
def phaseAt (s : State) (t : Nat) : Option Phase := (s.tasks[t]?).map (·.phase)

theorem phaseAt_eq_some {s : State} {t : Nat} {ph : Phase} :
    phaseAt s t = some ph ↔ ∃ tk, s.tasks[t]? = some tk ∧ tk.phase = ph := by
  unfold phaseAt
  cases s.tasks[t]? <;> simp

theorem phaseAt_modify_ne {s : State} {tasks : List Task} {t0 t : Nat} {f : Task → Task} (h : t0 ≠ t) :
    ((tasks.modify t0 f)[t]?).map (·.phase) = (tasks[t]?).map (·.phase) := by
  rw [getElem?_modify_ne h]

/-- One step is one of: nothing that concerns tasks (possibly a sentinel put / taken), a new task record, a task put
    in the queue, the head task taken by a worker at `queue.get`, the head task dropped by `clear()`, the task held by a
    worker begun or ended. -/
def TaskFrame (s s' : State) : Prop :=
  ((∀ t, phaseAt s' t = phaseAt s t) ∧
      (s'.queue = s.queue ∨ s'.queue = s.queue ++ [.sentinel] ∨ s.queue = .sentinel :: s'.queue)) ∨
  (s'.queue = s.queue ∧ phaseAt s s.tasks.length = none ∧ phaseAt s' s.tasks.length = some .created ∧
      ∀ t, t ≠ s.tasks.length → phaseAt s' t = phaseAt s t) ∨
  (∃ t0, s'.queue = s.queue ++ [.task t0] ∧ phaseAt s t0 = some .created ∧ phaseAt s' t0 = some .queued ∧
      ∀ t, t ≠ t0 → phaseAt s' t = phaseAt s t) ∨
  (∃ (t0 i : Nat) (w : Worker), s.queue = .task t0 :: s'.queue ∧ s.workers[i]? = some w ∧ w.pc = .get ∧ phaseAt s' t0 = some .held ∧
      ∀ t, t ≠ t0 → phaseAt s' t = phaseAt s t) ∨
  (∃ t0, s.queue = .task t0 :: s'.queue ∧ phaseAt s' t0 = some .dropped ∧
      ∀ t, t ≠ t0 → phaseAt s' t = phaseAt s t) ∨
  (∃ t0, s'.queue = s.queue ∧
      ((phaseAt s t0 = some .held ∧ phaseAt s' t0 = some .running) ∨
       (phaseAt s t0 = some .running ∧ phaseAt s' t0 = some .finished)) ∧
      ∀ t, t ≠ t0 → phaseAt s' t = phaseAt s t)

/-- A worker step: nothing that concerns tasks (possibly a sentinel taken), the head task taken, or the held task begun
    or ended. -/
theorem worker_task_frame3 {s s' : State} {i : Nat} {w : Worker} {op : Op} {tmo : Bool}
    (hw : s.workers[i]? = some w) (hT : TaskInv s) (h : workerStep s i w op tmo = some s') :
    ((∀ t, phaseAt s' t = phaseAt s t) ∧ (s'.queue = s.queue ∨ s.queue = .sentinel :: s'.queue)) ∨
    (∃ (t0 : Nat), s.queue = .task t0 :: s'.queue ∧ w.pc = .get ∧ phaseAt s' t0 = some .held ∧
        ∀ t, t ≠ t0 → phaseAt s' t = phaseAt s t) ∨
    (∃ t0, s'.queue = s.queue ∧
        ((phaseAt s t0 = some .held ∧ phaseAt s' t0 = some .running) ∨
         (phaseAt s t0 = some .running ∧ phaseAt s' t0 = some .finished)) ∧
        ∀ t, t ≠ t0 → phaseAt s' t = phaseAt s t) := by
  have hwh := hT.wheld i w hw
  unfold workerStep at h
  step_cases
  all_goals (
    try clear h
    first
    | exact Or.inl ⟨fun _ => rfl, Or.inl rfl⟩
    | skip)
  · -- get: sentinel
    rename_i rest hqueue
    exact Or.inl ⟨fun _ => rfl, Or.inr hqueue⟩
  · -- get: task
    rename_i hpc _ t0 rest hqueue hlt0
    refine Or.inr (Or.inl ⟨t0, hqueue, hpc, ?_, ?_⟩)
    · simp [phaseAt, setWorker, updTask, hlt0]
    · intro t hne
      simp only [phaseAt, setWorker, updTask]
      rw [getElem?_modify_ne (Ne.symm hne)]
  · -- begin
    rename_i hpc _ t0 hheld hlt0
    obtain ⟨t1, tk, g1, g2, _, g4⟩ := hwh .held (by simp [phaseOfPc, hpc])
    rw [hheld] at g1; cases g1
    refine Or.inr (Or.inr ⟨t0, rfl, Or.inl ⟨?_, ?_⟩, ?_⟩)
    · exact phaseAt_eq_some.mpr ⟨tk, g2, g4⟩
    · simp [phaseAt, setWorker, updTask, hlt0]
    · intro t hne
      simp only [phaseAt, setWorker, updTask]
      rw [getElem?_modify_ne (Ne.symm hne)]
  · -- task.end
    rename_i hpc _ t0 hheld hlt0
    obtain ⟨t1, tk, g1, g2, _, g4⟩ := hwh .running (by simp [phaseOfPc, hpc])
    rw [hheld] at g1; cases g1
    refine Or.inr (Or.inr ⟨t0, rfl, Or.inr ⟨?_, ?_⟩, ?_⟩)
    · exact phaseAt_eq_some.mpr ⟨tk, g2, g4⟩
    · simp [phaseAt, setWorker, updTask, hlt0]
    · intro t hne
      simp only [phaseAt, setWorker, updTask]
      rw [getElem?_modify_ne (Ne.symm hne)]
  · -- fut.set
    rename_i hpc _ t0 hheld hlt0
    refine Or.inl ⟨fun t => ?_, Or.inl rfl⟩
    simp only [phaseAt, setWorker, updTask]
    by_cases he : t0 = t
    · subst he
      cases htk : s.tasks[t0]? with
      | none => simp [List.getElem?_modify, htk]
      | some tk => rw [getElem?_modify_eq htk]; rfl
    · rw [getElem?_modify_ne he]

theorem worker_task_frame {s s' : State} {i : Nat} {w : Worker} {op : Op} {tmo : Bool}
    (hw : s.workers[i]? = some w) (hT : TaskInv s) (h : workerStep s i w op tmo = some s') : TaskFrame s s' := by
  rcases worker_task_frame3 hw hT h with ⟨g, hq⟩ | ⟨t0, hq, hpc, h0, g⟩ | ⟨t0, hq, h0, g⟩
  · rcases hq with hq | hq
    · exact Or.inl ⟨g, Or.inl hq⟩
    · exact Or.inl ⟨g, Or.inr (Or.inr hq)⟩
  · exact Or.inr (Or.inr (Or.inr (Or.inl ⟨t0, i, w, hq, hw, hpc, h0, g⟩)))
  · exact Or.inr (Or.inr (Or.inr (Or.inr (Or.inr ⟨t0, hq, h0, g⟩))))

theorem client_task_frame {s s' : State} {i : Nat} {c : Client} {op : Op} {tmo : Bool}
    (hc : s.clients[i]? = some c) (hT : TaskInv s) (h : clientStep s i c op tmo = some s') : TaskFrame s s' := by
  have hce := hT.cenq i c hc
  have hput : ∀ (t0 : Nat) (tasks' : List Task), c.pc = .enqPut t0 →
      tasks' = s.tasks.modify t0 (fun x => { x with phase := .queued }) →
      (tasks'[t0]?).map (·.phase) = some .queued ∧ phaseAt s t0 = some .created ∧
      ∀ t, t ≠ t0 → (tasks'[t]?).map (·.phase) = phaseAt s t := by
    intro t0 tasks' hpc htasks
    obtain ⟨tk0, h1, h2, _⟩ := hce t0 (by simp [enqTask, hpc])
    subst htasks
    refine ⟨?_, phaseAt_eq_some.mpr ⟨tk0, h1, h2⟩, fun t hne => ?_⟩
    · rw [getElem?_modify_eq h1]; rfl
    · rw [getElem?_modify_ne (Ne.symm hne)]; rfl
  unfold clientStep at h
  step_cases
  all_goals (
    try clear h
    first
    | exact Or.inl ⟨fun _ => rfl, Or.inl rfl⟩
    | exact Or.inl ⟨fun _ => rfl, Or.inr (Or.inl rfl)⟩
    | exact Or.inl ⟨fun _ => rfl, Or.inr (Or.inr ‹_›)⟩
    | skip)
  · -- callEnqueue
    refine Or.inr (Or.inl ⟨rfl, ?_, ?_, ?_⟩)
    · simp [phaseAt]
    · simp [phaseAt, setClient]
    · intro t hne
      simp only [phaseAt, setClient]
      by_cases hlt : t < s.tasks.length
      · rw [List.getElem?_append_left hlt]
      · have hgt : s.tasks.length < t := by omega
        rw [List.getElem?_eq_none (by simp; omega), List.getElem?_eq_none (by omega)]
  · -- enqPut (a worker is to be started)
    rename_i t0 hpc hg _
    obtain ⟨g1, g2, g3⟩ := hput t0 _ hpc rfl
    exact Or.inr (Or.inr (Or.inl ⟨t0, rfl, g2, g1, g3⟩))
  · rename_i t0 hpc hg _
    obtain ⟨g1, g2, g3⟩ := hput t0 _ hpc rfl
    exact Or.inr (Or.inr (Or.inl ⟨t0, rfl, g2, g1, g3⟩))
  · -- clrGet: task
    rename_i t0 rest hqueue hlt0
    refine Or.inr (Or.inr (Or.inr (Or.inr (Or.inl ⟨t0, hqueue, ?_, ?_⟩))))
    · simp [phaseAt, setClient, updTask, hlt0]
    · intro t hne
      simp only [phaseAt, setClient, updTask]
      rw [getElem?_modify_ne (Ne.symm hne)]

theorem step_task_frame {s s' : State} {a : Action} (hT : TaskInv s) (h : step? s a = some s') : TaskFrame s s' := by
  unfold step? at h
  split at h
  · split at h
    · rename_i i w hw
      exact worker_task_frame hw hT h
    · simp at h
  · split at h
    · rename_i i c hc
      exact client_task_frame hc hT h
    · simp at h

/-! ### at most one counted worker when `max_threads = 1` -/

theorem nonexiting_counted {s : State} (hB : BaseInv s) {i : Nat} {w : Worker} (hw : s.workers[i]? = some w)
    (hpc : exiting w.pc = false) : counted w = true := by
  have hcl : w.cleaned = false := by
    cases hc : w.cleaned with
    | false => rfl
    | true => rw [hB.clean i w hw hc] at hpc; cases hpc
  cases hp : w.pc <;> simp [counted, hp, hcl, exiting] at hpc ⊢

theorem counted_unique {s : State} (hB : BaseInv s) (hle : s.nbThreads ≤ 1) {i j : Nat} {wi wj : Worker}
    (hi : s.workers[i]? = some wi) (hj : s.workers[j]? = some wj) (ci : counted wi = true) (cj : counted wj = true) :
    i = j := by
  by_cases hij : i = j
  · exact hij
  · exfalso
    have h1 := countP_set_eq counted hi { pc := .dead }
    have h2 : (s.workers.set i { pc := .dead })[j]? = some wj := getElem?_set_ne' (fun e => hij e.symm) hj
    have h3 := countP_ge counted h2
    have h4 := countP_ge counted hi
    have h5 := hB.count.threads
    have hd : counted { pc := .dead } = false := rfl
    rw [ci, hd] at h1; rw [cj] at h3; rw [ci] at h4
    simp only [if_true, Bool.false_eq_true, if_false] at h1 h3 h4
    omega

/-! ### order of the queue -/

theorem idx_append_mem {q l : List Item} {y : Item} (h : y ∈ q) : (q ++ l).idxOf y = q.idxOf y := by
  simp [List.idxOf_append, h]

theorem idx_append_new {q : List Item} {y : Item} (h : y ∉ q) : (q ++ [y]).idxOf y = q.length := by
  simp [List.idxOf_append, h, List.idxOf_cons_self]

theorem idx_cons_ne {q : List Item} {x y : Item} (h : x ≠ y) : (x :: q).idxOf y = q.idxOf y + 1 := by
  have hb : (x == y) = false := by simpa using h
  simp [List.idxOf_cons, hb]

/-- `a` was accepted before `b`: while `a` waits in the queue, `b` does not exist, is not yet accepted, or waits behind
    it; while `a` is held by a worker (taken, not yet begun), `b` has not been taken by a worker. -/
def FifoPair (a b : Nat) (s : State) : Prop :=
  (∃ ph, phaseAt s a = some ph ∧ ph ≠ .created) ∧
  (phaseAt s a = some .queued → phaseAt s b = none ∨ phaseAt s b = some .created ∨
      (phaseAt s b = some .queued ∧ s.queue.idxOf (.task a) < s.queue.idxOf (.task b))) ∧
  (phaseAt s a = some .held → phaseAt s b = none ∨ phaseAt s b = some .created ∨ phaseAt s b = some .queued ∨
      phaseAt s b = some .dropped)

theorem FifoPair_step {s s' : State} {act : Action} {a b : Nat} (hab : a ≠ b) (hmax : s.cfg.max = 1)
    (hB : BaseInv s) (hSp : SpawnInv s) (hT : TaskInv s) (hT2 : TaskInv2 s) (hI : FifoPair a b s)
    (h : step? s act = some s') : FifoPair a b s' := by
  obtain ⟨⟨pha, hpa, hnc⟩, hI1, hI2⟩ := hI
  have hqp : ∀ t, Item.task t ∈ s.queue → phaseAt s t = some .queued := fun t ht =>
    phaseAt_eq_some.mpr (hT.qphase t ht)
  have hinq : ∀ t, phaseAt s t = some .queued → Item.task t ∈ s.queue := fun t ht => by
    obtain ⟨tk, h1, h2⟩ := phaseAt_eq_some.mp ht
    exact hT2.inq t tk h1 h2
  have hle : s.nbThreads ≤ 1 := hmax ▸ hSp.le
  -- the single worker cannot be at `queue.get` while it holds `a`
  have hsingle : ∀ (i : Nat) (w : Worker), s.workers[i]? = some w → w.pc = .get → phaseAt s a = some .held → False := by
    intro i w hw hpc hph
    obtain ⟨tk, h1, h2⟩ := phaseAt_eq_some.mp hph
    obtain ⟨j, wj, g1, g2, g3⟩ := hT2.own a tk h1 (Or.inl h2)
    have c1 := nonexiting_counted hB hw (by simp [hpc, exiting])
    have c2 := nonexiting_counted hB g1 (by
      rw [h2] at g3
      cases hp : wj.pc <;> simp [hp, phaseOfPc, exiting] at g3 ⊢)
    have := counted_unique hB hle hw g1 c1 c2
    subst this
    rw [hw] at g1; cases g1
    rw [h2, hpc] at g3; simp [phaseOfPc] at g3
  rcases step_task_frame hT h with ⟨hph, hq⟩ | ⟨hq, hn, hc, hph⟩ | ⟨t0, hq, h0, h0', hph⟩ |
      ⟨t0, i, w, hq, hw, hpc, h0', hph⟩ | ⟨t0, hq, h0', hph⟩ | ⟨t0, hq, h0, hph⟩
  · -- nothing that concerns tasks; possibly a sentinel put or taken
    refine ⟨⟨pha, by rw [hph]; exact hpa, hnc⟩, ?_, ?_⟩
    · intro h1
      rw [hph] at h1
      rcases hI1 h1 with g | g | ⟨g, gi⟩
      · left; rw [hph]; exact g
      · right; left; rw [hph]; exact g
      · right; right
        refine ⟨by rw [hph]; exact g, ?_⟩
        rcases hq with hq | hq | hq
        · rw [hq]; exact gi
        · rw [hq, idx_append_mem (hinq a h1), idx_append_mem (hinq b g)]; exact gi
        · rw [hq, idx_cons_ne (by simp), idx_cons_ne (by simp)] at gi; omega
    · intro h1
      rw [hph] at h1
      rw [hph]; exact hI2 h1
  · -- a new task record
    have hane : a ≠ s.tasks.length := by intro e; rw [e, hn] at hpa; cases hpa
    refine ⟨⟨pha, by rw [hph a hane]; exact hpa, hnc⟩, ?_, ?_⟩
    · intro h1
      rw [hph a hane] at h1
      by_cases hb : b = s.tasks.length
      · right; left; rw [hb]; exact hc
      · rw [hph b hb, hq]; exact hI1 h1
    · intro h1
      rw [hph a hane] at h1
      by_cases hb : b = s.tasks.length
      · right; left; rw [hb]; exact hc
      · rw [hph b hb]; exact hI2 h1
  · -- a task is put in the queue
    have hane : a ≠ t0 := by
      intro e; rw [e, h0] at hpa; cases hpa; exact hnc rfl
    refine ⟨⟨pha, by rw [hph a hane]; exact hpa, hnc⟩, ?_, ?_⟩
    · intro h1
      rw [hph a hane] at h1
      by_cases hb : b = t0
      · right; right
        subst hb
        refine ⟨h0', ?_⟩
        have hnin : Item.task b ∉ s.queue := by
          intro hm; rw [hqp b hm] at h0; cases h0
        rw [hq, idx_append_mem (hinq a h1), idx_append_new hnin]
        exact List.idxOf_lt_length_of_mem (hinq a h1)
      · rw [hph b hb]
        rcases hI1 h1 with g | g | ⟨g, gi⟩
        · exact Or.inl g
        · exact Or.inr (Or.inl g)
        · right; right
          refine ⟨g, ?_⟩
          rw [hq, idx_append_mem (hinq a h1), idx_append_mem (hinq b g)]; exact gi
    · intro h1
      rw [hph a hane] at h1
      by_cases hb : b = t0
      · subst hb; exact Or.inr (Or.inr (Or.inl h0'))
      · rw [hph b hb]; exact hI2 h1
  · -- the head task is taken by a worker
    have h0 : phaseAt s t0 = some .queued := hqp t0 (by rw [hq]; simp)
    by_cases ha : a = t0
    · subst ha
      refine ⟨⟨_, h0', by simp⟩, ?_, ?_⟩
      · intro h1; rw [h0'] at h1; cases h1
      · intro _
        rw [hph b (fun e => hab e.symm)]
        rcases hI1 h0 with g | g | ⟨g, _⟩
        · exact Or.inl g
        · exact Or.inr (Or.inl g)
        · exact Or.inr (Or.inr (Or.inl g))
    · refine ⟨⟨pha, by rw [hph a ha]; exact hpa, hnc⟩, ?_, ?_⟩
      · intro h1
        rw [hph a ha] at h1
        by_cases hb : b = t0
        · exfalso
          subst hb
          rcases hI1 h1 with g | g | ⟨g, gi⟩
          · rw [h0] at g; cases g
          · rw [h0] at g; cases g
          · rw [hq, List.idxOf_cons_self] at gi; omega
        · rw [hph b hb]
          rcases hI1 h1 with g | g | ⟨g, gi⟩
          · exact Or.inl g
          · exact Or.inr (Or.inl g)
          · right; right
            refine ⟨g, ?_⟩
            rw [hq, idx_cons_ne (by simpa using Ne.symm ha), idx_cons_ne (by simpa using Ne.symm hb)] at gi
            omega
      · intro h1
        rw [hph a ha] at h1
        exact absurd (hsingle i w hw hpc h1) id
  · -- the head task is dropped by clear()
    have h0 : phaseAt s t0 = some .queued := hqp t0 (by rw [hq]; simp)
    by_cases ha : a = t0
    · subst ha
      refine ⟨⟨_, h0', by simp⟩, ?_, ?_⟩
      · intro h1; rw [h0'] at h1; cases h1
      · intro h1; rw [h0'] at h1; cases h1
    · refine ⟨⟨pha, by rw [hph a ha]; exact hpa, hnc⟩, ?_, ?_⟩
      · intro h1
        rw [hph a ha] at h1
        by_cases hb : b = t0
        · exfalso
          subst hb
          rcases hI1 h1 with g | g | ⟨g, gi⟩
          · rw [h0] at g; cases g
          · rw [h0] at g; cases g
          · rw [hq, List.idxOf_cons_self] at gi; omega
        · rw [hph b hb]
          rcases hI1 h1 with g | g | ⟨g, gi⟩
          · exact Or.inl g
          · exact Or.inr (Or.inl g)
          · right; right
            refine ⟨g, ?_⟩
            rw [hq, idx_cons_ne (by simpa using Ne.symm ha), idx_cons_ne (by simpa using Ne.symm hb)] at gi
            omega
      · intro h1
        rw [hph a ha] at h1
        by_cases hb : b = t0
        · subst hb; exact Or.inr (Or.inr (Or.inr h0'))
        · rw [hph b hb]; exact hI2 h1
  · -- the task held by a worker is begun or ended
    by_cases ha : a = t0
    · subst ha
      rcases h0 with ⟨_, g⟩ | ⟨_, g⟩
      · refine ⟨⟨_, g, by simp⟩, ?_, ?_⟩ <;> (intro h1; rw [g] at h1; cases h1)
      · refine ⟨⟨_, g, by simp⟩, ?_, ?_⟩ <;> (intro h1; rw [g] at h1; cases h1)
    · have hbne : phaseAt s a = some .queued ∨ phaseAt s a = some .held → b ≠ t0 := by
        intro hqa hb
        subst hb
        rcases hqa with hqa | hqa
        · rcases hI1 hqa with g | g | ⟨g, _⟩ <;> rcases h0 with ⟨g', _⟩ | ⟨g', _⟩ <;> rw [g] at g' <;> cases g'
        · rcases hI2 hqa with g | g | g | g <;> rcases h0 with ⟨g', _⟩ | ⟨g', _⟩ <;> rw [g] at g' <;> cases g'
      refine ⟨⟨pha, by rw [hph a ha]; exact hpa, hnc⟩, ?_, ?_⟩
      · intro h1
        rw [hph a ha] at h1
        rw [hph b (hbne (Or.inl h1)), hq]; exact hI1 h1
      · intro h1
        rw [hph a ha] at h1
        rw [hph b (hbne (Or.inr h1))]; exact hI2 h1

/-- `FifoPair a b` is kept by every run from a reachable state. -/
theorem FifoPair_reach {cfg : Config} {n : Nat} {s s' : State} {a b : Nat} (hab : a ≠ b) (hmax : cfg.max = 1)
    (hr : Reach (init cfg n) s) (hr' : Reach s s') (hI : FifoPair a b s) : FifoPair a b s' := by
  induction hr' with
  | refl => exact hI
  | step act hr1 hs ih =>
    have hr0 := hr.trans hr1
    have hc : _ = cfg := reach_cfg hr0
    exact FifoPair_step hab (by rw [hc]; exact hmax) (BaseInv_reach hr0) (SpawnInv_reach hr0) (TaskInv_reach hr0)
      (TaskInv2_reach hr0) ih hs

/-- With `max_threads = 1` at most one worker is inside the loop (any program counter before the exit path). -/
theorem single_worker_in_loop {cfg : Config} {n : Nat} {s : State} (hmax : cfg.max = 1) (hr : Reach (init cfg n) s) :
    s.workers.countP (fun w => !exiting w.pc) ≤ 1 := by
  have hB := BaseInv_reach hr
  have hle : s.nbThreads ≤ 1 := by
    have := (SpawnInv_reach hr).le
    rw [reach_cfg hr] at this
    simpa [init, hmax] using this
  rw [hB.count.threads] at hle
  refine Nat.le_trans (List.countP_mono_left (fun w hwm hp => ?_)) hle
  obtain ⟨i, hi⟩ := List.getElem?_of_mem hwm
  exact nonexiting_counted hB hi (by simpa using hp)

end JRV.Pool
