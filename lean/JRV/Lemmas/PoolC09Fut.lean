/-
  C09, future faithfulness: invariant over the per-task future flags of the pool model.
  `task.end:o` stores the outcome token chosen by the environment in the task (`outcome`) and in the worker (`res`);
  `fut.set` copies the worker's `res` into the future.  The invariant ties the three together.
-/
import JRV.Lemmas.PoolTask2

set_option linter.unusedSimpArgs false
set_option linter.unusedVariables false

namespace JRV.Pool

structure FutInv (s : State) : Prop where
  /-- a done future belongs to a finished task and holds that task's outcome -/
  done : ∀ (t : Nat) (tk : Task), s.tasks[t]? = some tk → tk.futDone = true →
            tk.phase = .finished ∧ tk.futVal = tk.outcome
  /-- a finished task has an outcome, any other task has none -/
  fin : ∀ (t : Nat) (tk : Task), s.tasks[t]? = some tk → (tk.phase = .finished ↔ tk.outcome ≠ none)
  /-- between `task.end` and `fut.set` the worker carries the outcome of the task it holds -/
  res : ∀ (i : Nat) (w : Worker), s.workers[i]? = some w → w.pc = .futSet →
            ∀ (t : Nat) (tk : Task), w.held = some t → s.tasks[t]? = some tk → w.res = tk.outcome
  /-- a finished task whose future is not yet done is held by its owner, which is about to execute `fut.set` -/
  pend : ∀ (t : Nat) (tk : Task), s.tasks[t]? = some tk → tk.phase = .finished → tk.futDone = false →
            ∃ (i : Nat) (w : Worker), tk.owner = some i ∧ s.workers[i]? = some w ∧ w.pc = .futSet ∧ w.held = some t

theorem FutInv_init (cfg : Config) (n : Nat) : FutInv (init cfg n) := by
  refine ⟨?_, ?_, ?_, ?_⟩ <;> simp [init]

/-- A task whose phase is not `finished` has a future that is not done. -/
theorem FutInv.notDone {s : State} (hI : FutInv s) {t : Nat} {tk : Task} (ht : s.tasks[t]? = some tk)
    (hph : tk.phase ≠ .finished) : tk.futDone = false := by
  cases hd : tk.futDone with
  | false => rfl
  | true => exact absurd (hI.done t tk ht hd).1 hph

theorem FutInv_worker_done {s s' : State} {i : Nat} {w : Worker} {op : Op} {tmo : Bool}
    (hw : s.workers[i]? = some w) (hT : TaskInv s) (hI : FutInv s) (h : workerStep s i w op tmo = some s') :
    ∀ (t : Nat) (tk : Task), s'.tasks[t]? = some tk → tk.futDone = true →
      tk.phase = .finished ∧ tk.futVal = tk.outcome := by
  have hwh := hT.wheld i w hw
  have hq := hT.qphase
  have hres := hI.res i w hw
  unfold workerStep at h
  step_cases
  all_goals (
    intro t tk ht hd
    simp only [setWorker, tdone, acq, rel, updTask] at ht
    first
    | exact hI.done t tk ht hd
    | (obtain ⟨a, ha, rfl⟩ := getElem?_modify_some ht
       split at hd
       · rename_i heq; subst heq
         simp [phaseOfPc, *] at hwh hq hres
         have hnd := fun hp => hI.notDone ha hp
         simp_all
       · rename_i hne
         simp only [hne, if_false]
         exact hI.done t a ha hd))

theorem FutInv_worker_fin {s s' : State} {i : Nat} {w : Worker} {op : Op} {tmo : Bool}
    (hw : s.workers[i]? = some w) (hT : TaskInv s) (hI : FutInv s) (h : workerStep s i w op tmo = some s') :
    ∀ (t : Nat) (tk : Task), s'.tasks[t]? = some tk → (tk.phase = .finished ↔ tk.outcome ≠ none) := by
  have hwh := hT.wheld i w hw
  have hq := hT.qphase
  unfold workerStep at h
  step_cases
  all_goals (
    intro t tk ht
    simp only [setWorker, tdone, acq, rel, updTask] at ht
    first
    | exact hI.fin t tk ht
    | (obtain ⟨a, ha, rfl⟩ := getElem?_modify_some ht
       have hold := hI.fin t a ha
       split
       · rename_i heq; subst heq
         simp [phaseOfPc, *] at hwh hq
         simp_all
       · exact hold))

theorem FutInv_worker_res {s s' : State} {i : Nat} {w : Worker} {op : Op} {tmo : Bool}
    (hw : s.workers[i]? = some w) (hT : TaskInv s) (hI : FutInv s) (h : workerStep s i w op tmo = some s') :
    ∀ (j : Nat) (wj : Worker), s'.workers[j]? = some wj → wj.pc = .futSet →
      ∀ (t : Nat) (tk : Task), wj.held = some t → s'.tasks[t]? = some tk → wj.res = tk.outcome := by
  have hwh := hT.wheld i w hw
  have hq := hT.qphase
  have hlt : i < s.workers.length := (List.getElem?_eq_some_iff.mp hw).1
  unfold workerStep at h
  step_cases
  all_goals (
    intro j wj hj hpc t tk hheld ht
    simp only [setWorker, tdone, acq, rel, updTask, List.getElem?_set] at hj ht
    split at hj
    · -- the stepping worker
      have hij : i = j := by assumption
      simp [hlt] at hj; subst hj
      first
      | (simp at hpc; done)
      | (split at hpc <;> simp at hpc; done)
      | (-- task.end
         simp at hheld
         obtain ⟨a, ha, rfl⟩ := getElem?_modify_some ht
         simp_all)
    · -- another worker, at `fut.set`
      have hwj := hT.wheld j wj hj .finished (by simp [phaseOfPc, hpc])
      first
      | exact hI.res j wj hj hpc t tk hheld ht
      | (obtain ⟨a, ha, rfl⟩ := getElem?_modify_some ht
         have hold := hI.res j wj hj hpc t a hheld ha
         split
         · rename_i heq; subst heq
           simp [phaseOfPc, *] at hwh hq
           simp_all
         · exact hold))

theorem FutInv_worker_pend {s s' : State} {i : Nat} {w : Worker} {op : Op} {tmo : Bool}
    (hw : s.workers[i]? = some w) (hT : TaskInv s) (hI : FutInv s) (h : workerStep s i w op tmo = some s') :
    ∀ (t : Nat) (tk : Task), s'.tasks[t]? = some tk → tk.phase = .finished → tk.futDone = false →
      ∃ (j : Nat) (wj : Worker), tk.owner = some j ∧ s'.workers[j]? = some wj ∧ wj.pc = .futSet ∧ wj.held = some t := by
  have hwh := hT.wheld i w hw
  have hq := hT.qphase
  have hlt : i < s.workers.length := (List.getElem?_eq_some_iff.mp hw).1
  -- a finished, not-done task that the step leaves alone keeps its `fut.set` worker (which is not the stepping one
  -- unless the step is `fut.set` on that very task)
  have keep : ∀ (t : Nat) (tk : Task) (w' : Worker), s.tasks[t]? = some tk → tk.phase = .finished → tk.futDone = false →
      (w.pc = .futSet → w.held ≠ some t) →
      ∃ (j : Nat) (wj : Worker), tk.owner = some j ∧ (s.workers.set i w')[j]? = some wj ∧ wj.pc = .futSet ∧ wj.held = some t := by
    intro t tk w' ht hph hd hne
    obtain ⟨j, wj, h1, h2, h3, h4⟩ := hI.pend t tk ht hph hd
    have hji : j ≠ i := by
      intro he; subst he
      rw [hw] at h2; cases h2
      exact hne h3 h4
    exact ⟨j, wj, h1, getElem?_set_ne' hji h2, h3, h4⟩
  unfold workerStep at h
  step_cases
  all_goals (
    intro t tk ht hph hd
    simp only [setWorker, tdone, acq, rel, updTask] at ht ⊢
    first
    | exact keep t tk _ ht hph hd (by intro hc; simp_all)
    | (obtain ⟨a, ha, rfl⟩ := getElem?_modify_some ht
       split at hph
       · rename_i heq; subst heq
         simp [phaseOfPc, *] at hwh hq
         first
         | (simp at hph; done)
         | (simp at hd; done)
         | (obtain ⟨_, hga⟩ := List.getElem?_eq_some_iff.mp ha
            rw [hga] at hwh
            exact ⟨i, _, by simpa using hwh.1, getElem?_set_self' hlt, rfl, by assumption⟩)
       · rename_i hne
         simp only [hne, if_false] at hd ⊢
         exact keep t a _ ha hph hd (by intro _ hc; simp_all)))

/-! ### client steps: tasks are appended (`enqueue` call), queued (`queue.put`) or dropped (`clear`); workers are only appended -/

/-- What a client step does to the task table: every task of the successor is a task of the predecessor with possibly
    another phase that is not `finished` — unless the phase is unchanged — or a fresh default task. -/
theorem client_task_shape {s s' : State} {i : Nat} {c : Client} {op : Op} {tmo : Bool}
    (hc : s.clients[i]? = some c) (hT : TaskInv s) (h : clientStep s i c op tmo = some s') :
    ∀ (t : Nat) (tk : Task), s'.tasks[t]? = some tk →
      (s.tasks[t]? = some tk) ∨
      (s.tasks[t]? = none ∧ tk = { creator := i }) ∨
      (∃ a, s.tasks[t]? = some a ∧ (a.phase = .created ∨ a.phase = .queued) ∧
        (tk = { a with phase := .queued } ∨ tk = { a with phase := .dropped })) := by
  have hce := hT.cenq i c hc
  have hq := hT.qphase
  unfold clientStep at h
  step_cases
  all_goals (
    intro t tk ht
    simp only [setClient, tdone, acq, rel, updTask, put, spawnWorker, apply_ite State.tasks, ite_self] at ht
    try (exact Or.inl ht))
  · -- callEnqueue
    rw [List.getElem?_append] at ht
    split at ht
    · exact Or.inl ht
    · rename_i hge
      have := List.mem_of_getElem? ht
      simp at this; subst this
      exact Or.inr (Or.inl ⟨by simp at hge; simp [hge], rfl⟩)
  · rename_i t0 hpc hg _
    obtain ⟨a, ha, rfl⟩ := getElem?_modify_some ht
    split
    · rename_i heq; subst heq
      obtain ⟨tk0, h1, h2, _⟩ := hce t0 (by simp [enqTask, hpc])
      rw [ha] at h1; cases h1
      exact Or.inr (Or.inr ⟨a, ha, Or.inl h2, Or.inl rfl⟩)
    · exact Or.inl ha
  · rename_i t0 hpc hg _
    obtain ⟨a, ha, rfl⟩ := getElem?_modify_some ht
    split
    · rename_i heq; subst heq
      obtain ⟨tk0, h1, h2, _⟩ := hce t0 (by simp [enqTask, hpc])
      rw [ha] at h1; cases h1
      exact Or.inr (Or.inr ⟨a, ha, Or.inl h2, Or.inl rfl⟩)
    · exact Or.inl ha
  · rename_i t0 rest hqueue hlt0
    obtain ⟨a, ha, rfl⟩ := getElem?_modify_some ht
    split
    · rename_i heq; subst heq
      obtain ⟨tk0, h1, h2⟩ := hq t0 (by rw [hqueue]; simp)
      rw [ha] at h1; cases h1
      exact Or.inr (Or.inr ⟨a, ha, Or.inr h2, Or.inr rfl⟩)
    · exact Or.inl ha

/-- A client step leaves every existing worker as it is (it can only append a fresh one). -/
theorem client_worker_shape {s s' : State} {i : Nat} {c : Client} {op : Op} {tmo : Bool}
    (h : clientStep s i c op tmo = some s') :
    (∀ (j : Nat) (w : Worker), s.workers[j]? = some w → s'.workers[j]? = some w) ∧
    (∀ (j : Nat) (w : Worker), s'.workers[j]? = some w → s.workers[j]? = some w ∨ (s.workers[j]? = none ∧ w = {})) := by
  unfold clientStep at h
  step_cases
  all_goals (
    simp only [setClient, tdone, acq, rel, updTask, put, spawnWorker, apply_ite State.workers, ite_self]
    first
    | exact ⟨fun _ _ h => h, fun _ _ h => Or.inl h⟩
    | (refine ⟨fun j w hj => ?_, fun j w hj => ?_⟩
       · first
         | exact getElem?_append_some hj
         | (split
            · exact hj
            · exact getElem?_append_some hj)
       · have key : ∀ (j : Nat) (w : Worker), (s.workers ++ [({} : Worker)])[j]? = some w →
             s.workers[j]? = some w ∨ (s.workers[j]? = none ∧ w = {}) := by
           intro j w hj
           rw [List.getElem?_append] at hj
           split at hj
           · exact Or.inl hj
           · rename_i hge
             have := List.mem_of_getElem? hj
             simp at this; subst this
             exact Or.inr ⟨by simp at hge; simp [hge], rfl⟩
         first
         | exact key j w hj
         | (split at hj
            · exact Or.inl hj
            · exact key j w hj)))

theorem FutInv_client {s s' : State} {i : Nat} {c : Client} {op : Op} {tmo : Bool}
    (hc : s.clients[i]? = some c) (hT : TaskInv s) (hI : FutInv s) (h : clientStep s i c op tmo = some s') :
    FutInv s' := by
  have hts := client_task_shape hc hT h
  obtain ⟨hws1, hws2⟩ := client_worker_shape h
  refine ⟨?_, ?_, ?_, ?_⟩
  · intro t tk ht hd
    rcases hts t tk ht with h1 | ⟨_, rfl⟩ | ⟨a, ha, hph, rfl | rfl⟩
    · exact hI.done t tk h1 hd
    · simp at hd
    · have := hI.notDone ha (by rcases hph with h | h <;> simp [h])
      simp at hd; simp [hd] at this
    · have := hI.notDone ha (by rcases hph with h | h <;> simp [h])
      simp at hd; simp [hd] at this
  · intro t tk ht
    rcases hts t tk ht with h1 | ⟨_, rfl⟩ | ⟨a, ha, hph, rfl | rfl⟩
    · exact hI.fin t tk h1
    · simp
    · have := hI.fin t a ha
      rcases hph with h | h <;> simp [h] at this ⊢ <;> exact this
    · have := hI.fin t a ha
      rcases hph with h | h <;> simp [h] at this ⊢ <;> exact this
  · intro j wj hj hpc t tk hheld ht
    rcases hws2 j wj hj with hj0 | ⟨_, rfl⟩
    · obtain ⟨t', tk', g1, g2, g3, g4⟩ := hT.wheld j wj hj0 .finished (by simp [phaseOfPc, hpc])
      rw [hheld] at g1; cases g1
      rcases hts t tk ht with h1 | ⟨hn, _⟩ | ⟨a, ha, hph, _⟩
      · exact hI.res j wj hj0 hpc t tk hheld h1
      · rw [g2] at hn; cases hn
      · rw [g2] at ha; cases ha
        rcases hph with h | h <;> simp [h] at g4
    · simp at hpc
  · intro t tk ht hph hd
    rcases hts t tk ht with h1 | ⟨_, rfl⟩ | ⟨a, ha, _, rfl | rfl⟩
    · obtain ⟨j, wj, g1, g2, g3, g4⟩ := hI.pend t tk h1 hph hd
      exact ⟨j, wj, g1, hws1 j wj g2, g3, g4⟩
    · simp at hph
    · simp at hph
    · simp at hph

/-! ### assembly -/

theorem FutInv_step {s s' : State} {a : Action} (hT : TaskInv s) (hI : FutInv s) (h : step? s a = some s') : FutInv s' := by
  unfold step? at h
  split at h
  · split at h
    · rename_i i w hw
      exact ⟨FutInv_worker_done hw hT hI h, FutInv_worker_fin hw hT hI h, FutInv_worker_res hw hT hI h,
        FutInv_worker_pend hw hT hI h⟩
    · simp at h
  · split at h
    · rename_i i c hc
      exact FutInv_client hc hT hI h
    · simp at h

theorem FutInv_reach {cfg : Config} {n : Nat} {s : State} (hr : Reach (init cfg n) s) : FutInv s := by
  refine Reach.induct (P := fun s => TaskInv s ∧ FutInv s) ⟨TaskInv_init cfg n, FutInv_init cfg n⟩ ?_ s hr |>.2
  intro s a s' _ hI h
  exact ⟨TaskInv_step hI.1 h, FutInv_step hI.1 hI.2 h⟩

end JRV.Pool
