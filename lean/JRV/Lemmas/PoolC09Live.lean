/-
  C09, progress: a queued task of a running pool has a worker that serves the queue.

  Under the single-controller configuration:
    `NoSentInv`  a sentinel is in the queue only while `stop()` is between its `event.set` and the end of its `clear()`;
    `ServInv`    while the flag is clear every worker counted in `nb_threads` is inside the loop (not on an exit path);
    `GrowInv`    flag clear ∧ a task queued ⇒ `nb_threads ≥ 1`, or a thread is about to try `__start_thread`
                 (exact pending accounting + the growth rule of `enqueue` + the retirement rule + `start`).
-/
import JRV.Lemmas.PoolC09Stop

set_option linter.unusedSimpArgs false
set_option linter.unusedVariables false

namespace JRV.Pool

/-- Program counters of the controlling thread between the `event.set` of `stop()` and the last `get_nowait` of its
    `clear()` (also: the same part of a direct `clear()`). -/
def drainPc (pc : CPc) : Bool :=
  match pc with
  | .stopAcq | .stopPut _ | .stopRel _ | .stopAlive _ | .stopJoin _ | .stopAlive2 _ | .clrAcq | .clrGet | .clrDone _ => true
  | _ => false

@[simp] theorem drainPc_notifyIf (b : Bool) (c : Client) : drainPc (notifyIf b c).pc = drainPc c.pc := by
  cases c with | mk pc ret => cases pc <;> cases b <;> simp [notifyIf, notifyClient, drainPc]

theorem drainPc_ctlPc {pc : CPc} (h : drainPc pc = true) : ctlPc pc = true := by
  cases pc <;> simp_all [ctlPc, drainPc]

/-- A worker step leaves the queue alone or takes its head. -/
theorem worker_queue_frame {s s' : State} {i : Nat} {w : Worker} {op : Op} {tmo : Bool}
    (h : workerStep s i w op tmo = some s') :
    s'.queue = s.queue ∨ (∃ x, s.queue = x :: s'.queue ∧ w.pc = .get) := by
  unfold workerStep at h
  step_cases
  all_goals (
    first
    | exact Or.inl rfl
    | exact Or.inr ⟨_, ‹_›, ‹_›⟩)

/-- What a client step does to the queue, with the program counters before and after. -/
theorem client_queue_frame {s s' : State} {i : Nat} {c c' : Client} {op : Op} {tmo : Bool}
    (hc : s.clients[i]? = some c) (h : clientStep s i c op tmo = some s') (hc' : s'.clients[i]? = some c') :
    (s'.queue = s.queue ∧ (drainPc c.pc = true → drainPc c'.pc = false → s.queue = [])) ∨
    (∃ t, s'.queue = s.queue ++ [.task t] ∧ c.pc = .enqPut t) ∨
    (s'.queue = s.queue ++ [.sentinel] ∧ (∃ n, c.pc = .stopPut n) ∧ drainPc c'.pc = true) ∨
    (∃ x, s.queue = x :: s'.queue ∧ c.pc = .clrGet ∧ c'.pc = .clrDone x) := by
  have hlt : i < s.clients.length := (List.getElem?_eq_some_iff.mp hc).1
  unfold clientStep at h
  step_cases
  all_goals (
    try clear h
    simp only [setClient, tdone, acq, rel, updTask, put, spawnWorker] at hc'
    simp [hlt] at hc'
    subst hc'
    first
    | exact Or.inr (Or.inl ⟨_, rfl, ‹_›⟩)
    | (refine Or.inr (Or.inr (Or.inl ⟨rfl, ⟨_, ‹_›⟩, ?_⟩))
       first
       | (simp [drainPc]; done)
       | (split <;> simp [drainPc]))
    | exact Or.inr (Or.inr (Or.inr ⟨_, ‹_›, ‹_›, rfl⟩))
    | (refine Or.inl ⟨rfl, ?_⟩
       first
       | (simp [drainPc, *]; done)
       | (split <;> simp [drainPc, *]; done)
       | (intro _ _; assumption)))

/-- The client table after a client step: the stepping client has a new record, the others are unchanged up to a
    notification of `all_tasks_done`. -/
theorem client_others {s s' : State} {i : Nat} {c : Client} {op : Op} {tmo : Bool}
    (hc : s.clients[i]? = some c) (h : clientStep s i c op tmo = some s') :
    ∃ (b : Bool) (c' : Client), s'.clients[i]? = some c' ∧
      (∀ (j : Nat) (c0 : Client), j ≠ i → s.clients[j]? = some c0 → s'.clients[j]? = some (notifyIf b c0)) ∧
      (∀ (j : Nat) (cj : Client), j ≠ i → s'.clients[j]? = some cj → ∃ c0, s.clients[j]? = some c0 ∧ cj = notifyIf b c0) := by
  obtain ⟨_, cl0, c', hcl, hcl0, _⟩ := client_frame h
  have hlt : i < s.clients.length := (List.getElem?_eq_some_iff.mp hc).1
  have hb : ∃ b, cl0 = s.clients.map (notifyIf b) := by
    rcases hcl0 with rfl | hb
    · refine ⟨false, ?_⟩
      have : notifyIf false = id := by funext c; simp [notifyIf]
      rw [this]; simp
    · exact hb
  obtain ⟨b, rfl⟩ := hb
  refine ⟨b, c', by rw [hcl]; simp [hlt], fun j c0 hne h0 => ?_, fun j cj hne hj => ?_⟩
  · rw [hcl, List.getElem?_set]; simp [Ne.symm hne, h0]
  · rw [hcl, List.getElem?_set] at hj
    simp [Ne.symm hne] at hj
    obtain ⟨c0, h0, rfl⟩ := hj
    exact ⟨c0, h0, rfl⟩

/-- The stop flag is written by `event.clear` (in `start`) and `event.set` (in `stop`) only. -/
theorem client_stop_same {s s' : State} {i : Nat} {c : Client} {op : Op} {tmo : Bool}
    (h : clientStep s i c op tmo = some s') (h1 : c.pc ≠ .startClear) (h2 : c.pc ≠ .stopSet) : s'.stop = s.stop := by
  obtain ⟨_, _, _, _, _, ⟨hst, _, _⟩, _⟩ := client_frame h
  exact hst h1 h2

/-- A sentinel is in the queue only while the controlling thread is between the `event.set` of `stop()` and the end of
    the draining loop of `clear()`; in particular never while the flag is clear. -/
def NoSentInv (s : State) : Prop :=
  Item.sentinel ∈ s.queue → s.stop = true ∧ ∃ c, s.clients[0]? = some c ∧ drainPc c.pc = true

theorem NoSentInv_init (cfg : Config) (n : Nat) : NoSentInv (init cfg n) := by
  intro h; simp [init] at h

theorem NoSentInv_worker {s s' : State} {i : Nat} {w : Worker} {op : Op} {tmo : Bool}
    (hI : NoSentInv s) (h : workerStep s i w op tmo = some s') : NoSentInv s' := by
  obtain ⟨_, hstop, ⟨b, hcl⟩, _⟩ := worker_frame h
  intro hm
  have hm0 : Item.sentinel ∈ s.queue := by
    rcases worker_queue_frame h with hq | ⟨x, hq, _⟩
    · rw [← hq]; exact hm
    · rw [hq]; exact List.mem_cons_of_mem _ hm
  obtain ⟨hs, c0, h0, hd⟩ := hI hm0
  refine ⟨hstop ▸ hs, notifyIf b c0, by rw [hcl]; simp [h0], by simpa using hd⟩

theorem NoSentInv_client {s s' : State} {i : Nat} {c : Client} {op : Op} {tmo : Bool}
    (hc : s.clients[i]? = some c) (hS : StopInv s) (hI : NoSentInv s) (h : clientStep s i c op tmo = some s') :
    NoSentInv s' := by
  obtain ⟨b, c', hself, hother, _⟩ := client_others hc h
  have hi0 : ctlPc c.pc = true → i = 0 := by
    intro hp; by_cases h0 : i = 0
    · exact h0
    · rw [hS.octl i c hc h0] at hp; cases hp
  -- the old invariant carried over a step that keeps the flag and keeps client 0 draining
  have carry : Item.sentinel ∈ s.queue → (i = 0 → drainPc c'.pc = true) →
      s'.stop = true ∧ ∃ c1, s'.clients[0]? = some c1 ∧ drainPc c1.pc = true := by
    intro hm0 hdr
    obtain ⟨hs, c0, h0, hd⟩ := hI hm0
    by_cases hi : i = 0
    · subst hi
      rw [hc] at h0; cases h0
      have hs' := client_stop_same h (by intro e; simp [e, drainPc] at hd) (by intro e; simp [e, drainPc] at hd)
      exact ⟨hs' ▸ hs, c', hself, hdr rfl⟩
    · have hnc := hS.octl i c hc hi
      have hs' := client_stop_same h (by intro e; simp [e, ctlPc] at hnc) (by intro e; simp [e, ctlPc] at hnc)
      exact ⟨hs' ▸ hs, _, hother 0 c0 (fun e => hi e.symm) h0, by simpa using hd⟩
  intro hm
  rcases client_queue_frame hc h hself with ⟨hq, hex⟩ | ⟨t, hq, hpc⟩ | ⟨hq, ⟨n, hpc⟩, hd'⟩ | ⟨x, hq, hpc, hpc'⟩
  · rw [hq] at hm
    refine carry hm (fun hi => ?_)
    subst hi
    obtain ⟨_, c0, h0, hd⟩ := hI hm
    rw [hc] at h0; cases h0
    cases hd' : drainPc c'.pc with
    | true => rfl
    | false => rw [hex hd hd'] at hm; simp at hm
  · rw [hq] at hm
    have hm0 : Item.sentinel ∈ s.queue := by simpa using hm
    refine carry hm0 (fun hi => ?_)
    subst hi
    obtain ⟨_, c0, h0, hd⟩ := hI hm0
    rw [hc] at h0; cases h0
    simp [hpc, drainPc] at hd
  · have hi : i = 0 := hi0 (by simp [hpc, ctlPc])
    subst hi
    have hs := hS.flag c hc (by simp [hpc, inStop])
    have hs' := client_stop_same h (by simp [hpc]) (by simp [hpc])
    exact ⟨hs' ▸ hs, c', hself, hd'⟩
  · have hm0 : Item.sentinel ∈ s.queue := by rw [hq]; exact List.mem_cons_of_mem _ hm
    exact carry hm0 (fun _ => by simp [hpc', drainPc])

/-! ### while the flag is clear every counted worker is inside the loop -/

/-- Inside the loop: not on an exit path (retiring, leaving on the flag or on a sentinel). -/
def serving (pc : WPc) : Bool := !exiting pc && pc != .sentDone

def ServInv (s : State) : Prop :=
  s.stop = false → ∀ (i : Nat) (w : Worker), s.workers[i]? = some w → counted w = true → serving w.pc = true

theorem ServInv_init (cfg : Config) (n : Nat) : ServInv (init cfg n) := by
  intro h; simp [init] at h

/-- The stepping worker: if it is counted afterwards it was counted before, and it leaves the loop only on the flag or
    on a sentinel. -/
theorem worker_serv_frame {s s' : State} {i : Nat} {w w' : Worker} {op : Op} {tmo : Bool}
    (hw : s.workers[i]? = some w) (h : workerStep s i w op tmo = some s') (hw' : s'.workers[i]? = some w')
    (hcnt : counted w' = true) :
    counted w = true ∧
    (serving w.pc = true → serving w'.pc = true ∨ (w.pc = .loopHead ∧ s.stop = true) ∨
        (w.pc = .get ∧ ∃ rest, s.queue = .sentinel :: rest)) := by
  have hlt : i < s.workers.length := (List.getElem?_eq_some_iff.mp hw).1
  unfold workerStep at h
  step_cases
  all_goals (
    try clear h
    simp only [setWorker, tdone, acq, rel, updTask] at hw'
    simp [hlt] at hw'
    subst hw'
    simp [counted, serving, exiting, *] at hcnt ⊢
    try (first | exact hcnt | (split at hcnt <;> simp_all)))

theorem ServInv_worker {s s' : State} {i : Nat} {w : Worker} {op : Op} {tmo : Bool}
    (hw : s.workers[i]? = some w) (hN : NoSentInv s) (hI : ServInv s) (h : workerStep s i w op tmo = some s') :
    ServInv s' := by
  obtain ⟨_, hstop, _, w', hws, _⟩ := worker_frame h
  have hlt : i < s.workers.length := (List.getElem?_eq_some_iff.mp hw).1
  intro hs j wj hj hcnt
  rw [hstop] at hs
  by_cases hji : j = i
  · subst hji
    obtain ⟨hc0, hserv⟩ := worker_serv_frame hw h hj hcnt
    rcases hserv (hI hs j w hw hc0) with g | ⟨_, g⟩ | ⟨_, rest, g⟩
    · exact g
    · rw [hs] at g; cases g
    · have := (hN (by rw [g]; simp)).1
      rw [hs] at this; cases this
  · rw [hws, List.getElem?_set] at hj
    simp [Ne.symm hji] at hj
    exact hI hs j wj hj hcnt

theorem ServInv_client {s s' : State} {i : Nat} {c : Client} {op : Op} {tmo : Bool}
    (hc : s.clients[i]? = some c) (hS : StopInv s) (hI : ServInv s) (h : clientStep s i c op tmo = some s') :
    ServInv s' := by
  obtain ⟨_, _, _, _, _, ⟨hst1, _, hst3⟩, hwt, _⟩ := client_frame h
  intro hs j wj hj hcnt
  -- the workers of the successor state, in terms of the predecessor
  have hwk : s.workers[j]? = some wj ∨ wj = {} := by
    rcases hwt with ⟨e1, _⟩ | ⟨e1, _, _⟩ | ⟨e1, _, _⟩
    · rw [e1] at hj; exact Or.inl hj
    · rw [e1, List.getElem?_append] at hj
      split at hj
      · exact Or.inl hj
      · have := List.mem_of_getElem? hj
        simp at this; exact Or.inr this
    · rw [e1] at hj; exact Or.inl hj
  rcases hwk with hj0 | rfl
  · by_cases hs0 : s.stop = false
    · exact hI hs0 j wj hj0 hcnt
    · -- the flag is being cleared by `start`: every worker has terminated
      exfalso
      have hs1 : s.stop = true := by cases h0 : s.stop <;> simp_all
      have hpc : c.pc = .startClear := by
        by_cases e1 : c.pc = .startClear
        · exact e1
        · by_cases e2 : c.pc = .stopSet
          · rw [(hst3 e2).1] at hs; cases hs
          · rw [hst1 e1 e2, hs1] at hs; cases hs
      have hi : i = 0 := by
        by_cases h0 : i = 0
        · exact h0
        · have := hS.octl i c hc h0
          simp [hpc, ctlPc] at this
      subst hi
      have := hS.dead hs1 (by intro c1 h1; rw [hc] at h1; cases h1; simp [hpc, inStop]) j wj hj0
      simp [counted, this] at hcnt
  · rfl

/-! ### a queued task of a running pool has a worker, or a thread is about to try `__start_thread` -/

/-- The client is about to attempt `__start_thread`: in `start` from the `qsize` read on, or in `enqueue` after the
    growth test `nb_pending_task > nb_threads` succeeded. -/
def inWindow (c : Client) : Bool :=
  match c.pc with
  | .startQsize | .stAcq _ | .stIsSet _ | .enqStAcq | .enqStIsSet => true
  | _ => false

@[simp] theorem inWindow_notifyIf (b : Bool) (c : Client) : inWindow (notifyIf b c) = inWindow c := by
  cases c with | mk pc ret => cases pc <;> cases b <;> simp [notifyIf, notifyClient, inWindow]

@[simp] theorem countP_inWindow_notify (b : Bool) (l : List Client) :
    (l.map (notifyIf b)).countP inWindow = l.countP inWindow :=
  countP_map_eq _ _ _ (inWindow_notifyIf b)

def GrowInv (s : State) : Prop :=
  s.cfg.startMayFail = false → s.stop = false → 1 ≤ s.cfg.max → 1 ≤ s.queue.countP isTask → 1 ≤ s.nbThreads + s.clients.countP inWindow

theorem GrowInv_init (cfg : Config) (n : Nat) : GrowInv (init cfg n) := by
  intro _ h; simp [init] at h

/-- `nb_threads` is decremented by a worker on retirement (`nb_threads > min ∧ nb_threads > nb_pending_task`) and in the
    exit section of a worker that has not retired. -/
theorem worker_threads_frame {s s' : State} {i : Nat} {w : Worker} {op : Op} {tmo : Bool}
    (h : workerStep s i w op tmo = some s') :
    s'.nbThreads = s.nbThreads ∨
    (s'.nbThreads = s.nbThreads - 1 ∧ s'.queue = s.queue ∧
      ((w.pc = .retAcq ∧ retires s = true) ∨ (w.pc = .exitAcq ∧ w.cleaned = false))) := by
  unfold workerStep at h
  step_cases
  all_goals (
    try clear h
    first
    | exact Or.inl rfl
    | exact Or.inr ⟨rfl, rfl, Or.inl ⟨‹_›, ‹_›⟩⟩
    | exact Or.inr ⟨rfl, rfl, Or.inr ⟨‹_›, by simpa using ‹¬ w.cleaned = true›⟩⟩)

theorem countP_isTask_tail {x : Item} {q rest : List Item} (h : q = x :: rest) :
    rest.countP isTask ≤ q.countP isTask := by
  rw [h, List.countP_cons]; omega

theorem GrowInv_worker {s s' : State} {i : Nat} {w : Worker} {op : Op} {tmo : Bool}
    (hw : s.workers[i]? = some w) (hB : BaseInv s) (hSv : ServInv s) (hI : GrowInv s)
    (h : workerStep s i w op tmo = some s') : GrowInv s' := by
  obtain ⟨hcfg, hstop, ⟨b, hcl⟩, _⟩ := worker_frame h
  intro hnf hs hm hq
  rw [hstop] at hs
  rw [hcfg] at hm hnf
  rw [hcl, countP_inWindow_notify]
  have hq0 : 1 ≤ s.queue.countP isTask := by
    rcases worker_queue_frame h with e | ⟨x, e, _⟩
    · rw [e] at hq; exact hq
    · exact Nat.le_trans hq (countP_isTask_tail e)
  have hold := hI hnf hs hm hq0
  rcases worker_threads_frame h with e | ⟨e, eq, ⟨hpc, hret⟩ | ⟨hpc, hcl⟩⟩
  · rw [e]; exact hold
  · have hpend := hB.count.pending
    simp [retires] at hret
    rw [e]; omega
  · exfalso
    have := hSv hs i w hw (by simp [counted, hpc, hcl])
    simp [serving, exiting, hpc] at this

/-- What a client step does to `nb_threads` and to the "about to start a thread" window. -/
theorem client_grow_frame {s s' : State} {i : Nat} {c c' : Client} {op : Op} {tmo : Bool}
    (hc : s.clients[i]? = some c) (h : clientStep s i c op tmo = some s') (hc' : s'.clients[i]? = some c') :
    (s'.nbThreads = s.nbThreads ∨ s'.nbThreads = s.nbThreads + 1) ∧
    (inWindow c = true → inWindow c' = false →
        s'.stop = true ∨ s'.nbThreads = s.nbThreads + 1 ∨ s.cfg.max ≤ s.nbThreads ∨
        clamp s.queue.length s.cfg.min s.cfg.max = 0 ∨ s.cfg.startMayFail = true) ∧
    (c.pc = .startClear → inWindow c' = true) ∧
    (∀ t, c.pc = .enqPut t → s'.queue ≠ s.queue → inWindow c' = true ∨ s.nbPending + 1 ≤ s.nbThreads) := by
  have hlt : i < s.clients.length := (List.getElem?_eq_some_iff.mp hc).1
  unfold clientStep at h
  step_cases
  all_goals (
    try clear h
    simp only [setClient, tdone, acq, rel, updTask, put, spawnWorker] at hc'
    simp [hlt] at hc'
    subst hc'
    refine ⟨?_, ?_, ?_, ?_⟩
    · first
      | exact Or.inl rfl
      | exact Or.inr rfl
    · first
      | (simp [inWindow, *]; done)
      | (split <;> simp [inWindow, *]; done)
      | (simp [inWindow, *]; omega)
      | (simp [inWindow, setClient, spawnWorker, *] at *; done)
    · first
      | (simp [inWindow, *]; done)
      | (split <;> simp [inWindow, *]; done)
    · first
      | (simp [inWindow, *]; done)
      | (split <;> simp [inWindow, setClient, *]; done)
      | (simp [inWindow, setClient, *]; done)
      | (simp [inWindow, setClient, *]; omega))

theorem clamp_zero {q lo hi : Nat} (h : clamp q lo hi = 0) (hhi : 1 ≤ hi) : q = 0 := by
  unfold clamp at h
  split at h
  · omega
  · split at h <;> omega

theorem GrowInv_client {s s' : State} {i : Nat} {c : Client} {op : Op} {tmo : Bool}
    (hc : s.clients[i]? = some c) (hI : GrowInv s) (h : clientStep s i c op tmo = some s') : GrowInv s' := by
  obtain ⟨hcfg, cl0, c', hcl, hcl0, ⟨hst1, hst2, hst3⟩, _⟩ := client_frame h
  have hlt : i < s.clients.length := (List.getElem?_eq_some_iff.mp hc).1
  have hb : ∃ b, cl0 = s.clients.map (notifyIf b) := by
    rcases hcl0 with rfl | hb
    · refine ⟨false, ?_⟩
      have : notifyIf false = id := by funext c; simp [notifyIf]
      rw [this]; simp
    · exact hb
  obtain ⟨b, rfl⟩ := hb
  have hself : s'.clients[i]? = some c' := by rw [hcl]; simp [hlt]
  obtain ⟨hth, hleave, hclear, hput⟩ := client_grow_frame hc h hself
  have hcount : s'.clients.countP inWindow =
      s.clients.countP inWindow - (if inWindow c then 1 else 0) + (if inWindow c' then 1 else 0) := by
    rw [hcl]; exact countP_set_map_eq inWindow _ (inWindow_notifyIf _) hc c'
  have hle := countP_ge inWindow hc
  intro hnf hs hm hq
  rw [hcfg] at hm hnf
  rw [hcount]
  by_cases e1 : c.pc = .startClear
  · rw [hclear e1]; simp; omega
  · have e2 : c.pc ≠ .stopSet := by
      intro e2; rw [(hst3 e2).1] at hs; cases hs
    have hs0 : s.stop = false := by rw [← hst1 e1 e2]; exact hs
    rcases client_queue_frame hc h hself with ⟨hq', _⟩ | ⟨t, hq', hpc⟩ | ⟨hq', _, _⟩ | ⟨x, hq', _, _⟩
    all_goals (try (
      have hq0 : 1 ≤ s.queue.countP isTask := by
        first
        | (rw [hq'] at hq; exact hq)
        | (rw [hq'] at hq; simpa [List.countP_append, isTask] using hq)
        | exact Nat.le_trans hq (countP_isTask_tail hq')
      have hold := hI hnf hs0 hm hq0
      by_cases hw : inWindow c = true
      · by_cases hw' : inWindow c' = true
        · simp [hw, hw'] at hle ⊢; omega
        · have hw'' : inWindow c' = false := by simpa using hw'
          rcases hleave hw hw'' with g | g | g | g | g
          · rw [hs] at g; cases g
          · omega
          · omega
          · have hlen := clamp_zero g hm
            have := List.countP_le_length (p := isTask) (l := s.queue)
            omega
          · rw [hnf] at g; cases g
      · simp [hw] at hle ⊢
        split <;> omega))
    · -- a task has been put in the queue: the growth rule of `enqueue`
      have hne : s'.queue ≠ s.queue := by rw [hq']; simp
      rcases hput t hpc hne with g | g
      · simp [g]; omega
      · omega

/-! ### assembly -/

/-- The invariants of this file and those they rest on. -/
structure LiveInv (s : State) : Prop where
  base : BaseInv s
  lock : LockInv s
  stop : StopInv s
  nosent : NoSentInv s
  serv : ServInv s
  grow : GrowInv s

theorem LiveInv_reach {cfg : Config} {n : Nat} {s : State} (hctl : cfg.singleCtl = true) (hr : Reach (init cfg n) s) :
    LiveInv s := by
  refine Reach.induct (P := LiveInv)
    ⟨BaseInv_init cfg n, LockInv_init cfg n, StopInv_init cfg n, NoSentInv_init cfg n, ServInv_init cfg n,
      GrowInv_init cfg n⟩ ?_ s hr
  intro s a s' hrs hI h
  have hc : s.cfg.singleCtl = true := by rw [reach_cfg hrs]; exact hctl
  refine ⟨BaseInv_step hI.base h, LockInv_step hI.lock h, StopInv_step hc hI.lock hI.stop h, ?_, ?_, ?_⟩
  all_goals (
    unfold step? at h
    split at h
    · split at h
      · rename_i i w hw
        first
        | exact NoSentInv_worker hI.nosent h
        | exact ServInv_worker hw hI.nosent hI.serv h
        | exact GrowInv_worker hw hI.base hI.serv hI.grow h
      · simp at h
    · split at h
      · rename_i i c hc
        first
        | exact NoSentInv_client hc hI.stop hI.nosent h
        | exact ServInv_client hc hI.stop hI.serv h
        | exact GrowInv_client hc hI.grow h
      · simp at h)

end JRV.Pool
