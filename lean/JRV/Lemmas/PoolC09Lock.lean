/-
  C09, mutual exclusion of the pool lock, exactly: the depth of the re-entrant lock equals the nesting depth of the
  program counter of its owner, every other thread is outside its critical sections.
-/
import JRV.Lemmas.PoolC09Base
import JRV.Lemmas.PoolLock

set_option linter.unusedSimpArgs false
set_option linter.unusedVariables false

namespace JRV.Pool

/-- How many times the worker holds the pool lock at a program counter. -/
def wDepth (pc : WPc) : Nat :=
  match pc with
  | .actRel | .finRel | .retRel | .retRelExit | .exitRel => 1
  | _ => 0

structure LockInv (s : State) : Prop where
  cl : ∀ (j : Nat) (c : Client), s.clients[j]? = some c →
        cDepth c.pc = if s.lockOwner = some (.client j) then s.lockDepth else 0
  wk : ∀ (j : Nat) (w : Worker), s.workers[j]? = some w →
        wDepth w.pc = if s.lockOwner = some (.worker j) then s.lockDepth else 0
  pos : s.lockOwner = none ∨ s.lockDepth ≠ 0
  ocl : ∀ j, s.lockOwner = some (.client j) → j < s.clients.length
  owk : ∀ j, s.lockOwner = some (.worker j) → j < s.workers.length

theorem LockInv_init (cfg : Config) (n : Nat) : LockInv (init cfg n) := by
  refine ⟨?_, ?_, ?_, ?_, ?_⟩ <;> simp [init]
  intro j c hj
  have := List.mem_of_getElem? hj
  simp at this; obtain ⟨_, rfl⟩ := this; simp [cDepth]

theorem LockInv_worker {s s' : State} {i : Nat} {w : Worker} {op : Op} {tmo : Bool}
    (hw : s.workers[i]? = some w) (hI : LockInv s) (h : workerStep s i w op tmo = some s') : LockInv s' := by
  obtain ⟨cl, wk, pos, ocl, owk⟩ := hI
  have hme := wk i w hw
  have hlt : i < s.workers.length := (List.getElem?_eq_some_iff.mp hw).1
  unfold workerStep at h
  step_cases
  all_goals (
    refine ⟨?_, ?_, ?_, ?_, ?_⟩
    · intro j c hj
      simp only [setWorker, tdone, acq, rel, updTask] at hj ⊢
      have hold : cDepth c.pc = if s.lockOwner = some (.client j) then s.lockDepth else 0 := by
        first
        | exact cl j c hj
        | (obtain ⟨c0, hj0, rfl⟩ := getElem?_map_notify hj
           simpa using cl j c0 hj0)
      clear cl wk ocl owk
      first
      | exact hold
      | (simp only [canAcquire, canRelease, wDepth] at *; grind)
    · intro j wj hj
      simp only [setWorker, tdone, acq, rel, updTask, List.getElem?_set] at hj ⊢
      split at hj
      · have hij : i = j := by assumption
        subst hij
        simp [hlt] at hj; subst hj
        clear cl wk ocl owk
        simp only [canAcquire, canRelease, wDepth] at *; grind
      · have hold := wk j wj hj
        have hne : i ≠ j := by assumption
        clear cl wk ocl owk
        first
        | exact hold
        | (simp only [canAcquire, canRelease, wDepth] at *; grind)
    · simp only [setWorker, tdone, acq, rel, updTask]
      clear cl wk ocl owk
      first
      | exact pos
      | (simp only [canAcquire, canRelease, wDepth] at *; grind)
    · intro j hj
      simp only [setWorker, tdone, acq, rel, updTask, List.length_set, List.length_map] at hj ⊢
      first
      | exact ocl j hj
      | (simp only [canAcquire, canRelease, wDepth] at *; grind)
    · intro j hj
      simp only [setWorker, tdone, acq, rel, updTask, List.length_set, List.length_map] at hj ⊢
      first
      | exact owk j hj
      | (simp only [canAcquire, canRelease, wDepth] at *; grind))

theorem LockInv_client {s s' : State} {i : Nat} {c : Client} {op : Op} {tmo : Bool}
    (hc : s.clients[i]? = some c) (hI : LockInv s) (h : clientStep s i c op tmo = some s') : LockInv s' := by
  obtain ⟨cl, wk, pos, ocl, owk⟩ := hI
  have hme := cl i c hc
  have hlt : i < s.clients.length := (List.getElem?_eq_some_iff.mp hc).1
  unfold clientStep at h
  step_cases
  all_goals (
    refine ⟨?_, ?_, ?_, ?_, ?_⟩
    · intro j cj hj
      simp only [setClient, tdone, acq, rel, updTask, put, spawnWorker, apply_ite State.clients, apply_ite State.lockOwner,
        apply_ite State.lockDepth, ite_self, List.getElem?_set] at hj ⊢
      split at hj
      · have hij : i = j := by assumption
        subst hij
        simp [hlt] at hj; subst hj
        clear cl wk ocl owk
        simp only [canAcquire, canRelease, cDepth] at *; grind
      · have hne : i ≠ j := by assumption
        have hold : cDepth cj.pc = if s.lockOwner = some (.client j) then s.lockDepth else 0 := by
          first
          | exact cl j cj hj
          | (obtain ⟨c0, hj0, rfl⟩ := getElem?_map_notify hj
             simpa using cl j c0 hj0)
        clear cl wk ocl owk
        first
        | exact hold
        | (simp only [canAcquire, canRelease, cDepth] at *; grind)
    · intro j wj hj
      simp only [setClient, tdone, acq, rel, updTask, put, spawnWorker, apply_ite State.workers, apply_ite State.lockOwner,
        apply_ite State.lockDepth, ite_self] at hj ⊢
      have hold : wDepth wj.pc = if s.lockOwner = some (.worker j) then s.lockDepth else 0 := by
        have key : ∀ (j : Nat) (w : Worker), (s.workers ++ [({} : Worker)])[j]? = some w →
            wDepth w.pc = if s.lockOwner = some (.worker j) then s.lockDepth else 0 := by
          intro j w hj
          rw [List.getElem?_append] at hj
          split at hj
          · exact wk j w hj
          · rename_i hge
            have := List.mem_of_getElem? hj
            simp at this; subst this
            have : s.lockOwner ≠ some (.worker j) := fun ho => hge (owk j ho)
            simp [wDepth, this]
        first
        | exact wk j wj hj
        | exact key j wj hj
        | (split at hj
           · exact wk j wj hj
           · exact key j wj hj)
      clear cl wk ocl owk
      first
      | exact hold
      | (simp only [canAcquire, canRelease, cDepth] at *; grind)
    · simp only [setClient, tdone, acq, rel, updTask, put, spawnWorker, apply_ite State.lockOwner, apply_ite State.lockDepth,
        ite_self]
      clear cl wk ocl owk
      first
      | exact pos
      | (simp only [canAcquire, canRelease, cDepth] at *; grind)
    · intro j hj
      simp only [setClient, tdone, acq, rel, updTask, put, spawnWorker, apply_ite State.clients, apply_ite State.lockOwner,
        ite_self, List.length_set, List.length_map] at hj ⊢
      first
      | exact ocl j hj
      | (simp only [canAcquire, canRelease, cDepth] at *; grind)
    · intro j hj
      simp only [setClient, tdone, acq, rel, updTask, put, spawnWorker, apply_ite State.workers, apply_ite State.lockOwner,
        ite_self, List.length_set, List.length_map, List.length_append, apply_ite List.length] at hj ⊢
      have hold : s.lockOwner = some (.worker j) → j < s.workers.length := owk j
      clear cl wk ocl owk
      first
      | exact hold hj
      | (simp only [canAcquire, canRelease, cDepth] at *; grind))

theorem LockInv_step {s s' : State} {a : Action} (hI : LockInv s) (h : step? s a = some s') : LockInv s' := by
  unfold step? at h
  split at h
  · split at h
    · rename_i i w hw
      exact LockInv_worker hw hI h
    · simp at h
  · split at h
    · rename_i i c hc
      exact LockInv_client hc hI h
    · simp at h

theorem LockInv_reach {cfg : Config} {n : Nat} {s : State} (hr : Reach (init cfg n) s) : LockInv s :=
  Reach.induct (LockInv_init cfg n) (fun _ _ _ _ hI h => LockInv_step hI h) s hr

/-- While a client holds the pool lock no worker is inside a critical section. -/
theorem LockInv.no_worker_in_cs {s : State} (hI : LockInv s) {j : Nat} (ho : s.lockOwner = some (.client j))
    {i : Nat} {w : Worker} (hw : s.workers[i]? = some w) : wDepth w.pc = 0 := by
  have := hI.wk i w hw
  simp [ho] at this; exact this

/-- While the pool lock is free no thread is inside a critical section. -/
theorem LockInv.free_worker {s : State} (hI : LockInv s) (ho : s.lockOwner = none)
    {i : Nat} {w : Worker} (hw : s.workers[i]? = some w) : wDepth w.pc = 0 := by
  have := hI.wk i w hw
  simp [ho] at this; exact this

end JRV.Pool
