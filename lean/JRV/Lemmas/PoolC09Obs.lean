/-
  C09, observations of a future: what a done future shows never changes again.  One step of any thread leaves a task
  whose future is done with the same `futDone` / `futVal` / `outcome` (and phase `finished`): the only steps that write
  these fields act on the task the stepping worker holds, in phase `running` (`task.end`) or at `fut.set` — where the
  value written is the outcome the future already shows.
-/
import JRV.Lemmas.PoolC09Fut
import JRV.Lemmas.PoolC09Base

set_option linter.unusedSimpArgs false
set_option linter.unusedVariables false

namespace JRV.Pool

/-- The observable part of a future is unchanged: same task slot, done, same value, same outcome, finished. -/
def sameDone (tk tk' : Task) : Prop :=
  tk'.futDone = true ∧ tk'.futVal = tk.futVal ∧ tk'.outcome = tk.outcome ∧ tk'.phase = .finished

theorem done_stable_worker {s s' : State} {i : Nat} {w : Worker} {op : Op} {tmo : Bool}
    (hw : s.workers[i]? = some w) (hT : TaskInv s) (hI : FutInv s) (h : workerStep s i w op tmo = some s')
    {t : Nat} {tk : Task} (ht : s.tasks[t]? = some tk) (hd : tk.futDone = true) :
    ∃ tk', s'.tasks[t]? = some tk' ∧ sameDone tk tk' := by
  have hwh := hT.wheld i w hw
  have hq := hT.qphase
  have hres := hI.res i w hw
  obtain ⟨hph, hval⟩ := hI.done t tk ht hd
  unfold workerStep at h
  step_cases
  all_goals (
    simp only [setWorker, tdone, acq, rel, updTask]
    first
    | exact ⟨tk, ht, hd, rfl, rfl, hph⟩
    | (rw [List.getElem?_modify, ht]
       simp only [Option.map_eq_map, Option.map_some]
       refine ⟨_, rfl, ?_⟩
       split
       · rename_i heq; subst heq
         simp [phaseOfPc, *] at hwh hq hres
         simp_all [sameDone]
       · exact ⟨hd, rfl, rfl, hph⟩))

theorem done_stable_client {s s' : State} {i : Nat} {c : Client} {op : Op} {tmo : Bool}
    (hc : s.clients[i]? = some c) (hT : TaskInv s) (hI : FutInv s) (h : clientStep s i c op tmo = some s')
    {t : Nat} {tk : Task} (ht : s.tasks[t]? = some tk) (hd : tk.futDone = true) :
    ∃ tk', s'.tasks[t]? = some tk' ∧ sameDone tk tk' := by
  have hce := hT.cenq i c hc
  have hq := hT.qphase
  obtain ⟨hph, hval⟩ := hI.done t tk ht hd
  have hlt : t < s.tasks.length := (List.getElem?_eq_some_iff.mp ht).1
  unfold clientStep at h
  step_cases
  all_goals (
    simp only [setClient, tdone, acq, rel, updTask, put, spawnWorker, apply_ite State.tasks, ite_self]
    first
    | exact ⟨tk, ht, hd, rfl, rfl, hph⟩
    | (refine ⟨tk, ?_, hd, rfl, rfl, hph⟩
       rw [List.getElem?_append_left hlt]; exact ht)
    | (rw [List.getElem?_modify, ht]
       simp only [Option.map_eq_map, Option.map_some]
       refine ⟨_, rfl, ?_⟩
       split
       · rename_i heq; subst heq
         simp [enqTask, *] at hce hq
         simp_all [sameDone]
       · exact ⟨hd, rfl, rfl, hph⟩))

theorem done_stable_step {s s' : State} {a : Action} (hT : TaskInv s) (hI : FutInv s) (h : step? s a = some s')
    {t : Nat} {tk : Task} (ht : s.tasks[t]? = some tk) (hd : tk.futDone = true) :
    ∃ tk', s'.tasks[t]? = some tk' ∧ sameDone tk tk' := by
  unfold step? at h
  split at h
  · split at h
    · rename_i i w hw
      exact done_stable_worker hw hT hI h ht hd
    · simp at h
  · split at h
    · rename_i i c hc
      exact done_stable_client hc hT hI h ht hd
    · simp at h

/-- Along any run from a reachable state, a future that is done stays done and keeps showing the same outcome. -/
theorem done_stable_reach {cfg : Config} {n : Nat} {s s' : State} (hr : Reach (init cfg n) s) (hr' : Reach s s')
    {t : Nat} {tk : Task} (ht : s.tasks[t]? = some tk) (hd : tk.futDone = true) :
    ∃ tk', s'.tasks[t]? = some tk' ∧ sameDone tk tk' := by
  induction hr' with
  | refl =>
    exact ⟨tk, ht, hd, rfl, rfl, ((FutInv_reach hr).done t tk ht hd).1⟩
  | step a hmid hs ih =>
    obtain ⟨tk1, ht1, hd1, hv1, ho1, _⟩ := ih
    have hrm := Reach.trans hr hmid
    obtain ⟨tk2, ht2, hd2, hv2, ho2, hp2⟩ := done_stable_step (TaskInv_reach hrm) (FutInv_reach hrm) hs ht1 hd1
    exact ⟨tk2, ht2, hd2, hv2.trans hv1, ho2.trans ho1, hp2⟩

end JRV.Pool
