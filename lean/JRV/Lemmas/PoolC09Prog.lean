/-
  C09, progress: enabledness of the worker actions and the variant that decreases along them.
-/
import JRV.Lemmas.PoolC09Live
import JRV.Lemmas.PoolC09Fifo

set_option linter.unusedSimpArgs false
set_option linter.unusedVariables false

namespace JRV.Pool

/-- The operation is not the environment's `task.end`. -/
def notTaskEnd (op : Op) : Bool :=
  match op with
  | .taskEnd _ => false
  | _ => true

theorem exists_of_isSome {α} {o : Option α} (h : o.isSome = true) : ∃ a, o = some a := by
  cases o with
  | none => cases h
  | some a => exact ⟨a, rfl⟩

/-- A worker that owns the pool lock can release it. -/
theorem enabled_release {s : State} (hL : LockInv s) {j : Nat} (ho : s.lockOwner = some (.worker j)) :
    ∃ s', step? s ⟨.worker j, .lockRelease, false⟩ = some s' := by
  have hlt := hL.owk j ho
  have hw : s.workers[j]? = some s.workers[j] := List.getElem?_eq_getElem hlt
  have hd := hL.wk j _ hw
  simp [ho] at hd
  have hpos : s.lockDepth ≠ 0 := by
    rcases hL.pos with h | h
    · rw [ho] at h; cases h
    · exact h
  have hcr : canRelease s (.worker j) = true := by simp [canRelease, ho, hpos]
  simp only [step?, hw]
  generalize s.workers[j] = w at *
  cases hp : w.pc <;> simp [hp, wDepth] at hd <;> first | (exact absurd hd.symm hpos) | exact exists_of_isSome (by simp [workerStep, hp, hcr])

/-- With the pool lock free, a worker inside the loop is in a task body or has an enabled action that is neither a
    time-out nor `task.end` — provided the queue holds a task when the worker is at `queue.get`. -/
theorem enabled_of_serving {s : State} (hB : BaseInv s) (hL : LockInv s) (hN : NoSentInv s) (hT : TaskInv s)
    (hfree : s.lockOwner = none) (hs : s.stop = false) {i : Nat} {w : Worker} (hw : s.workers[i]? = some w)
    (hserv : serving w.pc = true) (hget : w.pc = .get → ∃ t, Item.task t ∈ s.queue) :
    w.pc = .body ∨ ∃ op, notTaskEnd op = true ∧ ∃ s', step? s ⟨.worker i, op, false⟩ = some s' := by
  have hd := hL.wk i w hw
  simp [hfree] at hd
  have hca : canAcquire s (.worker i) = true := by simp [canAcquire, hfree]
  have hheld : ∀ ph, phaseOfPc w.pc = some ph → ∃ t, w.held = some t ∧ t < s.tasks.length := by
    intro ph hp
    obtain ⟨t, tk, g1, g2, _⟩ := hT.wheld i w hw ph hp
    exact ⟨t, g1, (List.getElem?_eq_some_iff.mp g2).1⟩
  cases hp : w.pc
  case body => exact Or.inl rfl
  all_goals right
  case loopHead => exact ⟨.eventIsSet, rfl, exists_of_isSome (by simp [step?, hw, workerStep, hp])⟩
  case get =>
    obtain ⟨t, ht⟩ := hget hp
    cases hq : s.queue with
    | nil => rw [hq] at ht; cases ht
    | cons x rest =>
      cases x with
      | sentinel =>
        have := (hN (by rw [hq]; simp)).1
        rw [hs] at this; cases this
      | task t0 =>
        obtain ⟨tk, g, _⟩ := hT.qphase t0 (by rw [hq]; simp)
        have hlt := (List.getElem?_eq_some_iff.mp g).1
        exact ⟨.queueGet, rfl, exists_of_isSome (by simp [step?, hw, workerStep, hp, hq, hlt])⟩
  case sentDone => simp [serving, hp] at hserv
  case actAcq => exact ⟨.lockAcquire, rfl, exists_of_isSome (by simp [step?, hw, workerStep, hp, hca])⟩
  case actRel => simp [hp, wDepth] at hd
  case begin =>
    obtain ⟨t, g1, g2⟩ := hheld .held (by simp [hp, phaseOfPc])
    exact ⟨.taskBegin, rfl, exists_of_isSome (by simp [step?, hw, workerStep, hp, g1, g2])⟩
  case futSet =>
    obtain ⟨t, g1, g2⟩ := hheld .finished (by simp [hp, phaseOfPc])
    exact ⟨.futSet, rfl, exists_of_isSome (by simp [step?, hw, workerStep, hp, g1, g2])⟩
  case taskDone =>
    have h1 := countP_ge wHoldsItem hw
    have h2 := hB.unf
    unfold UnfInv at h2
    have hh : wHoldsItem w = true := by simp [wHoldsItem, hp]
    rw [hh] at h1; simp only [if_true] at h1
    have hu : s.unfinished ≠ 0 := by omega
    exact ⟨.queueTaskDone, rfl, exists_of_isSome (by simp [step?, hw, workerStep, hp, hu])⟩
  case finAcq =>
    have h1 := countP_ge wHasTask hw
    have h2 := countP_ge active hw
    have h3 := hB.count.pending
    have h4 := hB.count.active
    have hh1 : wHasTask w = true := by simp [wHasTask, hp]
    have hh2 : active w = true := by simp [active, hp]
    rw [hh1] at h1; rw [hh2] at h2; simp only [if_true] at h1 h2
    have hu : s.nbPending ≠ 0 := by omega
    have hv : s.nbActive ≠ 0 := by omega
    exact ⟨.lockAcquire, rfl, exists_of_isSome (by simp [step?, hw, workerStep, hp, hca, hu, hv])⟩
  case finRel => simp [hp, wDepth] at hd
  case retAcq =>
    by_cases hr : retires s = true
    · exact ⟨.lockAcquire, rfl, exists_of_isSome (by simp [step?, hw, workerStep, hp, hca, hr])⟩
    · exact ⟨.lockAcquire, rfl, exists_of_isSome (by simp [step?, hw, workerStep, hp, hca, hr])⟩
  case retRel => simp [hp, wDepth] at hd
  case retRelExit => simp [serving, exiting, hp] at hserv
  case exitAcq => simp [serving, exiting, hp] at hserv
  case exitRel => simp [serving, exiting, hp] at hserv
  case dead => simp [serving, exiting, hp] at hserv

/-! ### the variant -/

/-- Remaining steps of a worker up to its next `queue.get` (or to its termination). -/
def rank (pc : WPc) : Nat :=
  match pc with
  | .dead => 0 | .exitRel => 1 | .exitAcq => 2 | .retRelExit => 3 | .sentDone => 3 | .get => 3 | .loopHead => 4
  | .retRel => 5 | .retAcq => 6 | .finRel => 7 | .finAcq => 8 | .taskDone => 9 | .futSet => 10 | .body => 11
  | .begin => 12 | .actRel => 13 | .actAcq => 14

def rankSum (l : List Worker) : Nat := (l.map (fun w => rank w.pc)).sum

/-- The variant: every queued item stands for one more turn of the loop (12 steps). -/
def progressMeasure (s : State) : Nat := 12 * s.queue.length + rankSum s.workers

theorem rankSum_set {l : List Worker} {i : Nat} {w : Worker} (h : l[i]? = some w) (a : Worker) :
    rankSum (l.set i a) + rank w.pc = rankSum l + rank a.pc := by
  induction l generalizing i with
  | nil => simp at h
  | cons x xs ih =>
    cases i with
    | zero =>
      simp at h; subst h
      simp [rankSum]; omega
    | succ n =>
      simp at h
      have := ih h
      simp [rankSum] at this ⊢; omega

/-- Every worker step other than a time-out decreases the variant. -/
theorem measure_decreases {s s' : State} {i : Nat} {w : Worker} {op : Op}
    (hw : s.workers[i]? = some w) (h : workerStep s i w op false = some s') :
    progressMeasure s' < progressMeasure s := by
  have hge : rank w.pc ≤ rankSum s.workers := by
    have := rankSum_set hw { pc := .dead }
    have h0 : rank ({ pc := .dead } : Worker).pc = 0 := rfl
    omega
  have key : ∀ a : Worker, rankSum (s.workers.set i a) = rankSum s.workers + rank a.pc - rank w.pc := by
    intro a; have := rankSum_set hw a; omega
  unfold workerStep at h
  step_cases
  all_goals (
    try clear h
    simp only [progressMeasure, setWorker, tdone, acq, rel, updTask, key]
    first
    | exact absurd ‹false = true› (by decide)
    | (simp only [*] at hge ⊢
       first
       | (simp [rank] at hge ⊢ <;> omega)
       | (split <;> simp [rank] at hge ⊢ <;> omega)))

/-! ### a waiting task keeps waiting, or begins -/

/-- A worker step moves a task along `queued → held → running → finished`, one stage at most. -/
theorem worker_phase_step {s s' : State} {i : Nat} {w : Worker} {op : Op} {tmo : Bool}
    (hw : s.workers[i]? = some w) (hT : TaskInv s) (h : workerStep s i w op tmo = some s')
    (t : Nat) (ph : Phase) (hph : phaseAt s t = some ph) :
    phaseAt s' t = some ph ∨ (ph = .queued ∧ phaseAt s' t = some .held) ∨
    (ph = .held ∧ phaseAt s' t = some .running) ∨ (ph = .running ∧ phaseAt s' t = some .finished) := by
  have hqp : ∀ t0, Item.task t0 ∈ s.queue → phaseAt s t0 = some .queued := fun t0 ht =>
    phaseAt_eq_some.mpr (hT.qphase t0 ht)
  rcases worker_task_frame3 hw hT h with ⟨g, _⟩ | ⟨t0, hq, _, h0', g⟩ | ⟨t0, _, h0, g⟩
  · left; rw [g]; exact hph
  · by_cases e : t = t0
    · subst e
      have := hqp t (by rw [hq]; simp)
      rw [this] at hph; cases hph
      exact Or.inr (Or.inl ⟨rfl, h0'⟩)
    · left; rw [g t e]; exact hph
  · by_cases e : t = t0
    · subst e
      rcases h0 with ⟨g1, g2⟩ | ⟨g1, g2⟩
      · rw [g1] at hph; cases hph; exact Or.inr (Or.inr (Or.inl ⟨rfl, g2⟩))
      · rw [g1] at hph; cases hph; exact Or.inr (Or.inr (Or.inr ⟨rfl, g2⟩))
    · left; rw [g t e]; exact hph

end JRV.Pool
