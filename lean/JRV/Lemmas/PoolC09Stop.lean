/-
  C09, "no task is executed after stop() has returned (until a restart)": the invariant of the controlling thread's
  `stop()` call.  Assumes the configuration flag `singleCtl` (start/stop/clear are issued by client 0 only).

    flag set ⇒ no worker is spawned;   the lock taken by `stop` ⇒ every live worker is listed in `_threads`;
    the join loop passes a worker only when it is dead ⇒ at the end of the loop every worker is dead;
    `del _threads[:]` therefore removes only dead workers.
-/
import JRV.Lemmas.PoolC09Lock

set_option linter.unusedSimpArgs false
set_option linter.unusedVariables false

namespace JRV.Pool

/-- Program counters inside `start`, `stop` or `clear`. -/
def ctlPc (pc : CPc) : Bool :=
  match pc with
  | .startIsSet | .startClear | .startQsize | .stAcq _ | .stIsSet _ | .stRel _
  | .stopIsSet | .stopSet | .stopAcq | .stopPut _ | .stopRel _ | .stopAlive _ | .stopJoin _ | .stopAlive2 _
  | .clrAcq | .clrGet | .clrDone _ | .clrJoin | .clrRel => true
  | _ => false

/-- Inside `stop()`, after `event.set` and up to the end of the join loop. -/
def inStop (pc : CPc) : Bool :=
  match pc with
  | .stopAcq | .stopPut _ | .stopRel _ | .stopAlive _ | .stopJoin _ | .stopAlive2 _ => true
  | _ => false

/-- The copied thread list the join loop of `stop()` still has to go through. -/
def joinCopy (pc : CPc) : Option (List Nat) :=
  match pc with
  | .stopAlive l | .stopJoin l | .stopAlive2 l => some l
  | _ => none

@[simp] theorem ctlPc_notifyIf (b : Bool) (c : Client) : ctlPc (notifyIf b c).pc = ctlPc c.pc := by
  cases c with | mk pc ret => cases pc <;> cases b <;> simp [notifyIf, notifyClient, ctlPc]

@[simp] theorem inStop_notifyIf (b : Bool) (c : Client) : inStop (notifyIf b c).pc = inStop c.pc := by
  cases c with | mk pc ret => cases pc <;> cases b <;> simp [notifyIf, notifyClient, inStop]

@[simp] theorem joinCopy_notifyIf (b : Bool) (c : Client) : joinCopy (notifyIf b c).pc = joinCopy c.pc := by
  cases c with | mk pc ret => cases pc <;> cases b <;> simp [notifyIf, notifyClient, joinCopy]

theorem notifyIf_pc_stopRel {b : Bool} {c : Client} {copy : List Nat} (h : (notifyIf b c).pc = .stopRel copy) :
    c.pc = .stopRel copy := by
  cases c with | mk pc ret => cases pc <;> cases b <;> simp_all [notifyIf, notifyClient]

structure StopInv (s : State) : Prop where
  /-- only client 0 is ever inside `start`/`stop`/`clear` -/
  octl : ∀ (j : Nat) (c : Client), s.clients[j]? = some c → j ≠ 0 → ctlPc c.pc = false
  /-- inside `stop()` the flag is set -/
  flag : ∀ (c : Client), s.clients[0]? = some c → inStop c.pc = true → s.stop = true
  /-- flag set and the controlling thread not inside the join part of `stop()`: every worker has terminated -/
  dead : s.stop = true → (∀ (c : Client), s.clients[0]? = some c → inStop c.pc = false) →
          ∀ (i : Nat) (w : Worker), s.workers[i]? = some w → w.pc = .dead
  /-- a worker is listed in `_threads` until it removes itself in its exit section -/
  listed : ∀ (i : Nat) (w : Worker), s.workers[i]? = some w → w.pc ≠ .exitRel → w.pc ≠ .dead → i ∈ s.threads
  /-- the copy taken by `stop()` under the lock is the thread list -/
  copyEq : ∀ (c : Client) (copy : List Nat), s.clients[0]? = some c → c.pc = .stopRel copy → copy = s.threads
  /-- in the join loop every worker that has not terminated is still to be joined -/
  tojoin : ∀ (c : Client) (copy : List Nat), s.clients[0]? = some c → joinCopy c.pc = some copy →
          ∀ (i : Nat) (w : Worker), s.workers[i]? = some w → w.pc ≠ .dead → i ∈ copy

theorem StopInv_init (cfg : Config) (n : Nat) : StopInv (init cfg n) := by
  have hcl : ∀ (j : Nat) (c : Client), (init cfg n).clients[j]? = some c → c = {} := by
    intro j c hj
    have := List.mem_of_getElem? hj
    simp [init] at this; exact this.2
  refine ⟨?_, ?_, ?_, ?_, ?_, ?_⟩
  · intro j c hj _; rw [hcl j c hj]; rfl
  · intro c hj h; rw [hcl 0 c hj] at h; simp [inStop] at h
  · intro _ _ i w hw; simp [init] at hw
  · intro i w hw; simp [init] at hw
  · intro c copy hj h; rw [hcl 0 c hj] at h; simp at h
  · intro c copy hj h; rw [hcl 0 c hj] at h; simp [joinCopy] at h

/-! ### what a worker step does to the components the invariant talks about -/

theorem worker_frame {s s' : State} {i : Nat} {w : Worker} {op : Op} {tmo : Bool}
    (h : workerStep s i w op tmo = some s') :
    s'.cfg = s.cfg ∧ s'.stop = s.stop ∧ (∃ b, s'.clients = s.clients.map (notifyIf b)) ∧
    ∃ w', s'.workers = s.workers.set i w' ∧ w.pc ≠ .dead ∧ (w'.pc = .dead → w.pc = .exitRel) ∧
      (w'.pc = .exitRel → w.pc = .exitAcq) ∧ (w.pc = .exitRel → w'.pc = .dead) ∧
      (s'.threads = s.threads ∨
        (s'.threads = s.threads.erase i ∧ w'.pc = .exitRel ∧ canAcquire s (.worker i) = true)) := by
  have hid : s.clients = s.clients.map (notifyIf false) := by
    have : notifyIf false = id := by funext c; simp [notifyIf]
    rw [this]; simp
  unfold workerStep at h
  step_cases
  all_goals (
    refine ⟨rfl, rfl, ?_, _, rfl, ?_, ?_, ?_, ?_, ?_⟩
    · first
      | exact ⟨false, hid⟩
      | exact ⟨_, rfl⟩
    · simp [*]
    · first
      | (simp [*]; done)
      | (split <;> simp [*])
    · first
      | (simp [*]; done)
      | (split <;> simp [*])
    · first
      | (simp [*]; done)
      | (split <;> simp [*])
    · first
      | (left; rfl)
      | (right; exact ⟨rfl, rfl, ‹_›⟩))

theorem getElem?_map_notifyIf' {b : Bool} {l : List Client} {j : Nat} {c : Client}
    (h : (l.map (notifyIf b))[j]? = some c) : ∃ c0, l[j]? = some c0 ∧ c = notifyIf b c0 := by
  simp at h
  obtain ⟨c0, h0, rfl⟩ := h
  exact ⟨c0, h0, rfl⟩

theorem StopInv_worker {s s' : State} {i : Nat} {w : Worker} {op : Op} {tmo : Bool}
    (hw : s.workers[i]? = some w) (hL : LockInv s) (hI : StopInv s) (h : workerStep s i w op tmo = some s') :
    StopInv s' := by
  obtain ⟨hcfg, hstop, ⟨b, hcl⟩, w', hws, hnd, hd1, hd2, hd3, hth⟩ := worker_frame h
  have hlt : i < s.workers.length := (List.getElem?_eq_some_iff.mp hw).1
  -- a worker of the successor state is the stepping worker or an unchanged one
  have hwk : ∀ (j : Nat) (wj : Worker), s'.workers[j]? = some wj →
      (j = i ∧ wj = w') ∨ (j ≠ i ∧ s.workers[j]? = some wj) := by
    intro j wj hj
    rw [hws, List.getElem?_set] at hj
    split at hj
    · rename_i hij
      simp [hlt] at hj
      exact Or.inl ⟨hij.symm, hj.symm⟩
    · rename_i hij
      exact Or.inr ⟨fun e => hij e.symm, hj⟩
  have hc0 : ∀ (j : Nat) (c : Client), s'.clients[j]? = some c → ∃ c0, s.clients[j]? = some c0 ∧ c = notifyIf b c0 := by
    intro j c hj
    rw [hcl] at hj
    exact getElem?_map_notifyIf' hj
  refine ⟨?_, ?_, ?_, ?_, ?_, ?_⟩
  · intro j c hj hne
    obtain ⟨c0, h0, rfl⟩ := hc0 j c hj
    simpa using hI.octl j c0 h0 hne
  · intro c hj hin
    obtain ⟨c0, h0, rfl⟩ := hc0 0 c hj
    rw [hstop]
    exact hI.flag c0 h0 (by simpa using hin)
  · intro hst hno j wj hj
    have hall := hI.dead (hstop ▸ hst) (fun c0 h0 => by
      have : s'.clients[0]? = some (notifyIf b c0) := by rw [hcl]; simp [h0]
      simpa using hno _ this)
    exact absurd (hall i w hw) hnd
  · intro j wj hj h1 h2
    rcases hwk j wj hj with ⟨rfl, rfl⟩ | ⟨hne, hj0⟩
    · have hold := hI.listed j w hw (fun e => h2 (hd3 e)) hnd
      rcases hth with hth | ⟨hth, hp, _⟩
      · rw [hth]; exact hold
      · exact absurd hp h1
    · have hold := hI.listed j wj hj0 h1 h2
      rcases hth with hth | ⟨hth, _, _⟩
      · rw [hth]; exact hold
      · rw [hth]; exact (List.mem_erase_of_ne hne).mpr hold
  · intro c copy hj hpc
    obtain ⟨c0, h0, rfl⟩ := hc0 0 c hj
    have hpc0 := notifyIf_pc_stopRel hpc
    have hold := hI.copyEq c0 copy h0 hpc0
    rcases hth with hth | ⟨_, _, hacq⟩
    · rw [hth]; exact hold
    · exfalso
      have := hL.cl 0 c0 h0
      simp [hpc0, cDepth] at this
      simp [canAcquire] at hacq
      have hp := hL.pos
      grind
  · intro c copy hj hpc j wj hwj hndj
    obtain ⟨c0, h0, rfl⟩ := hc0 0 c hj
    have hold := hI.tojoin c0 copy h0 (by simpa using hpc)
    rcases hwk j wj hwj with ⟨rfl, rfl⟩ | ⟨hne, hj0⟩
    · exact hold j w hw hnd
    · exact hold j wj hj0 hndj

/-! ### what a client step does to the components the invariant talks about -/

theorem client_frame {s s' : State} {i : Nat} {c : Client} {op : Op} {tmo : Bool}
    (h : clientStep s i c op tmo = some s') :
    s'.cfg = s.cfg ∧
    ∃ (cl0 : List Client) (c' : Client), s'.clients = cl0.set i c' ∧ (cl0 = s.clients ∨ ∃ b, cl0 = s.clients.map (notifyIf b)) ∧
      ((c.pc ≠ .startClear → c.pc ≠ .stopSet → s'.stop = s.stop) ∧ (c.pc = .startClear → s'.stop = false) ∧
        (c.pc = .stopSet → s'.stop = true ∧ c'.pc = .stopAcq)) ∧
      ((s'.workers = s.workers ∧ s'.threads = s.threads) ∨
       (s'.workers = s.workers ++ [({} : Worker)] ∧ s'.threads = s.threads ++ [s.workers.length] ∧ s.stop = false) ∨
       (s'.workers = s.workers ∧ s'.threads = [] ∧
          (c.pc = .stopRel [] ∨ ∃ w, c.pc = .stopAlive [w] ∧ workerAlive s w = false))) ∧
      (ctlPc c'.pc = true → ctlPc c.pc = true ∨ isCtl s i = true) ∧
      (inStop c'.pc = true → inStop c.pc = true ∨ c.pc = .stopSet) ∧
      (inStop c.pc = true → inStop c'.pc = false →
          c.pc = .stopRel [] ∨ ∃ w, c.pc = .stopAlive [w] ∧ workerAlive s w = false) ∧
      (∀ copy, c'.pc = .stopRel copy → copy = s.threads ∧ inStop c.pc = true ∧ s'.threads = s.threads) ∧
      (∀ copy, joinCopy c'.pc = some copy → joinCopy c.pc = some copy ∨ c.pc = .stopRel copy ∨
          ∃ w, joinCopy c.pc = some (w :: copy) ∧ workerAlive s w = false) := by
  unfold clientStep at h
  step_cases
  all_goals (
    try clear h
    refine ⟨rfl, _, _, rfl, ?_, ?_, ?_, ?_, ?_, ?_, ?_, ?_⟩
    · first
      | exact Or.inl rfl
      | exact Or.inr ⟨_, rfl⟩
    · refine ⟨?_, ?_, ?_⟩
      · first
        | (intro _ _; rfl)
        | (intro h1 h2; first | exact absurd ‹_› h1 | exact absurd ‹_› h2)
      · first
        | (intro _; rfl)
        | (intro h1; rw [h1] at *; simp_all; done)
        | (intro h1; simp_all)
      · first
        | (intro _; exact ⟨rfl, rfl⟩)
        | (intro h1; rw [h1] at *; simp_all; done)
        | (intro h1; simp_all)
    · first
      | (left; exact ⟨rfl, rfl⟩)
      | (simp only [apply_ite State.workers, apply_ite State.threads, spawnWorker, setClient]
         split
         · left; exact ⟨rfl, rfl⟩
         · right; left; exact ⟨rfl, rfl, by simpa using ‹¬ s.stop = true›⟩)
      | (right; left; exact ⟨rfl, rfl, by simpa using ‹¬ s.stop = true›⟩)
      | (right; right; refine ⟨rfl, rfl, ?_⟩; simp [*])
    · first
      | (simp [ctlPc, isCtl, *]; done)
      | (split <;> simp [ctlPc, isCtl, *]; done)
      | (simp [ctlPc, isCtl] at *; simp [*])
    · first
      | (simp [inStop, *]; done)
      | (split <;> simp [inStop, *]; done)
    · first
      | (simp [inStop, *]; done)
      | (split <;> simp [inStop, *]; done)
    · first
      | (simp [inStop, *]; done)
      | (split <;> simp [inStop, setClient, put, acq, *]; done)
      | (simp [inStop, setClient, put, acq, *]; done)
      | (simp [inStop, setClient, put, acq, *]; exact (List.length_eq_zero_iff.mp ‹_›).symm)
      | (simp [inStop, setClient, put, acq, *]; exact (List.length_eq_zero_iff.mp ‹_›))
    · first
      | (simp [joinCopy, *]; done)
      | (split <;> simp [joinCopy, *]; done))

theorem joinCopy_inStop {pc : CPc} {l : List Nat} (h : joinCopy pc = some l) : inStop pc = true := by
  cases pc <;> simp_all [joinCopy, inStop]

theorem inStop_ctlPc {pc : CPc} (h : inStop pc = true) : ctlPc pc = true := by
  cases pc <;> simp_all [ctlPc, inStop]

theorem workerAlive_of {s : State} {j : Nat} {w : Worker} (hw : s.workers[j]? = some w) (hnd : w.pc ≠ .dead) :
    workerAlive s j = true := by
  simp [workerAlive, hw, hnd]

theorem StopInv_client {s s' : State} {i : Nat} {c : Client} {op : Op} {tmo : Bool}
    (hc : s.clients[i]? = some c) (hctl : s.cfg.singleCtl = true) (hL : LockInv s) (hI : StopInv s)
    (h : clientStep s i c op tmo = some s') : StopInv s' := by
  obtain ⟨hcfg, cl0, c', hcl, hcl0, ⟨hst1, hst2, hst3⟩, hwt, hctlpc, hin, hout, hrel, hjc⟩ := client_frame h
  have hlt : i < s.clients.length := (List.getElem?_eq_some_iff.mp hc).1
  have hb : ∃ b, cl0 = s.clients.map (notifyIf b) := by
    rcases hcl0 with rfl | hb
    · refine ⟨false, ?_⟩
      have : notifyIf false = id := by funext c; simp [notifyIf]
      rw [this]; simp
    · exact hb
  obtain ⟨b, rfl⟩ := hb
  have hcs : ∀ (j : Nat) (cj : Client), s'.clients[j]? = some cj →
      (j = i ∧ cj = c') ∨ (j ≠ i ∧ ∃ c0, s.clients[j]? = some c0 ∧ cj = notifyIf b c0) := by
    intro j cj hj
    rw [hcl, List.getElem?_set] at hj
    split at hj
    · rename_i hij
      simp [hlt] at hj
      exact Or.inl ⟨hij.symm, hj.symm⟩
    · rename_i hij
      exact Or.inr ⟨fun e => hij e.symm, getElem?_map_notifyIf' hj⟩
  have hself : s'.clients[i]? = some c' := by rw [hcl]; simp [hlt]
  have hother : ∀ (j : Nat) (c0 : Client), j ≠ i → s.clients[j]? = some c0 → s'.clients[j]? = some (notifyIf b c0) := by
    intro j c0 hne h0
    rw [hcl, List.getElem?_set]; simp [Ne.symm hne, h0]
  -- a non-controlling client is outside start/stop/clear
  have hnc : i ≠ 0 → ctlPc c.pc = false := hI.octl i c hc
  have hi0 : ctlPc c.pc = true → i = 0 := by
    intro hp; by_cases h0 : i = 0
    · exact h0
    · rw [hnc h0] at hp; cases hp
  have hnctl : i ≠ 0 → isCtl s i = false := by
    intro h0; simp [isCtl, hctl, h0]
  -- at the two exits of the join loop every worker has terminated
  have hexit : (c.pc = .stopRel [] ∨ ∃ w, c.pc = .stopAlive [w] ∧ workerAlive s w = false) →
      ∀ (j : Nat) (wj : Worker), s.workers[j]? = some wj → wj.pc = .dead := by
    intro hx j wj hj
    have hi : i = 0 := hi0 (by rcases hx with hx | ⟨w, hx, _⟩ <;> simp [hx, ctlPc])
    subst hi
    by_cases hd : wj.pc = .dead
    · exact hd
    · exfalso
      rcases hx with hx | ⟨w, hx, hna⟩
      · have hown : s.lockOwner = some (.client 0) := by
          have := hL.cl 0 c hc
          simp [hx, cDepth] at this
          by_cases ho : s.lockOwner = some (.client 0)
          · exact ho
          · simp [ho] at this
        have hcs0 := hL.no_worker_in_cs hown hj
        have hne : wj.pc ≠ .exitRel := by intro e; simp [e, wDepth] at hcs0
        have := hI.listed j wj hj hne hd
        rw [← hI.copyEq c [] hc hx] at this
        simp at this
      · have := hI.tojoin c [w] hc (by simp [hx, joinCopy]) j wj hj hd
        simp at this; subst this
        rw [workerAlive_of hj hd] at hna; cases hna
  have hworkers_same : s.stop = true → s'.workers = s.workers := by
    intro hs
    rcases hwt with ⟨h1, _⟩ | ⟨_, _, h3⟩ | ⟨h1, _⟩
    · exact h1
    · rw [hs] at h3; cases h3
    · exact h1
  refine ⟨?_, ?_, ?_, ?_, ?_, ?_⟩
  · -- octl
    intro j cj hj hne
    rcases hcs j cj hj with ⟨hji, hcj⟩ | ⟨_, c0, h0, rfl⟩
    · rw [hcj]; rw [hji] at hne
      cases hp : ctlPc c'.pc with
      | false => rfl
      | true =>
        rcases hctlpc hp with h1 | h1
        · rw [hnc hne] at h1; cases h1
        · rw [hnctl hne] at h1; cases h1
    · simpa using hI.octl j c0 h0 hne
  · -- flag
    intro cj hj hinj
    rcases hcs 0 cj hj with ⟨hi, rfl⟩ | ⟨hne, c0, h0, rfl⟩
    · subst hi
      rcases hin hinj with h1 | h1
      · rw [hst1 (by intro e; simp [e, inStop] at h1) (by intro e; simp [e, inStop] at h1)]
        exact hI.flag c hc h1
      · exact (hst3 h1).1
    · have hinc : inStop c0.pc = true := by simpa using hinj
      have hnci := hnc (fun e => hne e.symm)
      rw [hst1 (by intro e; simp [e, ctlPc] at hnci) (by intro e; simp [e, ctlPc] at hnci)]
      exact hI.flag c0 h0 hinc
  · -- dead
    intro hs hno j wj hj
    by_cases hi : i = 0
    · subst hi
      have hc'in : inStop c'.pc = false := hno c' hself
      by_cases hcin : inStop c.pc = true
      · have hall := hexit (hout hcin hc'in)
        rw [hworkers_same (hI.flag c hc hcin)] at hj
        exact hall j wj hj
      · have hne1 : c.pc ≠ .stopSet := by
          intro e; rw [(hst3 e).2] at hc'in; simp [inStop] at hc'in
        have hne2 : c.pc ≠ .startClear := by
          intro e; rw [hst2 e] at hs; cases hs
        have hs0 : s.stop = true := by rw [← hst1 hne2 hne1]; exact hs
        have hall := hI.dead hs0 (by
          intro c1 h1; rw [hc] at h1; cases h1; simpa using hcin)
        rw [hworkers_same hs0] at hj
        exact hall j wj hj
    · have hnci := hnc hi
      have hs0 : s.stop = true := by
        rw [← hst1 (by intro e; simp [e, ctlPc] at hnci) (by intro e; simp [e, ctlPc] at hnci)]; exact hs
      have hall := hI.dead hs0 (by
        intro c1 h1
        have := hno _ (hother 0 c1 (fun e => hi e.symm) h1)
        simpa using this)
      rw [hworkers_same hs0] at hj
      exact hall j wj hj
  · -- listed
    intro j wj hj h1 h2
    rcases hwt with ⟨e1, e2⟩ | ⟨e1, e2, _⟩ | ⟨e1, e2, hx⟩
    · rw [e1] at hj; rw [e2]; exact hI.listed j wj hj h1 h2
    · rw [e1, List.getElem?_append] at hj
      rw [e2]
      split at hj
      · exact List.mem_append_left _ (hI.listed j wj hj h1 h2)
      · rename_i hge
        obtain ⟨hk, _⟩ := List.getElem?_eq_some_iff.mp hj
        simp at hk
        have : j = s.workers.length := by omega
        subst this; simp
    · rw [e1] at hj
      exact absurd (hexit hx j wj hj) h2
  · -- copyEq
    intro cj copy hj hpc
    rcases hcs 0 cj hj with ⟨hi, rfl⟩ | ⟨hne, c0, h0, rfl⟩
    · obtain ⟨g1, _, g3⟩ := hrel copy hpc
      rw [g3]; exact g1
    · have hpc0 := notifyIf_pc_stopRel hpc
      have hold := hI.copyEq c0 copy h0 hpc0
      have hs0 := hI.flag c0 h0 (by simp [hpc0, inStop])
      have hnci := hnc (fun e => hne e.symm)
      rcases hwt with ⟨_, e2⟩ | ⟨_, _, e3⟩ | ⟨_, _, hx⟩
      · rw [e2]; exact hold
      · rw [hs0] at e3; cases e3
      · rcases hx with hx | ⟨w, hx, _⟩ <;> simp [hx, ctlPc] at hnci
  · -- tojoin
    intro cj copy hj hpc j wj hwj hnd
    rcases hcs 0 cj hj with ⟨hi, rfl⟩ | ⟨hne, c0, h0, rfl⟩
    · subst hi
      have hcin : inStop c.pc = true := by
        rcases hjc copy hpc with g | g | ⟨w, g, _⟩
        · exact joinCopy_inStop g
        · simp [g, inStop]
        · exact joinCopy_inStop g
      rw [hworkers_same (hI.flag c hc hcin)] at hwj
      rcases hjc copy hpc with g | g | ⟨w, g, hna⟩
      · exact hI.tojoin c copy hc g j wj hwj hnd
      · have hown : s.lockOwner = some (.client 0) := by
          have := hL.cl 0 c hc
          simp [g, cDepth] at this
          by_cases ho : s.lockOwner = some (.client 0)
          · exact ho
          · simp [ho] at this
        have hcs0 := hL.no_worker_in_cs hown hwj
        have hne : wj.pc ≠ .exitRel := by intro e; simp [e, wDepth] at hcs0
        rw [hI.copyEq c copy hc g]
        exact hI.listed j wj hwj hne hnd
      · have := hI.tojoin c (w :: copy) hc g j wj hwj hnd
        simp at this
        rcases this with rfl | this
        · rw [workerAlive_of hwj hnd] at hna; cases hna
        · exact this
    · have hpc0 : joinCopy c0.pc = some copy := by simpa using hpc
      rw [hworkers_same (hI.flag c0 h0 (joinCopy_inStop hpc0))] at hwj
      exact hI.tojoin c0 copy h0 hpc0 j wj hwj hnd

theorem StopInv_step {s s' : State} {a : Action} (hctl : s.cfg.singleCtl = true) (hL : LockInv s) (hI : StopInv s)
    (h : step? s a = some s') : StopInv s' := by
  unfold step? at h
  split at h
  · split at h
    · rename_i i w hw
      exact StopInv_worker hw hL hI h
    · simp at h
  · split at h
    · rename_i i c hc
      exact StopInv_client hc hctl hL hI h
    · simp at h

theorem StopInv_reach {cfg : Config} {n : Nat} {s : State} (hctl : cfg.singleCtl = true) (hr : Reach (init cfg n) s) :
    StopInv s := by
  refine Reach.induct (P := fun s => LockInv s ∧ StopInv s) ⟨LockInv_init cfg n, StopInv_init cfg n⟩ ?_ s hr |>.2
  intro s a s' hrs hI h
  have hc : s.cfg.singleCtl = true := by rw [reach_cfg hrs]; exact hctl
  exact ⟨LockInv_step hI.1 h, StopInv_step hc hI.1 hI.2 h⟩

end JRV.Pool
