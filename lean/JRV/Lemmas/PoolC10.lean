/-
  Growth and floor of the pool (C10): while the stop flag is clear and `start()` is past its queue-size read,

    min(nb_pending_task, max_threads) ≤ nb_threads + (spawns still owed by clients inside `__start_thread`)
    min(min_threads, max_threads)     ≤ nb_threads + (spawns still owed by `start()`)

  `enqueue` adds one to the pending count and owes one spawn when the count exceeds `nb_threads` (the spawn is refused
  only at `nb_threads ≥ max`); a worker retires only when `nb_threads > min ∧ nb_threads > nb_pending`; a worker leaves
  for another reason only when the stop flag is set or a sentinel is queued (JRV.Lemmas.PoolCtl).
-/
import JRV.Lemmas.PoolCtl

set_option linter.unusedSimpArgs false
set_option linter.unusedVariables false

namespace JRV.Pool.C10L

/-! ### sums over the client table -/

theorem sum_map_set_add {α} (f : α → Nat) (l : List α) (i : Nat) (a w : α) (h : l[i]? = some w) :
    ((l.set i a).map f).sum + f w = (l.map f).sum + f a := by
  induction l generalizing i with
  | nil => simp at h
  | cons x xs ih =>
    cases i with
    | zero =>
      simp at h; subst h
      simp only [List.set_cons_zero, List.map_cons, List.sum_cons]; omega
    | succ n =>
      simp at h
      have := ih n h
      simp only [List.set_cons_succ, List.map_cons, List.sum_cons]; omega

theorem sum_map_ge {α} (f : α → Nat) {l : List α} {i : Nat} {w : α} (h : l[i]? = some w) : f w ≤ (l.map f).sum := by
  have := sum_map_set_add f l i w w h
  induction l generalizing i with
  | nil => simp at h
  | cons x xs ih =>
    cases i with
    | zero => simp at h; subst h; simp
    | succ n =>
      simp at h
      have := ih h (sum_map_set_add f xs n w w h)
      simp; omega

theorem sum_map_set_eq {α} (f : α → Nat) {l : List α} {i : Nat} {w : α} (h : l[i]? = some w) (a : α) :
    ((l.set i a).map f).sum = (l.map f).sum - f w + f a := by
  have h1 := sum_map_set_add f l i a w h
  have h2 := sum_map_ge f h
  omega

theorem sum_map_map_eq {α} (f : α → Nat) (g : α → α) (l : List α) (h : ∀ x, f (g x) = f x) :
    ((l.map g).map f).sum = (l.map f).sum := by
  induction l with
  | nil => rfl
  | cons x xs ih => simp [h, ih] at ih ⊢; omega

theorem sum_map_set_map_eq {α} (f : α → Nat) (g : α → α) (hg : ∀ x, f (g x) = f x) {l : List α} {i : Nat} {w : α}
    (h : l[i]? = some w) (a : α) :
    (((l.map g).set i a).map f).sum = (l.map f).sum - f w + f a := by
  have h' : (l.map g)[i]? = some (g w) := by simp [h]
  rw [sum_map_set_eq f h' a, sum_map_map_eq f g l hg, hg]

theorem sum_map_eq_zero {α} (f : α → Nat) (l : List α) (h : ∀ x ∈ l, f x = 0) : (l.map f).sum = 0 := by
  induction l with
  | nil => rfl
  | cons x xs ih =>
    simp
    exact ⟨h x (by simp), ih (fun y hy => h y (by simp [hy]))⟩

/-! ### the spawns still owed -/

/-- Spawns a client still owes: one between `enqueue`'s growth test and its `__start_thread`, the remaining iterations
    of `start()`'s loops. -/
def weight (c : Client) : Nat :=
  match c.pc with
  | .enqStAcq | .enqStIsSet => 1
  | .stAcq k | .stIsSet k => k
  | .stRel k => k - 1
  | _ => 0

/-- The part of `weight` that `start()` owes. -/
def startWeight (c : Client) : Nat :=
  match c.pc with
  | .stAcq k | .stIsSet k => k
  | .stRel k => k - 1
  | _ => 0

/-- `start()` has cleared the flag but not yet read the queue size. -/
def atQsize (c : Client) : Bool :=
  match c.pc with
  | .startQsize => true
  | _ => false

@[simp] theorem weight_notifyIf (b : Bool) (c : Client) : weight (notifyIf b c) = weight c := by
  cases c with | mk pc ret => cases pc <;> cases b <;> simp [notifyIf, notifyClient, weight]

@[simp] theorem startWeight_notifyIf (b : Bool) (c : Client) : startWeight (notifyIf b c) = startWeight c := by
  cases c with | mk pc ret => cases pc <;> cases b <;> simp [notifyIf, notifyClient, startWeight]

@[simp] theorem atQsize_notifyIf (b : Bool) (c : Client) : atQsize (notifyIf b c) = atQsize c := by
  cases c with | mk pc ret => cases pc <;> cases b <;> simp [notifyIf, notifyClient, atQsize]

structure GrowInv (s : State) : Prop where
  grow : s.cfg.startMayFail = false → s.stop = false → s.clients.countP atQsize = 0 →
    min s.nbPending s.cfg.max ≤ s.nbThreads + (s.clients.map weight).sum
  floor : s.cfg.startMayFail = false → s.stop = false → s.clients.countP atQsize = 0 →
    min s.cfg.min s.cfg.max ≤ s.nbThreads + (s.clients.map startWeight).sum

theorem GrowInv_init (cfg : Config) (n : Nat) : GrowInv (init cfg n) := by
  refine ⟨?_, ?_⟩ <;> intro _ h <;> simp [init] at h

theorem GrowInv_worker {s s' : State} {i : Nat} {w : Worker} {op : Op} {tmo : Bool}
    (hw : s.workers[i]? = some w) (hR : FreshInv s) (hI : GrowInv s)
    (h : workerStep s i w op tmo = some s') : GrowInv s' := by
  have hfr : s.stop = false → stale w = false := fun hs => hR hs i w hw
  obtain ⟨hg, hf⟩ := hI
  unfold workerStep at h
  step_cases
  all_goals (
    refine ⟨?_, ?_⟩ <;> intro hnf hst hq <;>
    simp only [setWorker, tdone, acq, rel, updTask, countP_map_eq atQsize _ _ (atQsize_notifyIf _),
      sum_map_map_eq weight _ _ (weight_notifyIf _), sum_map_map_eq startWeight _ _ (startWeight_notifyIf _)]
      at hnf hst hq ⊢ <;>
    have h1 := hg hnf hst hq <;>
    have h2 := hf hnf hst hq <;>
    have h3 := hfr hst <;>
    first
    | exact h1
    | exact h2
    | omega
    | (simp [retires] at *; omega)
    | (simp [stale, *] at h3))

theorem wHasTask_counted {s : State} (hB : BaseInv s) {w : Worker} (hw : w ∈ s.workers) (h : wHasTask w = true) :
    counted w = true := by
  obtain ⟨j, hj⟩ := List.getElem?_of_mem hw
  have hcl := hB.clean j w hj
  have hnc : w.cleaned = false := by
    cases hc : w.cleaned
    · rfl
    · have := hcl hc
      unfold wHasTask at h; unfold exiting at this
      cases hpc : w.pc <;> simp_all
  unfold wHasTask at h; unfold counted
  cases hpc : w.pc <;> simp_all

theorem hasTask_le_threads {s : State} (hB : BaseInv s) : s.workers.countP wHasTask ≤ s.nbThreads := by
  rw [hB.count.threads]
  exact List.countP_mono_left (fun w hw h => wHasTask_counted hB hw h)

theorem cHoldsTask_ctl {c : Client} (h : cHoldsTask c = true) : isCtlPc c.pc = true := by
  unfold cHoldsTask at h; unfold isCtlPc
  cases hpc : c.pc <;> simp_all

theorem atQsize_ctl {c : Client} (h : atQsize c = true) : isCtlPc c.pc = true := by
  unfold atQsize at h; unfold isCtlPc
  cases hpc : c.pc <;> simp_all

/-- While the controller is inside `start()`, no client is inside `clear()`. -/
theorem no_clear_in_start {s : State} (hC : CtlInv s) {i : Nat} {c : Client} (hc : s.clients[i]? = some c)
    (h : atQsize c = true) : s.clients.countP cHoldsTask = 0 := by
  rw [List.countP_eq_zero]
  intro x hx hxt
  obtain ⟨j, hj⟩ := List.getElem?_of_mem hx
  have h1 := hC j x hj (cHoldsTask_ctl hxt)
  have h2 := hC i c hc (atQsize_ctl h)
  subst h1; subst h2
  rw [hc] at hj; cases hj
  unfold atQsize at h; unfold cHoldsTask at hxt
  cases hpc : c.pc <;> simp_all

theorem clamp_cases (q lo hi : Nat) :
    (q > hi ∧ clamp q lo hi = hi) ∨ (q ≤ hi ∧ q < lo ∧ clamp q lo hi = lo) ∨ (q ≤ hi ∧ lo ≤ q ∧ clamp q lo hi = q) := by
  unfold clamp; split
  · left; omega
  · split
    · right; left; omega
    · right; right; omega

theorem GrowInv_client {s s' : State} {i : Nat} {c : Client} {op : Op} {tmo : Bool}
    (hc : s.clients[i]? = some c) (hB : BaseInv s) (hC : CtlInv s) (hI : GrowInv s)
    (h : clientStep s i c op tmo = some s') : GrowInv s' := by
  have hle1 := countP_ge atQsize hc
  have hle2 := sum_map_ge weight hc
  have hle3 := sum_map_ge startWeight hc
  have hC0 : atQsize c = true → s.clients.countP cHoldsTask = 0 := no_clear_in_start hC hc
  obtain ⟨hgr, hfl⟩ := hI
  unfold clientStep at h
  step_cases
  all_goals (
    refine ⟨?_, ?_⟩ <;> intro hnf hst hq <;>
    simp only [setClient, tdone, acq, rel, updTask, put, spawnWorker, countP_set_eq atQsize hc,
      countP_set_map_eq atQsize _ (atQsize_notifyIf _) hc, sum_map_set_eq weight hc, sum_map_set_eq startWeight hc,
      sum_map_set_map_eq weight _ (weight_notifyIf _) hc, sum_map_set_map_eq startWeight _ (startWeight_notifyIf _) hc,
      apply_ite State.nbThreads, apply_ite State.nbPending, apply_ite State.clients, apply_ite State.stop,
      apply_ite State.cfg, ite_self] at hnf hst hq ⊢ <;>
    (try (have h1 := hgr hnf hst; have h2 := hfl hnf hst)) <;>
    clear hgr hfl <;>
    generalize List.countP atQsize s.clients = nq at * <;>
    generalize (List.map weight s.clients).sum = W at * <;>
    generalize (List.map startWeight s.clients).sum = V at * <;>
    simp [atQsize, weight, startWeight, *] at hle1 hle2 hle3 hq ⊢ <;>
    have hHT := hasTask_le_threads hB <;>
    have hP := hB.count.pending <;>
    have hQ : s.queue.countP isTask ≤ s.queue.length := List.countP_le_length <;>
    first
    | omega
    | (split <;> omega)
    | (have hC0' := hC0 (by simp [atQsize, *])
       have := clamp_cases s.queue.length s.cfg.min s.cfg.max
       omega)
    | (simp_all; done))

/-! ### assembly -/

theorem GrowInv_step {s s' : State} {a : Action} (hB : BaseInv s) (hK : CtlBundle s) (hI : GrowInv s)
    (h : step? s a = some s') : GrowInv s' := by
  unfold step? at h
  split at h
  · split at h
    · rename_i i w hw
      exact GrowInv_worker hw hK.fresh hI h
    · simp at h
  · split at h
    · rename_i i c hc
      exact GrowInv_client hc hB hK.ctl hI h
    · simp at h

theorem GrowInv_reach {cfg : Config} {n : Nat} {s : State} (hs : cfg.singleCtl = true) (hr : Reach (init cfg n) s) :
    GrowInv s := by
  refine Reach.induct (P := fun s => GrowInv s) (GrowInv_init cfg n) ?_ s hr
  intro s a s' hr' hI h
  exact GrowInv_step (BaseInv_reach hr') (CtlBundle_reach hs hr') hI h

/-! ### counting helpers for the property statements -/

theorem countP_split {α} (p q r : α → Bool) (l : List α)
    (h : ∀ x ∈ l, (if p x then 1 else 0) = (if q x then 1 else 0) + (if r x then 1 else 0)) :
    l.countP p = l.countP q + l.countP r := by
  induction l with
  | nil => rfl
  | cons x xs ih =>
    have h1 := h x (by simp)
    have h2 := ih (fun y hy => h y (by simp [hy]))
    simp only [List.countP_cons]
    omega

theorem run_reach {s0 s : State} {acts : List Action} (h : run s0 acts = some s) : ∀ {r}, Reach r s0 → Reach r s := by
  induction acts generalizing s0 with
  | nil => intro r hr; simp [run] at h; subst h; exact hr
  | cons a rest ih =>
    intro r hr
    simp only [run] at h
    cases hs : step? s0 a with
    | none => simp [hs] at h
    | some s1 =>
      simp only [hs] at h
      exact ih h (Reach.step a hr hs)

/-- Program counters of `start()` from `event.clear` to its return. -/
def inStart (pc : CPc) : Bool :=
  match pc with
  | .startQsize | .stAcq _ | .stIsSet _ | .stRel _ => true
  | _ => false

/-- Program counters of `enqueue` between its growth test (`pending > nb_threads`) and the spawn it leads to. -/
def spawnOwed (pc : CPc) : Bool :=
  match pc with
  | .enqStAcq | .enqStIsSet => true
  | _ => false

theorem inStart_ctl {pc : CPc} (h : inStart pc = true) : isCtlPc pc = true := by
  cases pc <;> simp_all [inStart, isCtlPc]

theorem weight_zero {c : Client} (h1 : inStart c.pc = false) (h2 : spawnOwed c.pc = false) : weight c = 0 := by
  unfold weight; unfold inStart at h1; unfold spawnOwed at h2
  cases hpc : c.pc <;> simp_all

theorem startWeight_zero {c : Client} (h1 : inStart c.pc = false) : startWeight c = 0 := by
  unfold startWeight; unfold inStart at h1
  cases hpc : c.pc <;> simp_all

theorem atQsize_inStart {c : Client} (h1 : inStart c.pc = false) : atQsize c = false := by
  unfold atQsize; unfold inStart at h1
  cases hpc : c.pc <;> simp_all

/-- With a single controller, "client 0 is not inside `start()`" is "no client is". -/
theorem no_client_inStart {s : State} (hC : CtlInv s) (h0 : ∀ c, s.clients[0]? = some c → inStart c.pc = false) :
    ∀ c ∈ s.clients, inStart c.pc = false := by
  intro c hc
  obtain ⟨j, hj⟩ := List.getElem?_of_mem hc
  cases hin : inStart c.pc
  · rfl
  · have := hC j c hj (inStart_ctl hin)
    subst this
    rw [h0 c hj] at hin; cases hin

end JRV.Pool.C10L
