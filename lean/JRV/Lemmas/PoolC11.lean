/-
  Invariants of the pool model for C11 (stop() terminates, every worker exits, the pool is restartable), all for the
  configuration with a single controlling thread (`cfg.singleCtl = true`: only client 0 issues start/stop/clear).

  * `JRV.Lemmas.PoolC11Lock`   `OnlyCtl` (only client 0 is ever inside start/stop/clear) and `LockInv` (the pool lock is
                               owned exactly by the thread whose program counter is inside a critical section, with
                               the exact re-entrance depth);
  * `JRV.Lemmas.PoolC11Stop`   `StopInv`, the life-cycle invariant over the controller's program counter inside
                               `stop()`: a live worker that has not yet removed itself is listed in `_threads`; the
                               flag is set from `event.set` on; the copied list contains every live worker; after the
                               join loop every worker is terminated (`quiet`) and stays so while the flag is set;
                               bundled with the two above as `CtlInv`;
  * `JRV.Lemmas.PoolC11Queue`  `QueueInv`: sentinels are in the queue only between the `put` loop of `stop()` and the
                               end of the drain of `clear()`; the queue is empty from the end of the drain to the
                               release of the lock;
  * `JRV.Lemmas.PoolC11Live`   enabledness: a live worker outside a task body can step unless it waits for the pool
                               lock; the owner of the pool lock can step; hence `stop_no_stuck`;
  * `JRV.Lemmas.PoolC11Measure` the termination measure `stopMeasure` of `stop()` and its decrease (`stop_measure`).
-/
import JRV.Lemmas.PoolC11Measure
