/-
  C11, `join()` on a running pool: the phase of an accepted task only moves forward, and the only step that drops a task
  is the `get_nowait` of `clear()` (called directly or by `stop()`).
-/
import JRV.Lemmas.PoolTask2

set_option linter.unusedSimpArgs false
set_option linter.unusedVariables false

namespace JRV.Pool

/-- One step, seen from an existing task: it is still there, it is not "un-accepted" (`created` again), and it is dropped
    only by a client standing at the `get_nowait` of `clear()`. -/
theorem phase_step {s s' : State} {a : Action} (h : step? s a = some s') {t : Nat} {tk : Task}
    (ht : s.tasks[t]? = some tk) :
    ∃ tk', s'.tasks[t]? = some tk' ∧ (tk'.phase = .created → tk.phase = .created) ∧
      (tk'.phase = .dropped → tk.phase = .dropped ∨
        ∃ i c, a.who = .client i ∧ s.clients[i]? = some c ∧ c.pc = .clrGet) := by
  unfold step? at h
  split at h
  · split at h
    · rename_i i w hw
      unfold workerStep at h
      step_cases
      all_goals (
        simp only [setWorker, tdone, acq, rel, updTask]
        first
        | exact ⟨tk, ht, id, Or.inl⟩
        | (simp only [List.getElem?_modify, ht, Option.map_some, Option.map_eq_map]
           refine ⟨_, rfl, ?_, ?_⟩ <;> split <;> simp_all))
    · simp at h
  · split at h
    · rename_i hwho i c hc
      unfold clientStep at h
      step_cases
      all_goals (
        simp only [setClient, tdone, acq, rel, updTask, put, spawnWorker, apply_ite State.tasks, ite_self]
        first
        | exact ⟨tk, ht, id, Or.inl⟩
        | exact ⟨tk, getElem?_append_some ht, id, Or.inl⟩
        | (simp only [List.getElem?_modify, ht, Option.map_some, Option.map_eq_map]
           refine ⟨_, rfl, ?_, ?_⟩ <;> split <;>
             first
             | (simp_all; done)
             | (intro _; exact Or.inr ⟨i, c, hwho, hc, by assumption⟩)))
    · simp at h

/-- Reachability through states that all satisfy `P` (the start state included, the end state included). -/
inductive ReachVia (P : State → Prop) (s0 : State) : State → Prop where
  | refl : P s0 → ReachVia P s0 s0
  | step {s s' : State} (a : Action) : ReachVia P s0 s → step? s a = some s' → P s' → ReachVia P s0 s'

theorem ReachVia.reach {P : State → Prop} {s0 s : State} (h : ReachVia P s0 s) : Reach s0 s := by
  induction h with
  | refl _ => exact Reach.refl
  | step a _ hs _ ih => exact Reach.step a ih hs

theorem ReachVia.holds {P : State → Prop} {s0 s : State} (h : ReachVia P s0 s) : P s := by
  cases h with
  | refl h0 => exact h0
  | step a _ _ hp => exact hp

/-- No client stands at the `get_nowait` of `clear()`. -/
def noClearGet (s : State) : Prop := ∀ c ∈ s.clients, c.pc ≠ .clrGet

/-- Along a run on which nobody is draining the queue, an accepted task that has not been dropped stays accepted and is
    not dropped. -/
theorem phase_kept {s0 s : State} (h : ReachVia noClearGet s0 s) {t : Nat} {tk : Task}
    (ht : s0.tasks[t]? = some tk) (hacc : tk.phase ≠ .created) (hnd : tk.phase ≠ .dropped) :
    ∃ tk', s.tasks[t]? = some tk' ∧ tk'.phase ≠ .created ∧ tk'.phase ≠ .dropped := by
  induction h with
  | refl _ => exact ⟨tk, ht, hacc, hnd⟩
  | step a hprev hs _ ih =>
    obtain ⟨tk1, h1, hc1, hd1⟩ := ih
    obtain ⟨tk2, h2, hc2, hd2⟩ := phase_step hs h1
    refine ⟨tk2, h2, fun e => hc1 (hc2 e), fun e => ?_⟩
    rcases hd2 e with g | ⟨i, c, _, hc, hpc⟩
    · exact hd1 g
    · exact hprev.holds c (List.mem_of_getElem? hc) hpc

end JRV.Pool
