/-
  Enabledness lemmas for the pool model: a worker that is neither terminated nor inside a task body can take a step
  unless it waits for the pool lock; the owner of the pool lock can always take a step (except `clear()` blocked in
  `Queue.join`).  Used for "stop() is never stuck" (C11).
-/
import JRV.Lemmas.PoolC11Queue

set_option linter.unusedSimpArgs false
set_option linter.unusedVariables false

namespace JRV.Pool.C11L

/-- Actions of the environment: a client begins an API call; a task body returns or raises. -/
def envOp : Op → Bool
  | .callStart | .callStop | .callClear | .callJoin | .callJoinT | .callEnqueue | .callWait _ | .callDone _ | .taskEnd _ => true
  | _ => false

/-- The worker's next operation is `lock.acquire`. -/
def wWantsLock : WPc → Bool
  | .actAcq | .finAcq | .retAcq | .exitAcq => true
  | _ => false

theorem canAcquire_or (s : State) (me : Tid) :
    canAcquire s me = true ∨ ∃ x, s.lockOwner = some x ∧ x ≠ me := by
  unfold canAcquire
  cases h : s.lockOwner with
  | none => simp
  | some x =>
    by_cases hx : x = me
    · subst hx; simp
    · right; exact ⟨x, rfl, hx⟩

/-- **A live worker outside a task body is never stuck**, except waiting for the pool lock held by another thread. -/
theorem worker_enabled {s : State} (htm : s.cfg.timeoutNone = false) (hB : BaseInv s) (hT : TaskInv s) (hL : LockInv s)
    {i : Nat} {w : Worker} (hw : s.workers[i]? = some w) (hd : w.pc ≠ .dead) (hb : w.pc ≠ .body) :
    (∃ op tmo s', envOp op = false ∧ workerStep s i w op tmo = some s') ∨
    (wWantsLock w.pc = true ∧ ∃ x, s.lockOwner = some x ∧ x ≠ .worker i) := by
  have hU := hB.unf
  have hC := hB.count
  have h1 := countP_ge wHoldsItem hw
  have h2 := countP_ge active hw
  have h3 := countP_ge wHasTask hw
  have h4 := countP_ge counted hw
  have hwl := hL.wl i w hw
  have hheld := hT.wheld i w hw
  unfold UnfInv at hU
  have hlk := canAcquire_or s (.worker i)
  cases hpc : w.pc
  all_goals simp only [hpc, wHoldsItem, active, wHasTask, counted, wHoldsLock, phaseOfPc, if_true, if_false] at h1 h2 h3 h4 hwl hheld
  case dead => exact absurd hpc hd
  case body => exact absurd hpc hb
  case loopHead => left; exact ⟨.eventIsSet, false, by simp [envOp, workerStep, hpc]⟩
  case get => left; exact ⟨.queueGet, true, by simp [envOp, workerStep, hpc, htm]⟩
  case sentDone =>
    left; refine ⟨.queueTaskDone, false, ?_⟩
    have : s.unfinished ≠ 0 := by omega
    simp [envOp, workerStep, hpc, this]
  case actAcq =>
    rcases hlk with hacq | hown
    · left; exact ⟨.lockAcquire, false, by simp [envOp, workerStep, hpc, hacq]⟩
    · right; exact ⟨rfl, hown⟩
  case actRel =>
    left; refine ⟨.lockRelease, false, ?_⟩
    have := hwl trivial
    simp [envOp, workerStep, hpc, canRelease, this]
  case begin =>
    left; refine ⟨.taskBegin, false, ?_⟩
    obtain ⟨t, tk, ht, htk, _, _⟩ := hheld _ rfl
    have hlt : t < s.tasks.length := (List.getElem?_eq_some_iff.mp htk).1
    simp [envOp, workerStep, hpc, ht, hlt]
  case futSet =>
    left; refine ⟨.futSet, false, ?_⟩
    obtain ⟨t, tk, ht, htk, _, _⟩ := hheld _ rfl
    have hlt : t < s.tasks.length := (List.getElem?_eq_some_iff.mp htk).1
    simp [envOp, workerStep, hpc, ht, hlt]
  case taskDone =>
    left; refine ⟨.queueTaskDone, false, ?_⟩
    have : s.unfinished ≠ 0 := by omega
    simp [envOp, workerStep, hpc, this]
  case finAcq =>
    rcases hlk with hacq | hown
    · left; refine ⟨.lockAcquire, false, ?_⟩
      have e1 : s.nbPending ≠ 0 := by have := hC.pending; omega
      have e2 : s.nbActive ≠ 0 := by have := hC.active; omega
      simp [envOp, workerStep, hpc, hacq, e1, e2]
    · right; exact ⟨rfl, hown⟩
  case finRel =>
    left; refine ⟨.lockRelease, false, ?_⟩
    have := hwl trivial
    simp [envOp, workerStep, hpc, canRelease, this]
  case retAcq =>
    rcases hlk with hacq | hown
    · left; refine ⟨.lockAcquire, false, ?_⟩
      by_cases hr : retires s = true <;> simp [envOp, workerStep, hpc, hacq, hr]
    · right; exact ⟨rfl, hown⟩
  case retRel =>
    left; refine ⟨.lockRelease, false, ?_⟩
    have := hwl trivial
    simp [envOp, workerStep, hpc, canRelease, this]
  case retRelExit =>
    left; refine ⟨.lockRelease, false, ?_⟩
    have := hwl trivial
    simp [envOp, workerStep, hpc, canRelease, this]
  case exitAcq =>
    rcases hlk with hacq | hown
    · left; refine ⟨.lockAcquire, false, ?_⟩
      by_cases hcl : w.cleaned = true
      · simp [envOp, workerStep, hpc, hacq, hcl]
      · have e1 : s.nbThreads ≠ 0 := by
          have := hC.threads
          have h5 := countP_ge counted hw
          have h6 : counted w = true := by simp [counted, hpc, hcl]
          rw [if_pos h6] at h5
          omega
        simp [envOp, workerStep, hpc, hacq, hcl, e1]
    · right; exact ⟨rfl, hown⟩
  case exitRel =>
    left; refine ⟨.lockRelease, false, ?_⟩
    have := hwl trivial
    simp [envOp, workerStep, hpc, canRelease, this]

/-- A worker that owns the pool lock can release it. -/
theorem owner_worker_enabled {s : State} (hL : LockInv s) {j : Nat} (ho : s.lockOwner = some (.worker j)) :
    ∃ w s', s.workers[j]? = some w ∧ workerStep s j w .lockRelease false = some s' := by
  obtain ⟨w, hw, hp⟩ := hL.wo j ho
  have hwl := hL.wl j w hw hp
  refine ⟨w, ?_⟩
  cases hpc : w.pc <;> simp [hpc, wHoldsLock] at hp <;> simp [workerStep, hpc, canRelease, hwl, hw]

/-- **A client inside a critical section of the pool lock is never stuck**, except `clear()` blocked in `Queue.join`
    while items are unfinished. -/
theorem holder_client_enabled {s : State} (htm : s.cfg.timeoutNone = false) (hB : BaseInv s) (hT : TaskInv s) (hL : LockInv s)
    {j : Nat} {c : Client} (hc : s.clients[j]? = some c) (hd : cDepth c.pc ≠ 0) :
    (∃ op tmo s', envOp op = false ∧ clientStep s j c op tmo = some s') ∨ (c.pc = .clrJoin ∧ s.unfinished ≠ 0) := by
  have hcl := hL.cl j c hc hd
  have hU := hB.unf
  have hC := hB.count.pending
  have h1 := countP_ge cHoldsItem hc
  have h2 := countP_ge cHoldsTask hc
  unfold UnfInv at hU
  cases hpc : c.pc
  all_goals simp only [hpc, cDepth, ne_eq, not_true_eq_false] at hd
  all_goals rw [hpc] at hcl
  all_goals simp only [cDepth] at hcl
  case stIsSet k => left; exact ⟨.eventIsSet, false, by simp [envOp, clientStep, hpc]⟩
  case stRel k => left; exact ⟨.lockRelease, false, by simp [envOp, clientStep, hpc, canRelease, hcl]⟩
  case enqPut t => left; exact ⟨.queuePut, true, by simp [envOp, clientStep, hpc, htm]⟩
  case enqStAcq => left; exact ⟨.lockAcquire, false, by simp [envOp, clientStep, hpc, canAcquire, hcl]⟩
  case enqStIsSet => left; exact ⟨.eventIsSet, false, by simp [envOp, clientStep, hpc]⟩
  case enqStRel => left; exact ⟨.lockRelease, false, by simp [envOp, clientStep, hpc, canRelease, hcl]⟩
  case enqRel => left; exact ⟨.lockRelease, false, by simp [envOp, clientStep, hpc, canRelease, hcl]⟩
  case enqRelFail => left; exact ⟨.lockRelease, false, by simp [envOp, clientStep, hpc, canRelease, hcl]⟩
  case stopPut n => left; exact ⟨.queuePut, true, by simp [envOp, clientStep, hpc, htm]⟩
  case stopRel cp =>
    left; refine ⟨.lockRelease, false, ?_⟩
    cases cp <;> simp [envOp, clientStep, hpc, canRelease, hcl]
  case clrGet =>
    left; refine ⟨.queueGetNowait, false, ?_⟩
    cases hq : s.queue with
    | nil => simp [envOp, clientStep, hpc, hq]
    | cons x rest =>
      cases x with
      | sentinel => simp [envOp, clientStep, hpc, hq]
      | task t =>
        obtain ⟨tk, htk, _⟩ := hT.qphase t (by rw [hq]; simp)
        have hlt : t < s.tasks.length := (List.getElem?_eq_some_iff.mp htk).1
        simp [envOp, clientStep, hpc, hq, hlt]
  case clrDone it =>
    left; refine ⟨.queueTaskDone, false, ?_⟩
    simp only [cHoldsItem, cHoldsTask, hpc, if_true] at h1 h2
    have e1 : s.unfinished ≠ 0 := by omega
    cases it with
    | sentinel => simp [envOp, clientStep, hpc, e1]
    | task t =>
      simp only [if_true] at h2
      have e2 : s.nbPending ≠ 0 := by omega
      simp [envOp, clientStep, hpc, e1, e2]
  case clrJoin =>
    by_cases hu : s.unfinished = 0
    · left; exact ⟨.queueJoin, false, by simp [envOp, clientStep, hpc, hu]⟩
    · right; exact ⟨rfl, hu⟩
  case clrRel => left; exact ⟨.lockRelease, false, by simp [envOp, clientStep, hpc, canRelease, hcl]⟩

/-! ### `stop()` is never stuck -/

/-- The controller is in the join loop of `stop()` and the thread it is joining is still alive: its own next
    operations (`is_alive` / `join(3)` / `is_alive`) only go round the loop. -/
def ctlSpin (s : State) : CPc → Bool
  | .stopAlive (w :: _) | .stopJoin (w :: _) | .stopAlive2 (w :: _) => workerAlive s w
  | _ => false

/-- The controller is inside `stop()`: any operation of `stop()` itself, or an operation of `clear()` while the flag
    is set (the `clear()` that ends `stop()`; also a `clear()` called on a stopped pool). -/
def inStop (s : State) : CPc → Bool
  | .stopIsSet | .stopSet | .stopAcq | .stopPut _ | .stopRel _ | .stopAlive _ | .stopJoin _ | .stopAlive2 _ => true
  | .clrAcq | .clrGet | .clrDone _ | .clrJoin | .clrRel => s.stop
  | _ => false

/-- Actions that bring `stop()` nearer to its return: any non-environment action of a worker; a non-environment action
    of the controller other than going round the join loop on a live thread; a non-environment action of another client
    that owns the pool lock (it is finishing the critical section of its `enqueue`). -/
def progressing (s : State) (a : Action) : Bool :=
  !envOp a.op && (match a.who with
    | .worker _ => true
    | .client j =>
      if j = 0 then (match s.clients[0]? with
        | some c => !ctlSpin s c.pc
        | none => false)
      else s.lockOwner == some (.client j))

theorem owner_progress {s : State} (htm : s.cfg.timeoutNone = false) (hB : BaseInv s) (hT : TaskInv s) (hC : CtlInv s)
    {x : Tid} (ho : s.lockOwner = some x) (hx : x ≠ .client 0) :
    ∃ a s', progressing s a = true ∧ step? s a = some s' := by
  cases x with
  | worker j =>
    obtain ⟨w, s', hw, hst⟩ := owner_worker_enabled hC.lock ho
    exact ⟨⟨.worker j, .lockRelease, false⟩, s', by simp [progressing, envOp], by simp [step?, hw, hst]⟩
  | client j =>
    have hj : j ≠ 0 := by intro h; subst h; exact hx rfl
    obtain ⟨c, hc, hd⟩ := hC.lock.co j ho
    rcases holder_client_enabled htm hB hT hC.lock hc hd with ⟨op, tmo, s', he, hst⟩ | ⟨hpc, _⟩
    · exact ⟨⟨.client j, op, tmo⟩, s', by simp [progressing, he, hj, ho], by simp [step?, hc, hst]⟩
    · exact absurd (hC.only j c hc (by simp [hpc, ctlPc])) hj

theorem ctl_progress {s : State} {c : Client} (op : Op) (tmo : Bool) (hc : s.clients[0]? = some c)
    (he : envOp op = false) (hsp : ctlSpin s c.pc = false) (hst : ∃ s', clientStep s 0 c op tmo = some s') :
    ∃ a s', progressing s a = true ∧ step? s a = some s' := by
  obtain ⟨s', hst⟩ := hst
  exact ⟨⟨.client 0, op, tmo⟩, s', by simp [progressing, he, hc, hsp], by simp [step?, hc, hst]⟩

/-- While the controller waits for a live thread, that thread (or the owner of the lock it waits for) can move,
    unless it is executing a task body. -/
theorem alive_progress {s : State} (htm : s.cfg.timeoutNone = false) (hB : BaseInv s) (hT : TaskInv s) (hC : CtlInv s)
    {c : Client} (hc : s.clients[0]? = some c) (hd0 : cDepth c.pc = 0) {w : Nat} (ha : workerAlive s w = true) :
    (∃ wr ∈ s.workers, wr.pc = .body) ∨ ∃ a s', progressing s a = true ∧ step? s a = some s' := by
  unfold workerAlive at ha
  cases hw : s.workers[w]? with
  | none => simp [hw] at ha
  | some wr =>
    simp [hw] at ha
    by_cases hb : wr.pc = .body
    · exact Or.inl ⟨wr, List.mem_of_getElem? hw, hb⟩
    · right
      rcases worker_enabled htm hB hT hC.lock hw ha hb with ⟨op, tmo, s', he, hst⟩ | ⟨_, x, ho, hx⟩
      · exact ⟨⟨.worker w, op, tmo⟩, s', by simp [progressing, he], by simp [step?, hw, hst]⟩
      · refine owner_progress htm hB hT hC ho ?_
        intro hx0; subst hx0
        obtain ⟨c', hc', hd'⟩ := hC.lock.co 0 ho
        rw [hc] at hc'; cases hc'
        exact hd' hd0

/-- After the join loop of `stop()` nothing is unfinished once the queue is empty. -/
theorem unfinished_zero_of_quiet {s : State} (hB : BaseInv s) (hC : CtlInv s) (hQ : QueueInv s)
    {c : Client} (hc : s.clients[0]? = some c) (hpc : c.pc = .clrJoin) (hflag : s.stop = true) : s.unfinished = 0 := by
  have hq := hC.stop.quiet hflag (by intro c' hc'; rw [hc] at hc'; cases hc'; simp [hpc, joinPhase])
  have he := hQ.empty c hc (by simp [hpc, drained])
  have hU := hB.unf
  unfold UnfInv at hU
  have hw1 : s.workers.countP wHoldsItem = 0 := List.countP_eq_zero.mpr (fun w hw => by
    obtain ⟨j, hj⟩ := List.getElem?_of_mem hw
    simp [wHoldsItem, hq.1 j w hj])
  have hc1 : s.clients.countP cHoldsItem = 0 := List.countP_eq_zero.mpr (fun c' hc' => by
    obtain ⟨j, hj⟩ := List.getElem?_of_mem hc'
    cases hpc' : c'.pc <;> simp [cHoldsItem, hpc']
    have h0 : j = 0 := hC.only j c' hj (by simp [hpc', ctlPc])
    subst h0
    rw [hc] at hj; cases hj
    rw [hpc] at hpc'; cases hpc')
  rw [hU, he, hw1, hc1]; rfl

theorem stop_no_stuck {s : State} (htm : s.cfg.timeoutNone = false) (hB : BaseInv s) (hT : TaskInv s) (hC : CtlInv s) (hQ : QueueInv s)
    {c : Client} (hc : s.clients[0]? = some c) (hin : inStop s c.pc = true) :
    (∃ wr ∈ s.workers, wr.pc = .body) ∨ ∃ a s', progressing s a = true ∧ step? s a = some s' := by
  have hne := hC.stop.nonempty c hc
  have hcl := hC.lock.cl 0 c hc
  have hlk := canAcquire_or s (.client 0)
  have hhold := fun hd => holder_client_enabled htm hB hT hC.lock hc hd
  cases hpc : c.pc
  all_goals simp only [hpc, inStop, copyOk] at hin hne
  all_goals (first | (simp at hin; done) | skip)
  all_goals rw [hpc] at hcl hhold
  case stopIsSet =>
    right; exact ctl_progress .eventIsSet false hc rfl (by simp [hpc, ctlSpin]) (by simp [clientStep, hpc])
  case stopSet =>
    right; exact ctl_progress .eventSet false hc rfl (by simp [hpc, ctlSpin]) (by simp [clientStep, hpc])
  case stopAcq =>
    right
    rcases hlk with hacq | ⟨x, ho, hx⟩
    · exact ctl_progress .lockAcquire false hc rfl (by simp [hpc, ctlSpin]) (by simp [clientStep, hpc, hacq])
    · exact owner_progress htm hB hT hC ho hx
  case clrAcq =>
    right
    rcases hlk with hacq | ⟨x, ho, hx⟩
    · exact ctl_progress .lockAcquire false hc rfl (by simp [hpc, ctlSpin]) (by simp [clientStep, hpc, hacq])
    · exact owner_progress htm hB hT hC ho hx
  case stopPut n =>
    right; exact ctl_progress .queuePut true hc rfl (by simp [hpc, ctlSpin]) (by simp [clientStep, hpc, htm])
  case stopRel cp =>
    right
    have := hcl (by simp [cDepth])
    refine ctl_progress .lockRelease false hc rfl (by simp [hpc, ctlSpin]) ?_
    cases cp <;> simp [clientStep, hpc, canRelease, this, cDepth]
  case stopAlive cp =>
    cases cp with
    | nil => simp at hne
    | cons w rest =>
      by_cases ha : workerAlive s w = true
      · exact alive_progress htm hB hT hC hc (by simp [hpc, cDepth]) ha
      · right
        refine ctl_progress .threadIsAlive false hc rfl (by simp [hpc, ctlSpin, ha]) ?_
        cases rest <;> simp [clientStep, hpc, ha]
  case stopJoin cp =>
    cases cp with
    | nil => simp at hne
    | cons w rest =>
      by_cases ha : workerAlive s w = true
      · exact alive_progress htm hB hT hC hc (by simp [hpc, cDepth]) ha
      · right
        exact ctl_progress .threadJoin false hc rfl (by simp [hpc, ctlSpin, ha]) (by simp [clientStep, hpc, ha])
  case stopAlive2 cp =>
    cases cp with
    | nil => simp at hne
    | cons w rest =>
      by_cases ha : workerAlive s w = true
      · exact alive_progress htm hB hT hC hc (by simp [hpc, cDepth]) ha
      · right
        exact ctl_progress .threadIsAlive false hc rfl (by simp [hpc, ctlSpin, ha]) (by simp [clientStep, hpc])
  case clrGet =>
    right
    rcases hhold (by simp [cDepth]) with ⟨op, tmo, s', he, hst⟩ | ⟨h1, _⟩
    · exact ctl_progress op tmo hc he (by simp [hpc, ctlSpin]) ⟨s', hst⟩
    · cases h1
  case clrDone it =>
    right
    rcases hhold (by simp [cDepth]) with ⟨op, tmo, s', he, hst⟩ | ⟨h1, _⟩
    · exact ctl_progress op tmo hc he (by simp [hpc, ctlSpin]) ⟨s', hst⟩
    · cases h1
  case clrRel =>
    right
    rcases hhold (by simp [cDepth]) with ⟨op, tmo, s', he, hst⟩ | ⟨h1, _⟩
    · exact ctl_progress op tmo hc he (by simp [hpc, ctlSpin]) ⟨s', hst⟩
    · cases h1
  case clrJoin =>
    right
    have hu := unfinished_zero_of_quiet hB hC hQ hc hpc hin
    exact ctl_progress .queueJoin false hc rfl (by simp [hpc, ctlSpin]) (by simp [clientStep, hpc, hu])

end JRV.Pool.C11L
