/-
  Invariants of the pool model for C11 (stop() terminates, every worker exits, the pool is restartable), all for the
  configuration with a single controlling thread (`cfg.singleCtl = true`: only client 0 issues start/stop/clear).

  * `OnlyCtl`   only client 0 is ever inside start/stop/clear;
  * `LockInv`   the pool lock is owned exactly by the thread whose program counter is inside a critical section
                (exact re-entrance depth);
  * `StopInv`   the life-cycle invariant over the controller's program counter inside `stop()`:
                a live worker that has not yet removed itself is listed in `_threads`; the flag is set from `event.set`
                on; the copied list contains every live worker; after the join loop every worker is terminated
                (`quiet`), and stays so while the flag is set;
  * `QueueInv`  sentinels are in the queue only between the `put` loop of `stop()` and the end of the drain of `clear()`;
                the queue is empty from the end of the drain to the release of the lock.
-/
import JRV.Lemmas.PoolTask2
import JRV.Lemmas.PoolLock

set_option linter.unusedSimpArgs false
set_option linter.unusedVariables false

namespace JRV.Pool.C11L

/-! ### the configuration never changes -/

theorem cfg_step {s s' : State} {a : Action} (h : step? s a = some s') : s'.cfg = s.cfg := by
  unfold step? at h
  split at h
  · split at h
    · unfold workerStep at h; step_cases
      all_goals (simp only [setWorker, tdone, acq, rel, updTask])
    · simp at h
  · split at h
    · unfold clientStep at h; step_cases
      all_goals (simp only [setClient, tdone, acq, rel, updTask, put, spawnWorker, apply_ite State.cfg, ite_self])
    · simp at h

theorem cfg_reach {cfg : Config} {n : Nat} {s : State} (hr : Reach (init cfg n) s) : s.cfg = cfg :=
  Reach.induct (P := fun s => s.cfg = cfg) rfl (fun _ _ _ _ hI h => (cfg_step h).trans hI) s hr

/-! ### only the controlling thread is inside start/stop/clear -/

/-- Program counters of `start`, `stop` and `clear`. -/
def ctlPc : CPc → Bool
  | .startIsSet | .startClear | .startQsize | .stAcq _ | .stIsSet _ | .stRel _
  | .stopIsSet | .stopSet | .stopAcq | .stopPut _ | .stopRel _ | .stopAlive _ | .stopJoin _ | .stopAlive2 _
  | .clrAcq | .clrGet | .clrDone _ | .clrJoin | .clrRel => true
  | _ => false

@[simp] theorem ctlPc_notifyIf (b : Bool) (c : Client) : ctlPc (notifyIf b c).pc = ctlPc c.pc := by
  cases c with | mk pc ret => cases pc <;> cases b <;> simp [notifyIf, notifyClient, ctlPc]

def OnlyCtl (s : State) : Prop :=
  ∀ (j : Nat) (c : Client), s.clients[j]? = some c → ctlPc c.pc = true → j = 0

theorem OnlyCtl_init (cfg : Config) (n : Nat) : OnlyCtl (init cfg n) := by
  intro j c hj hp
  have := List.mem_of_getElem? hj
  simp [init] at this; obtain ⟨_, rfl⟩ := this; simp [ctlPc] at hp

theorem OnlyCtl_worker {s s' : State} {i : Nat} {w : Worker} {op : Op} {tmo : Bool}
    (hI : OnlyCtl s) (h : workerStep s i w op tmo = some s') : OnlyCtl s' := by
  unfold workerStep at h
  step_cases
  all_goals (
    intro j c hj hp
    simp only [setWorker, tdone, acq, rel, updTask] at hj
    first
    | exact hI j c hj hp
    | (obtain ⟨c0, hj0, rfl⟩ := getElem?_map_notify hj
       exact hI j c0 hj0 (by simpa using hp)))

theorem OnlyCtl_client {s s' : State} {i : Nat} {c : Client} {op : Op} {tmo : Bool}
    (hs : s.cfg.singleCtl = true) (hc : s.clients[i]? = some c) (hI : OnlyCtl s)
    (h : clientStep s i c op tmo = some s') : OnlyCtl s' := by
  have hme := hI i c hc
  have hlt : i < s.clients.length := (List.getElem?_eq_some_iff.mp hc).1
  unfold clientStep at h
  step_cases
  all_goals (
    intro j cj hj hp
    simp only [setClient, tdone, acq, rel, updTask, put, spawnWorker, apply_ite State.clients, ite_self,
      List.getElem?_set] at hj
    split at hj <;> (first
      | (have hij : i = j := by assumption
         subst hij
         simp [hlt] at hj; subst hj
         simp_all [ctlPc, isCtl]
         try (split at hp <;> simp_all [ctlPc]))
      | exact hI j cj hj hp
      | (obtain ⟨c0, hj0, rfl⟩ := getElem?_map_notify hj
         exact hI j c0 hj0 (by simpa using hp))))

theorem getElem?_append_new {α} {l : List α} {x : α} {j : Nat} {a : α} (h : (l ++ [x])[j]? = some a) :
    l[j]? = some a ∨ (j = l.length ∧ a = x) := by
  rw [List.getElem?_append] at h
  split at h
  · exact Or.inl h
  · right
    have hm := List.mem_of_getElem? h
    simp at hm
    refine ⟨?_, hm⟩
    have := (List.getElem?_eq_some_iff.mp h).1
    simp at this; omega

/-! ### exact ownership of the pool lock -/

/-- The worker is inside one of its critical sections (between `lock.acquire` and `lock.release`). -/
def wHoldsLock : WPc → Bool
  | .actRel | .finRel | .retRel | .retRelExit | .exitRel => true
  | _ => false

structure LockInv (s : State) : Prop where
  wl : ∀ (j : Nat) (w : Worker), s.workers[j]? = some w → wHoldsLock w.pc = true →
        s.lockOwner = some (.worker j) ∧ s.lockDepth = 1
  cl : ∀ (j : Nat) (c : Client), s.clients[j]? = some c → cDepth c.pc ≠ 0 →
        s.lockOwner = some (.client j) ∧ s.lockDepth = cDepth c.pc
  co : ∀ (j : Nat), s.lockOwner = some (.client j) → ∃ c, s.clients[j]? = some c ∧ cDepth c.pc ≠ 0
  wo : ∀ (j : Nat), s.lockOwner = some (.worker j) → ∃ w, s.workers[j]? = some w ∧ wHoldsLock w.pc = true

theorem LockInv_init (cfg : Config) (n : Nat) : LockInv (init cfg n) := by
  refine ⟨?_, ?_, ?_, ?_⟩ <;> simp [init]
  intro j c hj
  have := List.mem_of_getElem? hj
  simp at this; obtain ⟨_, rfl⟩ := this; simp [cDepth]

theorem LockInv_worker_wl {s s' : State} {i : Nat} {w : Worker} {op : Op} {tmo : Bool}
    (hw : s.workers[i]? = some w) (hI : LockInv s) (h : workerStep s i w op tmo = some s') :
    ∀ (j : Nat) (wj : Worker), s'.workers[j]? = some wj → wHoldsLock wj.pc = true →
      s'.lockOwner = some (.worker j) ∧ s'.lockDepth = 1 := by
  have hme := hI.wl i w hw
  have hwo := hI.wo i
  have hlt : i < s.workers.length := (List.getElem?_eq_some_iff.mp hw).1
  unfold workerStep at h
  step_cases
  all_goals (
    intro j wj hj hp
    simp only [setWorker, tdone, acq, rel, updTask, List.getElem?_set] at hj ⊢
    split at hj <;> (first
      | (have hij : i = j := by assumption
         subst hij
         simp [hlt] at hj; subst hj
         simp_all [wHoldsLock, canAcquire, canRelease]
         done)
      | (have hold := hI.wl j wj hj hp
         simp_all [wHoldsLock, canAcquire, canRelease]
         done)))

theorem LockInv_worker_cl {s s' : State} {i : Nat} {w : Worker} {op : Op} {tmo : Bool}
    (hw : s.workers[i]? = some w) (hI : LockInv s) (h : workerStep s i w op tmo = some s') :
    ∀ (j : Nat) (c : Client), s'.clients[j]? = some c → cDepth c.pc ≠ 0 →
      s'.lockOwner = some (.client j) ∧ s'.lockDepth = cDepth c.pc := by
  unfold workerStep at h
  step_cases
  all_goals (
    intro j c hj hd
    simp only [setWorker, tdone, acq, rel, updTask] at hj ⊢
    have hold : s.lockOwner = some (.client j) ∧ s.lockDepth = cDepth c.pc := by
      first
      | exact hI.cl j c hj hd
      | (obtain ⟨c0, hj0, rfl⟩ := getElem?_map_notify hj
         have := hI.cl j c0 hj0 (by simpa using hd)
         simpa using this)
    first
    | exact hold
    | (simp_all [canAcquire, canRelease]; done))

theorem LockInv_worker_co {s s' : State} {i : Nat} {w : Worker} {op : Op} {tmo : Bool}
    (hw : s.workers[i]? = some w) (hI : LockInv s) (h : workerStep s i w op tmo = some s') :
    ∀ (j : Nat), s'.lockOwner = some (.client j) → ∃ c, s'.clients[j]? = some c ∧ cDepth c.pc ≠ 0 := by
  have hme := hI.wl i w hw
  unfold workerStep at h
  step_cases
  all_goals (
    intro j ho
    simp only [setWorker, tdone, acq, rel, updTask] at ho ⊢
    have hold : s.lockOwner = some (.client j) := by
      first
      | exact ho
      | (simp_all [wHoldsLock, canAcquire, canRelease]; done)
    obtain ⟨c, h1, h2⟩ := hI.co j hold
    first
    | exact ⟨c, h1, h2⟩
    | (refine ⟨notifyIf (s.unfinished == 1) c, ?_, by simpa using h2⟩
       simp [h1]))

theorem LockInv_worker_wo {s s' : State} {i : Nat} {w : Worker} {op : Op} {tmo : Bool}
    (hw : s.workers[i]? = some w) (hI : LockInv s) (h : workerStep s i w op tmo = some s') :
    ∀ (j : Nat), s'.lockOwner = some (.worker j) → ∃ wj, s'.workers[j]? = some wj ∧ wHoldsLock wj.pc = true := by
  have hme := hI.wl i w hw
  have hlt : i < s.workers.length := (List.getElem?_eq_some_iff.mp hw).1
  unfold workerStep at h
  step_cases
  all_goals (
    intro j ho
    simp only [setWorker, tdone, acq, rel, updTask] at ho ⊢
    by_cases hji : j = i
    · subst hji
      refine ⟨_, getElem?_set_self' hlt, ?_⟩
      have hold := hI.wo j
      simp_all [wHoldsLock, canAcquire, canRelease]
      done
    · have hold : s.lockOwner = some (.worker j) := by
        simp_all [wHoldsLock, canAcquire, canRelease]
      obtain ⟨wj, h1, h2⟩ := hI.wo j hold
      exact ⟨wj, getElem?_set_ne' hji h1, h2⟩)

theorem LockInv_client_wl {s s' : State} {i : Nat} {c : Client} {op : Op} {tmo : Bool}
    (hc : s.clients[i]? = some c) (hI : LockInv s) (h : clientStep s i c op tmo = some s') :
    ∀ (j : Nat) (wj : Worker), s'.workers[j]? = some wj → wHoldsLock wj.pc = true →
      s'.lockOwner = some (.worker j) ∧ s'.lockDepth = 1 := by
  unfold clientStep at h
  step_cases
  all_goals (
    intro j wj hj hp
    simp only [setClient, tdone, acq, rel, updTask, put, spawnWorker, apply_ite State.workers, apply_ite State.lockOwner,
      apply_ite State.lockDepth, ite_self] at hj ⊢
    have hold : s.lockOwner = some (.worker j) ∧ s.lockDepth = 1 := by
      first
      | exact hI.wl j wj hj hp
      | (rcases getElem?_append_new hj with hj | ⟨_, rfl⟩
         · exact hI.wl j wj hj hp
         · simp [wHoldsLock] at hp)
    first
    | exact hold
    | (simp_all [canAcquire, canRelease]; done))

theorem LockInv_client_cl {s s' : State} {i : Nat} {c : Client} {op : Op} {tmo : Bool}
    (hc : s.clients[i]? = some c) (hI : LockInv s) (h : clientStep s i c op tmo = some s') :
    ∀ (j : Nat) (cj : Client), s'.clients[j]? = some cj → cDepth cj.pc ≠ 0 →
      s'.lockOwner = some (.client j) ∧ s'.lockDepth = cDepth cj.pc := by
  have hme := hI.cl i c hc
  have hco := hI.co i
  have hlt : i < s.clients.length := (List.getElem?_eq_some_iff.mp hc).1
  unfold clientStep at h
  step_cases
  all_goals (
    intro j cj hj hd
    simp only [setClient, tdone, acq, rel, updTask, put, spawnWorker, apply_ite State.clients, apply_ite State.lockOwner,
      apply_ite State.lockDepth, ite_self, List.getElem?_set] at hj ⊢
    split at hj <;> (first
      | (have hij : i = j := by assumption
         subst hij
         simp [hlt] at hj; subst hj
         simp_all [cDepth, canAcquire, canRelease]
         try (first | omega | (split <;> simp_all [cDepth] <;> omega))
         done)
      | (have hold : s.lockOwner = some (.client j) ∧ s.lockDepth = cDepth cj.pc := by
           first
           | exact hI.cl j cj hj hd
           | (obtain ⟨c0, hj0, rfl⟩ := getElem?_map_notify hj
              have := hI.cl j c0 hj0 (by simpa using hd)
              simpa using this)
         first
         | exact hold
         | (simp_all [canAcquire, canRelease]; done))))

theorem LockInv_client_co {s s' : State} {i : Nat} {c : Client} {op : Op} {tmo : Bool}
    (hc : s.clients[i]? = some c) (hI : LockInv s) (h : clientStep s i c op tmo = some s') :
    ∀ (j : Nat), s'.lockOwner = some (.client j) → ∃ cj, s'.clients[j]? = some cj ∧ cDepth cj.pc ≠ 0 := by
  have hme := hI.cl i c hc
  have hco := hI.co i
  have hlt : i < s.clients.length := (List.getElem?_eq_some_iff.mp hc).1
  unfold clientStep at h
  step_cases
  all_goals (
    intro j ho
    simp only [setClient, tdone, acq, rel, updTask, put, spawnWorker, apply_ite State.clients, apply_ite State.lockOwner,
      apply_ite State.lockDepth, ite_self] at ho ⊢
    by_cases hji : j = i
    · subst hji
      refine ⟨_, getElem?_set_self' (by simpa using hlt), ?_⟩
      simp_all [cDepth, canAcquire, canRelease]
      try (first | omega | (split <;> simp_all [cDepth] <;> omega))
      done
    · have hold : s.lockOwner = some (.client j) := by
        simp_all [canAcquire, canRelease]
      obtain ⟨cj, h1, h2⟩ := hI.co j hold
      first
      | exact ⟨cj, getElem?_set_ne' hji h1, h2⟩
      | (refine ⟨notifyIf (s.unfinished == 1) cj, getElem?_set_ne' hji ?_, by simpa using h2⟩
         simp [h1]))

theorem LockInv_client_wo {s s' : State} {i : Nat} {c : Client} {op : Op} {tmo : Bool}
    (hc : s.clients[i]? = some c) (hI : LockInv s) (h : clientStep s i c op tmo = some s') :
    ∀ (j : Nat), s'.lockOwner = some (.worker j) → ∃ wj, s'.workers[j]? = some wj ∧ wHoldsLock wj.pc = true := by
  have hme := hI.cl i c hc
  unfold clientStep at h
  step_cases
  all_goals (
    intro j ho
    simp only [setClient, tdone, acq, rel, updTask, put, spawnWorker, apply_ite State.workers, apply_ite State.lockOwner,
      apply_ite State.lockDepth, ite_self] at ho ⊢
    have hold : s.lockOwner = some (.worker j) := by
      first
      | exact ho
      | (simp_all [canAcquire, canRelease]; done)
    obtain ⟨wj, h1, h2⟩ := hI.wo j hold
    first
    | exact ⟨wj, h1, h2⟩
    | exact ⟨wj, getElem?_append_some h1, h2⟩)

theorem LockInv_step {s s' : State} {a : Action} (hI : LockInv s) (h : step? s a = some s') : LockInv s' := by
  unfold step? at h
  split at h
  · split at h
    · rename_i i w hw
      exact ⟨LockInv_worker_wl hw hI h, LockInv_worker_cl hw hI h, LockInv_worker_co hw hI h, LockInv_worker_wo hw hI h⟩
    · simp at h
  · split at h
    · rename_i i c hc
      exact ⟨LockInv_client_wl hc hI h, LockInv_client_cl hc hI h, LockInv_client_co hc hI h, LockInv_client_wo hc hI h⟩
    · simp at h

theorem LockInv_reach {cfg : Config} {n : Nat} {s : State} (hr : Reach (init cfg n) s) : LockInv s :=
  Reach.induct (LockInv_init cfg n) (fun _ _ _ _ hI h => LockInv_step hI h) s hr

end JRV.Pool.C11L
