/-
  The stop markers of `stop()` cover the waiting workers (single controlling thread = client 0).

  `stop()` puts one sentinel per listed thread with a TIMED `queue.put`; when that `put` gives up (`queue.Full`) fewer
  sentinels than threads are in the queue.  In the model a time-out branch may be taken at any moment; here the
  reachability relation `ReachQ` lets a timed `queue.put` give up only when the queue is full and nothing but time-outs
  and the environment can move ("a positive time-out expires at quiescence").  Under `ReachQ`, in the join loop of
  `stop()` the queue holds at least as many sentinels as there are workers waiting in `queue.get`
  (`stop_markers_cover`), hence such a worker never needs its idle time-out (`stop_waiter_enabled`).
-/
import JRV.Lemmas.PoolC11Live

set_option linter.unusedSimpArgs false
set_option linter.unusedVariables false

namespace JRV.Pool.C11L

/-- Nothing but time-out branches and moves of the environment (a client calling the API, a task body ending) is
    enabled: the moment at which, and only at which, a positive time-out expires. -/
def Quiescent (s : State) : Prop :=
  ∀ (a : Action) (s' : State), a.timeout = false → envOp a.op = false → step? s a ≠ some s'

/-- Reachability in which a timed `queue.put` gives up (raises Full) only when the queue IS full and nothing else can
    move ("time-outs expire at quiescence"); every other time-out may still be taken at any moment. -/
inductive ReachQ (s0 : State) : State → Prop where
  | refl : ReachQ s0 s0
  | step {s s' : State} (a : Action) : ReachQ s0 s → step? s a = some s' →
      (a.op = .queuePut → a.timeout = true → isFull s = true ∧ Quiescent s) → ReachQ s0 s'

theorem ReachQ.toReach {s0 s : State} (h : ReachQ s0 s) : Reach s0 s := by
  induction h with
  | refl => exact .refl
  | step a _ hs _ ih => exact .step a ih hs

/-- A worker parked in / about to call `queue.get`. -/
def waiting (w : Worker) : Bool := w.pc == .get

def isSentinel (it : Item) : Bool := it == .sentinel

/-- Number of workers waiting on the queue / number of stop markers in the queue. -/
def nWait (s : State) : Nat := s.workers.countP waiting
def nSent (s : State) : Nat := s.queue.countP isSentinel

/-- The number of sentinels `stop()` has still to put: `k` in the `put` loop, `0` from the end of it to the end of the
    join loop; undefined elsewhere. -/
def slack : CPc → Option Nat
  | .stopPut k => some k
  | .stopRel _ | .stopAlive _ | .stopJoin _ | .stopAlive2 _ => some 0
  | _ => none

@[simp] theorem slack_notifyIf (b : Bool) (c : Client) : slack (notifyIf b c).pc = slack c.pc := by
  cases c with | mk pc ret => cases pc <;> cases b <;> simp [notifyIf, notifyClient, slack]

theorem joinPhase_of_slack {pc : CPc} {k : Nat} (h : slack pc = some k) : joinPhase pc = true := by
  cases pc <;> simp [slack] at h <;> simp [joinPhase]

theorem slack_of_copyOf {pc : CPc} {cp : List Nat} (h : copyOf pc = some cp) : slack pc = some 0 := by
  cases pc <;> simp [copyOf] at h <;> simp [slack]

/-- The marker invariant: waiting workers ≤ sentinels in the queue + sentinels still to be put. -/
def MarkerInv (s : State) : Prop :=
  ∀ c, s.clients[0]? = some c → ∀ k, slack c.pc = some k → nWait s ≤ nSent s + k

theorem MarkerInv_init (cfg : Config) (n : Nat) : MarkerInv (init cfg n) := by
  intro c hc k hk
  have := List.mem_of_getElem? hc
  simp [init] at this; obtain ⟨_, rfl⟩ := this
  simp [slack] at hk

/-! ### counting: workers with pairwise distinct listed indices -/

theorem countP_le_of_index_mem {α} (p : α → Bool) :
    ∀ (ws : List α) (f : Nat → Nat) (l : List Nat), (∀ a b, f a = f b → a = b) →
      (∀ (j : Nat) (w : α), ws[j]? = some w → p w = true → f j ∈ l) → ws.countP p ≤ l.length := by
  intro ws
  induction ws with
  | nil => intro f l _ _; simp
  | cons x xs ih =>
    intro f l hf hm
    have hm' : ∀ (j : Nat) (w : α), xs[j]? = some w → p w = true → f (j + 1) ∈ l := by
      intro j w hj hp
      exact hm (j + 1) w (by simpa using hj) hp
    have hf' : ∀ a b, f (a + 1) = f (b + 1) → a = b := by
      intro a b hab
      have := hf _ _ hab
      omega
    by_cases hx : p x = true
    · have h0 : f 0 ∈ l := hm 0 x (by simp) hx
      have hlen := List.length_erase_of_mem h0
      have hpos : 0 < l.length := List.length_pos_of_mem h0
      have := ih (fun j => f (j + 1)) (l.erase (f 0)) hf' (by
        intro j w hj hp
        refine (List.mem_erase_of_ne ?_).mpr (hm' j w hj hp)
        intro he
        have := hf _ _ he
        omega)
      rw [List.countP_cons_of_pos hx]
      omega
    · have := ih (fun j => f (j + 1)) l hf' hm'
      rw [List.countP_cons_of_neg hx]
      exact this

/-- Every waiting worker is listed in `_threads`: there are at most `len(_threads)` of them. -/
theorem nWait_le_threads {s : State} (hI : StopInv s) : nWait s ≤ s.threads.length := by
  refine countP_le_of_index_mem waiting s.workers id s.threads (fun _ _ h => h) ?_
  intro j w hj hp
  have hg : w.pc = .get := by simpa [waiting] using hp
  exact hI.listed j w hj (by simp [hg]) (by simp [hg])

/-! ### a worker waiting on a non-empty queue can take an item -/

theorem get_enabled {s : State} (hT : TaskInv s) {j : Nat} {w : Worker} (hw : s.workers[j]? = some w)
    (hg : w.pc = .get) (hq : s.queue ≠ []) : ∃ s', step? s ⟨.worker j, .queueGet, false⟩ = some s' := by
  cases hq' : s.queue with
  | nil => exact absurd hq' hq
  | cons x rest =>
    cases x with
    | sentinel => simp [step?, hw, workerStep, hg, hq']
    | task t =>
      obtain ⟨tk, htk, _⟩ := hT.qphase t (by rw [hq']; simp)
      have hlt : t < s.tasks.length := (List.getElem?_eq_some_iff.mp htk).1
      simp [step?, hw, workerStep, hg, hq', hlt]

theorem queue_ne_nil_of_full {s : State} (h : isFull s = true) : s.queue ≠ [] := by
  intro he
  simp [isFull, he] at h

/-- At quiescence with a non-empty queue no worker waits on the queue. -/
theorem nWait_zero_of_quiescent {s : State} (hT : TaskInv s) (hq : s.queue ≠ []) (hQ : Quiescent s) : nWait s = 0 := by
  refine List.countP_eq_zero.mpr ?_
  intro w hw hp
  obtain ⟨j, hj⟩ := List.getElem?_of_mem hw
  have hg : w.pc = .get := by simpa [waiting] using hp
  obtain ⟨s', hs'⟩ := get_enabled hT hj hg hq
  exact hQ ⟨.worker j, .queueGet, false⟩ s' rfl rfl hs'

/-! ### worker steps -/

/-- While the flag is set no worker starts to wait; a `queue.get` removes one waiting worker and at most one
    sentinel. -/
theorem workerStep_marker {s s' : State} {i : Nat} {w : Worker} {op : Op} {tmo : Bool}
    (hw : s.workers[i]? = some w) (hflag : s.stop = true) (h : workerStep s i w op tmo = some s') :
    nWait s' + nSent s ≤ nWait s + nSent s' := by
  have hle := countP_ge waiting hw
  unfold workerStep at h
  step_cases
  all_goals (
    simp only [nWait, nSent, setWorker, tdone, acq, rel, updTask, countP_set_eq waiting hw]
    generalize List.countP waiting s.workers = n at *
    simp [waiting, isSentinel, List.countP_cons, hflag, *] at hle ⊢
    try omega)

theorem MarkerInv_worker {s s' : State} {i : Nat} {w : Worker} {op : Op} {tmo : Bool}
    (hw : s.workers[i]? = some w) (hS : StopInv s) (hI : MarkerInv s) (h : workerStep s i w op tmo = some s') :
    MarkerInv s' := by
  obtain ⟨b, hcl⟩ := workerStep_clients h
  intro c hc k hk
  rw [hcl] at hc
  obtain ⟨c0, h0, rfl⟩ := getElem?_map_notify hc
  have hk0 : slack c0.pc = some k := by simpa using hk
  have hflag := hS.flag c0 h0 (joinPhase_of_slack hk0)
  have h1 := workerStep_marker hw hflag h
  have h2 := hI c0 h0 k hk0
  omega

/-! ### steps of a client that is not the controller -/

theorem clientStep_nonctl_sent {s s' : State} {i : Nat} {c : Client} {op : Op} {tmo : Bool}
    (hn : ctlPc c.pc = false) (h : clientStep s i c op tmo = some s') : nSent s' = nSent s := by
  unfold clientStep at h
  step_cases
  all_goals (first | (simp [ctlPc, *] at hn; done) | skip)
  all_goals (
    simp only [nSent, setClient, tdone, acq, rel, updTask, put, spawnWorker, apply_ite State.queue, ite_self]
    try (simp [isSentinel, List.countP_append]))

theorem MarkerInv_client_other {s s' : State} {i : Nat} {c : Client} {op : Op} {tmo : Bool}
    (hC : CtlInv s) (hc : s.clients[i]? = some c) (hi : i ≠ 0) (hI : MarkerInv s)
    (h : clientStep s i c op tmo = some s') : MarkerInv s' := by
  have hn : ctlPc c.pc = false := by
    cases hp : ctlPc c.pc
    · rfl
    · exact absurd (hC.only i c hc hp) hi
  have hic : isCtl s i = false := by simp [isCtl, hC.single, hi]
  obtain ⟨hst, ⟨c', hcl, _⟩, hwk⟩ := clientStep_nonctl hn hic h
  have hq := clientStep_nonctl_sent hn h
  have h0 : s'.clients[0]? = s.clients[0]? := by rw [hcl, List.getElem?_set_ne hi]
  intro c0 hc0 k hk
  rw [h0] at hc0
  have hflag := hC.stop.flag c0 hc0 (joinPhase_of_slack hk)
  have h2 := hI c0 hc0 k hk
  rcases hwk with ⟨hw, _⟩ | ⟨hsf, _, _⟩
  · have : nWait s' = nWait s := by simp [nWait, hw]
    omega
  · rw [hsf] at hflag; cases hflag

/-! ### the controller's own steps -/

theorem MarkerInv_ctl {s s' : State} {c : Client} {op : Op} {tmo : Bool}
    (hc : s.clients[0]? = some c) (hI : MarkerInv s)
    (hlist : nWait s ≤ s.threads.length)
    (hfull : ∀ n, c.pc = .stopPut n → op = .queuePut → tmo = true → nWait s = 0)
    (h : clientStep s 0 c op tmo = some s') : MarkerInv s' := by
  have hme := hI c hc
  have hlt : 0 < s.clients.length := (List.getElem?_eq_some_iff.mp hc).1
  unfold clientStep at h
  step_cases
  all_goals (
    intro c' hc' k hk
    have hpc := ‹c.pc = _›
    rw [hpc] at hme
    simp only [setClient, tdone, acq, rel, updTask, put, spawnWorker, apply_ite State.clients, ite_self] at hc'
    simp [hlt] at hc'; subst hc'
    first
    | (simp [slack] at hk; done)
    | (split at hk <;> simp [slack] at hk <;> done)
    | skip)
  all_goals (
    simp only [nWait, nSent, setClient, tdone, acq, rel, updTask, put, spawnWorker, apply_ite State.workers,
      apply_ite State.queue, ite_self] at hme hlist hfull ⊢
    simp only [slack, Option.some.injEq, forall_eq'] at hme)
  all_goals (
    simp only [slack, Option.some.injEq] at hk
    subst hk
    have e1 : isSentinel Item.sentinel = true := rfl
    try simp only [List.countP_append, List.countP_cons, List.countP_nil, e1, if_true] at hme ⊢
    first
    | omega
    | (have := hfull _ hpc trivial trivial; omega))

/-! ### assembly -/

theorem MarkerInv_step {s s' : State} {a : Action} (hC : CtlInv s) (hT : TaskInv s) (hI : MarkerInv s)
    (h : step? s a = some s')
    (hq : a.op = .queuePut → a.timeout = true → isFull s = true ∧ Quiescent s) : MarkerInv s' := by
  unfold step? at h
  split at h
  · split at h
    · rename_i i _ _ w hw
      exact MarkerInv_worker hw hC.stop hI h
    · simp at h
  · split at h
    · rename_i i _ _ c hc
      by_cases hi : i = 0
      · subst hi
        refine MarkerInv_ctl hc hI (nWait_le_threads hC.stop) ?_ h
        intro n _ hop htm
        obtain ⟨hfull, hQ⟩ := hq hop htm
        exact nWait_zero_of_quiescent hT (queue_ne_nil_of_full hfull) hQ
      · exact MarkerInv_client_other hC hc hi hI h
    · simp at h

theorem MarkerInv_reach {cfg : Config} {n : Nat} {s : State} (hs : cfg.singleCtl = true)
    (hr : ReachQ (init cfg n) s) : MarkerInv s := by
  induction hr with
  | refl => exact MarkerInv_init cfg n
  | step a hr hst hq ih =>
    exact MarkerInv_step (CtlInv_reach hs hr.toReach) (TaskInv_reach hr.toReach) ih hst hq

/-- MAIN: while the controlling thread is in the join loop of `stop()` (markers placed: `copyOf c.pc = some cp`), the
    queue holds at least as many stop markers as there are workers waiting on the queue. -/
theorem stop_markers_cover (cfg : Config) (n : Nat) (s : State) (hs : cfg.singleCtl = true)
    (hr : ReachQ (init cfg n) s) (c : Client) (hc : s.clients[0]? = some c) (cp : List Nat)
    (hj : copyOf c.pc = some cp) : s.workers.countP waiting ≤ s.queue.countP isSentinel :=
  MarkerInv_reach hs hr c hc 0 (slack_of_copyOf hj)

/-- The same count inside the `put` loop of `stop()`: the markers still to be put make up the difference. -/
theorem stop_markers_cover_put (cfg : Config) (n : Nat) (s : State) (hs : cfg.singleCtl = true)
    (hr : ReachQ (init cfg n) s) (c : Client) (hc : s.clients[0]? = some c) (k : Nat)
    (hj : c.pc = .stopPut k) : s.workers.countP waiting ≤ s.queue.countP isSentinel + k :=
  MarkerInv_reach hs hr c hc k (by simp [hj, slack])

/-- COROLLARY: in the join loop of `stop()` a worker that waits on the queue never needs its idle time-out: the queue
    is not empty and its `queue.get` is enabled. -/
theorem stop_waiter_enabled (cfg : Config) (n : Nat) (s : State) (hs : cfg.singleCtl = true)
    (hr : ReachQ (init cfg n) s) (c : Client) (hc : s.clients[0]? = some c) (cp : List Nat)
    (hj : copyOf c.pc = some cp) (j : Nat) (w : Worker) (hw : s.workers[j]? = some w) (hg : w.pc = .get) :
    s.queue ≠ [] ∧ ∃ s', step? s ⟨.worker j, .queueGet, false⟩ = some s' := by
  have h1 := stop_markers_cover cfg n s hs hr c hc cp hj
  have h2 := countP_ge waiting hw
  have hwt : waiting w = true := by simp [waiting, hg]
  rw [if_pos hwt] at h2
  have hne : s.queue ≠ [] := by
    intro he
    rw [he, List.countP_nil] at h1
    omega
  exact ⟨hne, get_enabled (TaskInv_reach hr.toReach) hw hg hne⟩

/-! ### non-vacuity -/

/-- A run without time-out branches is a `ReachQ` run. -/
theorem ReachQ.run {s0 : State} : ∀ (as : List Action) (s s' : State), (∀ a ∈ as, a.timeout = false) →
    ReachQ s0 s → run s as = some s' → ReachQ s0 s' := by
  intro as
  induction as with
  | nil => intro s s' _ hr h; simp [JRV.Pool.run] at h; subst h; exact hr
  | cons a rest ih =>
    intro s s' hall hr h
    simp only [JRV.Pool.run] at h
    cases hst : step? s a with
    | none => simp [hst] at h
    | some s1 =>
      simp only [hst] at h
      have hat : a.timeout = false := hall a (by simp)
      refine ih s1 s' (fun b hb => hall b (by simp [hb])) (.step a hr hst ?_) h
      intro _ ht
      rw [hat] at ht; cases ht

def demoCfg : Config := { max := 2, min := 2, qbound := 1 }

/-- `start()` (two workers, both go to `queue.get`), then `stop()` up to the join loop; the queue has room for one
    sentinel only, worker 0 takes it before the second `put`. -/
def demoTrace : List Action :=
  [⟨.client 0, .callStart, false⟩, ⟨.client 0, .eventIsSet, false⟩, ⟨.client 0, .eventClear, false⟩,
   ⟨.client 0, .queueQsize, false⟩,
   ⟨.client 0, .lockAcquire, false⟩, ⟨.client 0, .eventIsSet, false⟩, ⟨.client 0, .lockRelease, false⟩,
   ⟨.client 0, .lockAcquire, false⟩, ⟨.client 0, .eventIsSet, false⟩, ⟨.client 0, .lockRelease, false⟩,
   ⟨.worker 0, .eventIsSet, false⟩, ⟨.worker 1, .eventIsSet, false⟩,
   ⟨.client 0, .callStop, false⟩, ⟨.client 0, .eventIsSet, false⟩, ⟨.client 0, .eventSet, false⟩,
   ⟨.client 0, .lockAcquire, false⟩, ⟨.client 0, .queuePut, false⟩,
   ⟨.worker 0, .queueGet, false⟩,
   ⟨.client 0, .queuePut, false⟩, ⟨.client 0, .lockRelease, false⟩]

def demoState : State :=
  { cfg := demoCfg, stop := true, lockOwner := none, lockDepth := 0, queue := [.sentinel], unfinished := 2,
    nbThreads := 2, nbActive := 0, nbPending := 0, threads := [0, 1],
    workers := [{ pc := .sentDone }, { pc := .get }], tasks := [],
    clients := [{ pc := .stopAlive [0, 1], ret := .none }] }

theorem demo_run : JRV.Pool.run (init demoCfg 1) demoTrace = some demoState := by rfl

theorem demo_reach : ReachQ (init demoCfg 1) demoState :=
  ReachQ.run demoTrace _ _ (by decide) .refl demo_run

/-- Non-vacuity of `stop_markers_cover` / `stop_waiter_enabled`: a `ReachQ`-reachable state in which client 0 is in the
    join loop of `stop()` and a worker waits on the queue (which holds one sentinel). -/
example : ∃ s c cp w, ReachQ (init demoCfg 1) s ∧ s.clients[0]? = some c ∧ copyOf c.pc = some cp ∧
    s.workers[1]? = some w ∧ w.pc = .get ∧ s.queue = [.sentinel] :=
  ⟨demoState, _, _, _, demo_reach, rfl, rfl, rfl, rfl, rfl⟩

/-! The guarded time-out of `stop()`'s `queue.put` can be taken: one worker inside a task body, a second task fills the
    queue (bound 1), `stop()` reaches its `put`: the queue is full and only the time-out (or the end of the task body,
    a move of the environment) can happen. -/

def demoCfg2 : Config := { max := 1, min := 1, qbound := 1 }

def demoTrace2 : List Action :=
  [⟨.client 0, .callStart, false⟩, ⟨.client 0, .eventIsSet, false⟩, ⟨.client 0, .eventClear, false⟩,
   ⟨.client 0, .queueQsize, false⟩,
   ⟨.client 0, .lockAcquire, false⟩, ⟨.client 0, .eventIsSet, false⟩, ⟨.client 0, .lockRelease, false⟩,
   ⟨.worker 0, .eventIsSet, false⟩,
   ⟨.client 0, .callEnqueue, false⟩, ⟨.client 0, .lockAcquire, false⟩, ⟨.client 0, .queuePut, false⟩,
   ⟨.client 0, .lockRelease, false⟩,
   ⟨.worker 0, .queueGet, false⟩, ⟨.worker 0, .lockAcquire, false⟩, ⟨.worker 0, .lockRelease, false⟩,
   ⟨.worker 0, .taskBegin, false⟩,
   ⟨.client 0, .callEnqueue, false⟩, ⟨.client 0, .lockAcquire, false⟩, ⟨.client 0, .queuePut, false⟩,
   ⟨.client 0, .lockAcquire, false⟩, ⟨.client 0, .lockRelease, false⟩, ⟨.client 0, .lockRelease, false⟩,
   ⟨.client 0, .callStop, false⟩, ⟨.client 0, .eventIsSet, false⟩, ⟨.client 0, .eventSet, false⟩,
   ⟨.client 0, .lockAcquire, false⟩]

def demoState2 (pc : CPc) : State :=
  { cfg := demoCfg2, stop := true, lockOwner := some (.client 0), lockDepth := 1, queue := [.task 1], unfinished := 2,
    nbThreads := 1, nbActive := 1, nbPending := 2, threads := [0],
    workers := [{ pc := .body, held := some 0 }],
    tasks := [{ phase := .running, execCount := 1, creator := 0, owner := some 0 }, { phase := .queued, creator := 0 }],
    clients := [{ pc := pc, ret := .none }] }

theorem demo2_run : JRV.Pool.run (init demoCfg2 1) demoTrace2 = some (demoState2 (.stopPut 1)) := by rfl

theorem demo2_reach : ReachQ (init demoCfg2 1) (demoState2 (.stopPut 1)) :=
  ReachQ.run demoTrace2 _ _ (by decide) .refl demo2_run

theorem demo2_quiescent : Quiescent (demoState2 (.stopPut 1)) := by
  intro a s' ht he h
  obtain ⟨who, op, tmo⟩ := a
  simp only at ht he
  subst ht
  cases who with
  | worker i =>
    match i with
    | 0 =>
      cases op <;> first
        | (simp [envOp] at he; done)
        | (simp [step?, demoState2, workerStep] at h; done)
    | i + 1 => simp [step?, demoState2] at h
  | client i =>
    match i with
    | 0 =>
      cases op <;> first
        | (simp [envOp] at he; done)
        | (simp [step?, demoState2, clientStep, isFull, demoCfg2] at h; done)
    | i + 1 => simp [step?, demoState2] at h

/-- Non-vacuity of the guard of `ReachQ.step`: a `ReachQ` run in which `stop()`'s timed `queue.put` gives up (at
    quiescence, queue full) and the join loop is entered with fewer sentinels (none) than listed threads (one). -/
example : ∃ s, ReachQ (init demoCfg2 1) s ∧ s.clients[0]? = some { pc := .stopRel [0], ret := .none } ∧
    s.queue.countP isSentinel = 0 ∧ s.threads.length = 1 := by
  refine ⟨demoState2 (.stopRel [0]), ?_, rfl, rfl, rfl⟩
  refine .step ⟨.client 0, .queuePut, true⟩ demo2_reach (by rfl) ?_
  intro _ _
  exact ⟨by rfl, demo2_quiescent⟩

end JRV.Pool.C11L
