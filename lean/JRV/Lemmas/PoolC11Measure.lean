/-
  A termination measure for `stop()` (single controlling thread): the remaining steps of the live workers under the
  set flag + the remaining steps of the `enqueue` calls in progress + the remaining steps of the controller inside
  `stop()` (sentinels to place, threads to join, drain) + twice the queue length (each queued item costs `clear()`
  two steps).
-/
import JRV.Lemmas.PoolC11Live

set_option linter.unusedSimpArgs false
set_option linter.unusedVariables false

namespace JRV.Pool.C11L

/-- Steps (weighted) a worker still has to take to its terminal program counter once the flag is set. -/
def wRank : WPc → Nat
  | .dead => 0 | .exitRel => 3 | .exitAcq => 4 | .retRelExit => 5 | .sentDone => 5 | .loopHead => 5
  | .retRel => 6 | .retAcq => 7 | .finRel => 8 | .finAcq => 9 | .taskDone => 10 | .futSet => 11 | .body => 12
  | .begin => 13 | .actRel => 14 | .actAcq => 15 | .get => 16

/-- Steps an `enqueue` call in progress still has to take (its `put` adds one queue item, weight 2). -/
def eRank : CPc → Nat
  | .enqAcq _ => 8 | .enqPut _ => 7 | .enqStAcq => 4 | .enqStIsSet => 3 | .enqStRel => 2 | .enqRel => 1 | .enqRelFail => 1
  | _ => 0

def aliveIn (ws : List Worker) (i : Nat) : Bool :=
  match ws[i]? with
  | some w => w.pc != .dead
  | none => false

theorem workerAlive_eq (s : State) (i : Nat) : workerAlive s i = aliveIn s.workers i := rfl

/-- Steps the controller still has to take inside `stop()` from its `lock.acquire` on, not counting the drain of the
    queue items (`T` = length of `_threads`).  In the join loop the three operations of one round on a live thread have
    the same rank (going round the loop is not progress); once the thread is terminated they are ranked 0, 2, 1. -/
def kRank (ws : List Worker) (T : Nat) : CPc → Nat
  | .stopAcq => 6 * T + 10
  | .stopPut n => 3 * T + 3 * n + 9
  | .stopRel cp => 3 * cp.length + 6
  | .stopAlive cp => 3 * cp.length + 5
  | .stopJoin cp => 3 * cp.length + 5 + (match cp with | w :: _ => if aliveIn ws w then 0 else 2 | [] => 0)
  | .stopAlive2 cp => 3 * cp.length + 5 + (match cp with | w :: _ => if aliveIn ws w then 0 else 1 | [] => 0)
  | .clrAcq => 4 | .clrGet => 3 | .clrDone _ => 4 | .clrJoin => 2 | .clrRel => 1
  | _ => 0

def wSum (s : State) : Nat := (s.workers.map (fun w => wRank w.pc)).sum
def eSum (s : State) : Nat := (s.clients.map (fun c => eRank c.pc)).sum
def ctlRank (s : State) : Nat :=
  match s.clients[0]? with
  | some c => kRank s.workers s.threads.length c.pc
  | none => 0

/-- The termination measure of `stop()`. -/
def stopMeasure (s : State) : Nat := wSum s + eSum s + ctlRank s + 2 * s.queue.length

theorem sum_map_set {α} (f : α → Nat) (l : List α) (i : Nat) (a w : α) (h : l[i]? = some w) :
    ((l.set i a).map f).sum + f w = (l.map f).sum + f a := by
  induction l generalizing i with
  | nil => simp at h
  | cons x xs ih =>
    cases i with
    | zero =>
      simp at h; subst h
      simp; omega
    | succ n =>
      simp at h
      have := ih n h
      simp only [List.set_cons_succ, List.map_cons, List.sum_cons]; omega

@[simp] theorem eRank_notifyIf (b : Bool) (c : Client) : eRank (notifyIf b c).pc = eRank c.pc := by
  cases c with | mk pc ret => cases pc <;> cases b <;> simp [notifyIf, notifyClient, eRank]

@[simp] theorem kRank_notifyIf (ws : List Worker) (T : Nat) (b : Bool) (c : Client) :
    kRank ws T (notifyIf b c).pc = kRank ws T c.pc := by
  cases c with | mk pc ret => cases pc <;> cases b <;> simp [notifyIf, notifyClient, kRank]

theorem eSum_map_notify (b : Bool) (l : List Client) :
    ((l.map (notifyIf b)).map (fun c => eRank c.pc)).sum = (l.map (fun c => eRank c.pc)).sum := by
  simp [List.map_map, Function.comp_def]

/-! ### worker steps -/

/-- Under the set flag every worker step lowers the worker's rank (by 3 for the last one). -/
theorem workerStep_rank {s s' : State} {i : Nat} {w : Worker} {op : Op} {tmo : Bool}
    (hflag : s.stop = true) (h : workerStep s i w op tmo = some s') :
    ∃ w', s'.workers = s.workers.set i w' ∧ wRank w'.pc + 1 + (if w'.pc = .dead then 2 else 0) ≤ wRank w.pc := by
  unfold workerStep at h
  step_cases
  all_goals (
    refine ⟨_, rfl, ?_⟩
    simp [wRank, *])

theorem workerStep_threads_len {s s' : State} {i : Nat} {w : Worker} {op : Op} {tmo : Bool}
    (h : workerStep s i w op tmo = some s') : s'.threads.length ≤ s.threads.length := by
  unfold workerStep at h
  step_cases
  all_goals (
    simp only [setWorker, tdone, acq, rel, updTask]
    first
    | exact Nat.le_refl _
    | exact List.length_erase_le)

theorem aliveIn_set {ws : List Worker} {i : Nat} {w w' : Worker} (hw : ws[i]? = some w) (x : Nat) :
    aliveIn (ws.set i w') x = if x = i then (w'.pc != .dead) else aliveIn ws x := by
  have hlt : i < ws.length := (List.getElem?_eq_some_iff.mp hw).1
  unfold aliveIn
  by_cases hx : x = i
  · subst hx; simp [hlt]
  · simp [hx, List.getElem?_set_ne (Ne.symm hx)]

theorem kRank_set {ws : List Worker} {i : Nat} {w w' : Worker} (hw : ws[i]? = some w) (hnd : w.pc ≠ .dead)
    {T T' : Nat} (hT : T' ≤ T) (pc : CPc) :
    kRank (ws.set i w') T' pc ≤ kRank ws T pc + (if w'.pc = .dead then 2 else 0) := by
  have hal : aliveIn ws i = true := by simp [aliveIn, hw, hnd]
  cases pc
  case stopJoin cp =>
    cases cp with
    | nil => simp [kRank]
    | cons x rest =>
      simp only [kRank, aliveIn_set hw]
      by_cases hx : x = i
      · subst hx
        by_cases hd : w'.pc = .dead <;> simp [hd, hal]
      · simp [hx]
  case stopAlive2 cp =>
    cases cp with
    | nil => simp [kRank]
    | cons x rest =>
      simp only [kRank, aliveIn_set hw]
      by_cases hx : x = i
      · subst hx
        by_cases hd : w'.pc = .dead <;> simp [hd, hal]
      · simp [hx]
  all_goals (simp only [kRank]; omega)

/-- **Every worker step under the set flag lowers the measure** (task bodies ending included). -/
theorem measure_worker {s s' : State} {i : Nat} {w : Worker} {op : Op} {tmo : Bool}
    (hflag : s.stop = true) (hw : s.workers[i]? = some w) (h : workerStep s i w op tmo = some s') :
    stopMeasure s' < stopMeasure s := by
  obtain ⟨w', hws, hrk⟩ := workerStep_rank hflag h
  obtain ⟨b, hcl⟩ := workerStep_clients h
  have hth := workerStep_threads_len h
  have hq := workerStep_queue h
  have hnd := workerStep_not_dead h
  have h1 : wSum s' + wRank w.pc = wSum s + wRank w'.pc := by
    unfold wSum; rw [hws]
    exact sum_map_set (fun w => wRank w.pc) s.workers i w' w hw
  have h2 : eSum s' = eSum s := by
    unfold eSum; rw [hcl]; exact eSum_map_notify b _
  have h3 : ctlRank s' ≤ ctlRank s + (if w'.pc = .dead then 2 else 0) := by
    unfold ctlRank
    rw [hcl, hws]
    cases hc0 : s.clients[0]? with
    | none => simp [hc0]
    | some c =>
      simp only [List.getElem?_map, hc0, Option.map_some, kRank_notifyIf]
      exact kRank_set hw hnd hth c.pc
  have h4 : s'.queue.length ≤ s.queue.length := by
    rcases hq with hq | ⟨x, hq⟩
    · rw [hq]; exact Nat.le_refl _
    · rw [hq]; simp
  unfold stopMeasure
  omega

/-! ### steps of the other clients -/

/-- A step of a client other than the controller, under the set flag: no worker is spawned, `_threads` is unchanged,
    and the client's `enqueue` rank plus the queue weight goes down when it is inside `enqueue`, stays when it is not,
    and goes up by 8 when it calls `enqueue`. -/
theorem clientStep_nonctl_rank {s s' : State} {i : Nat} {c : Client} {op : Op} {tmo : Bool}
    (hflag : s.stop = true) (hn : ctlPc c.pc = false) (hic : isCtl s i = false)
    (h : clientStep s i c op tmo = some s') :
    s'.workers = s.workers ∧ s'.threads = s.threads ∧ ∃ c', s'.clients = s.clients.set i c' ∧
      eRank c'.pc + 2 * s'.queue.length + (if eRank c.pc = 0 then 0 else 1)
        ≤ eRank c.pc + 2 * s.queue.length + (if op = .callEnqueue then 8 else 0) := by
  unfold clientStep at h
  step_cases
  all_goals (first | (simp [ctlPc, *] at hn; done) | (simp [*] at hic; done) | skip)
  all_goals (first | (simp [hflag] at *; done) | skip)
  all_goals (
    refine ⟨rfl, rfl, _, rfl, ?_⟩
    have hpc := ‹c.pc = _›
    simp only [hpc, setClient, tdone, acq, rel, updTask, put, spawnWorker, List.length_append, List.length_cons,
      List.length_nil]
    simp [eRank]
    try split
    all_goals (try simp [eRank])
    all_goals (try omega))

/-- **Steps of the other clients**: inside `enqueue` they lower the measure; a call of `enqueue` raises it by 8 (the
    steps of that call, its queue item included); everything else (`join`, `join(t)`, `result`) leaves it unchanged. -/
theorem measure_other {s s' : State} {i : Nat} {c : Client} {op : Op} {tmo : Bool}
    (hflag : s.stop = true) (hC : CtlInv s) (hc : s.clients[i]? = some c) (hi : i ≠ 0)
    (h : clientStep s i c op tmo = some s') :
    stopMeasure s' + (if eRank c.pc = 0 then 0 else 1) ≤ stopMeasure s + (if op = .callEnqueue then 8 else 0) := by
  have hn : ctlPc c.pc = false := by
    cases hp : ctlPc c.pc
    · rfl
    · exact absurd (hC.only i c hc hp) hi
  have hic : isCtl s i = false := by simp [isCtl, hC.single, hi]
  obtain ⟨hws, hth, c', hcl, hrk⟩ := clientStep_nonctl_rank hflag hn hic h
  have h1 : wSum s' = wSum s := by unfold wSum; rw [hws]
  have h2 : eSum s' + eRank c.pc = eSum s + eRank c'.pc := by
    unfold eSum; rw [hcl]
    exact sum_map_set (fun c => eRank c.pc) s.clients i c' c hc
  have h3 : ctlRank s' = ctlRank s := by
    unfold ctlRank
    rw [hcl, hws, hth, List.getElem?_set_ne hi]
  unfold stopMeasure
  omega

/-! ### steps of the controller inside `stop()` -/

/-- The controller is inside `stop()` after `event.set` (or inside `clear()`). -/
def afterSet : CPc → Bool
  | .stopAcq | .stopPut _ | .stopRel _ | .stopAlive _ | .stopJoin _ | .stopAlive2 _
  | .clrAcq | .clrGet | .clrDone _ | .clrJoin | .clrRel => true
  | _ => false

theorem ctlStep_rank {s s' : State} {c : Client} {op : Op} {tmo : Bool}
    (hin : afterSet c.pc = true) (hne : copyOk c.pc = true) (h : clientStep s 0 c op tmo = some s') :
    s'.workers = s.workers ∧ ∃ b c', s'.clients = (s.clients.map (notifyIf b)).set 0 c' ∧ eRank c'.pc = 0 ∧
      kRank s.workers s'.threads.length c'.pc + 2 * s'.queue.length + (if ctlSpin s c.pc then 0 else 1)
        ≤ kRank s.workers s.threads.length c.pc + 2 * s.queue.length := by
  unfold clientStep at h
  step_cases
  all_goals (first | (simp [afterSet, *] at hin; done) | skip)
  all_goals (
    have hpc := ‹c.pc = _›
    refine ⟨rfl, ?_⟩
    first
    | refine ⟨_, _, rfl, ?_, ?_⟩
    | (refine ⟨false, ?_, ?_, ?_, ?_⟩
       rotate_left
       · rw [map_notifyIf_false]; rfl))
  all_goals (
    have hpc := ‹c.pc = _›
    simp only [hpc, copyOk] at hne
    try (simp only [workerAlive_eq] at *)
    try (simp only [hpc, setClient, tdone, acq, rel, updTask, put, List.length_append, List.length_cons, List.length_nil])
    try (rw [‹s.queue = _›])
    simp [eRank, kRank, ctlSpin, workerAlive_eq, *]
    try split
    all_goals (try simp [eRank, kRank, ctlSpin, workerAlive_eq, *])
    all_goals (try omega))
  -- `stopAlive2 copy`: the copy is not empty
  rename_i _ cp _ _
  cases cp with
  | nil => simp at hne
  | cons w rest =>
    simp only [List.length_cons]
    by_cases ha : aliveIn s.workers w = true <;> simp [ha] <;> omega

theorem eRank_of_afterSet {pc : CPc} (h : afterSet pc = true) : eRank pc = 0 := by
  cases pc <;> simp [afterSet] at h <;> simp [eRank]

/-- **Steps of the controller inside `stop()`** (from its `lock.acquire` on): each lowers the measure, except going
    round the join loop on a live thread, which leaves it unchanged. -/
theorem measure_ctl {s s' : State} {c : Client} {op : Op} {tmo : Bool}
    (hc : s.clients[0]? = some c) (hin : afterSet c.pc = true) (hne : copyOk c.pc = true)
    (h : clientStep s 0 c op tmo = some s') :
    stopMeasure s' + (if ctlSpin s c.pc then 0 else 1) ≤ stopMeasure s := by
  obtain ⟨hws, b, c', hcl, he0, hk⟩ := ctlStep_rank hin hne h
  have hlt : 0 < s.clients.length := (List.getElem?_eq_some_iff.mp hc).1
  have h1 : wSum s' = wSum s := by unfold wSum; rw [hws]
  have h2 : eSum s' = eSum s := by
    have hc' : (s.clients.map (notifyIf b))[0]? = some (notifyIf b c) := by simp [hc]
    have := sum_map_set (fun c => eRank c.pc) (s.clients.map (notifyIf b)) 0 c' (notifyIf b c) hc'
    simp only [eRank_notifyIf, eRank_of_afterSet hin, he0, eSum_map_notify] at this
    unfold eSum; rw [hcl]; omega
  have h3 : ctlRank s' = kRank s.workers s'.threads.length c'.pc := by
    unfold ctlRank
    rw [hcl, hws, getElem?_set_self' (by simpa using hlt)]
  have h4 : ctlRank s = kRank s.workers s.threads.length c.pc := by
    unfold ctlRank; rw [hc]
  unfold stopMeasure
  omega

theorem eRank_pos_of_cDepth {pc : CPc} (hd : cDepth pc ≠ 0) (hn : ctlPc pc = false) : eRank pc ≠ 0 := by
  cases pc <;> simp [cDepth] at hd <;> simp [ctlPc] at hn <;> simp [eRank]

/-- The measure theorem: see `JRV.Props.C11_stop_measure`. -/
theorem stop_measure {s s' : State} {a : Action} (hC : CtlInv s) (hflag : s.stop = true)
    {c : Client} (hc : s.clients[0]? = some c) (hin : afterSet c.pc = true) (hst : step? s a = some s') :
    (progressing s a = true → stopMeasure s' < stopMeasure s) ∧
    ((∃ i, a.who = .worker i) → stopMeasure s' < stopMeasure s) ∧
    stopMeasure s' ≤ stopMeasure s + (if a.op = .callEnqueue then 8 else 0) := by
  have hne := hC.stop.nonempty c hc
  unfold step? at hst
  cases hwho : a.who with
  | worker i =>
    rw [hwho] at hst
    cases hw : s.workers[i]? with
    | none => simp [hw] at hst
    | some w =>
      simp only [hw] at hst
      have := measure_worker hflag hw hst
      exact ⟨fun _ => this, fun _ => this, by omega⟩
  | client j =>
    rw [hwho] at hst
    cases hcj : s.clients[j]? with
    | none => simp [hcj] at hst
    | some cj =>
      simp only [hcj] at hst
      by_cases hj : j = 0
      · subst hj
        rw [hc] at hcj; cases hcj
        have hm := measure_ctl hc hin hne hst
        refine ⟨?_, ?_, by omega⟩
        · intro hp
          simp [progressing, hwho, hc] at hp
          simp [hp.2] at hm
          omega
        · intro ⟨i, hi⟩; cases hi
      · have hm := measure_other hflag hC hcj hj hst
        refine ⟨?_, ?_, by omega⟩
        · intro hp
          simp [progressing, hwho, hj] at hp
          obtain ⟨he, ho⟩ := hp
          obtain ⟨c', hc', hd⟩ := hC.lock.co j ho
          have hcc : cj = c' := by rw [hcj] at hc'; exact Option.some.inj hc'
          subst hcc
          have hn : ctlPc cj.pc = false := by
            cases hpp : ctlPc cj.pc
            · rfl
            · exact absurd (hC.only j cj hcj hpp) hj
          have hpos := eRank_pos_of_cDepth hd hn
          have hop : a.op ≠ .callEnqueue := by intro h; rw [h] at he; simp [envOp] at he
          simp [hpos, hop] at hm
          omega
        · intro ⟨i, hi⟩; cases hi

end JRV.Pool.C11L
