/-
  Where sentinels can be, and when the queue is empty (single controlling thread), see `JRV.Lemmas.PoolC11`.
-/
import JRV.Lemmas.PoolC11Stop

set_option linter.unusedSimpArgs false
set_option linter.unusedVariables false

namespace JRV.Pool.C11L

/-- Controller program counters at which the queue may contain a sentinel: from the `put` loop of `stop()` to the end
    of the drain loop of `clear()`. -/
def sentPhase : CPc → Bool
  | .stopPut _ | .stopRel _ | .stopAlive _ | .stopJoin _ | .stopAlive2 _ | .clrAcq | .clrGet | .clrDone _ => true
  | _ => false

/-- After the drain loop of `clear()`, before the lock is released. -/
def drained : CPc → Bool
  | .clrJoin | .clrRel => true
  | _ => false

@[simp] theorem sentPhase_notifyIf (b : Bool) (c : Client) : sentPhase (notifyIf b c).pc = sentPhase c.pc := by
  cases c with | mk pc ret => cases pc <;> cases b <;> simp [notifyIf, notifyClient, sentPhase]

@[simp] theorem drained_notifyIf (b : Bool) (c : Client) : drained (notifyIf b c).pc = drained c.pc := by
  cases c with | mk pc ret => cases pc <;> cases b <;> simp [notifyIf, notifyClient, drained]

structure QueueInv (s : State) : Prop where
  sent : Item.sentinel ∈ s.queue → ∃ c, s.clients[0]? = some c ∧ sentPhase c.pc = true
  empty : ∀ c, s.clients[0]? = some c → drained c.pc = true → s.queue = []

theorem QueueInv_init (cfg : Config) (n : Nat) : QueueInv (init cfg n) := by
  refine ⟨?_, ?_⟩ <;> simp [init]

theorem workerStep_queue {s s' : State} {i : Nat} {w : Worker} {op : Op} {tmo : Bool}
    (h : workerStep s i w op tmo = some s') : s'.queue = s.queue ∨ ∃ x, s.queue = x :: s'.queue := by
  unfold workerStep at h
  step_cases
  all_goals (
    first
    | exact Or.inl rfl
    | exact Or.inr ⟨_, ‹s.queue = _›⟩)

theorem QueueInv_worker {s s' : State} {i : Nat} {w : Worker} {op : Op} {tmo : Bool}
    (hI : QueueInv s) (h : workerStep s i w op tmo = some s') : QueueInv s' := by
  obtain ⟨b, hcl⟩ := workerStep_clients h
  have hq := workerStep_queue h
  refine ⟨?_, ?_⟩
  · intro hm
    have hm0 : Item.sentinel ∈ s.queue := by
      rcases hq with hq | ⟨x, hq⟩
      · rw [← hq]; exact hm
      · rw [hq]; exact List.mem_cons_of_mem _ hm
    obtain ⟨c, h0, hp⟩ := hI.sent hm0
    exact ⟨notifyIf b c, by rw [hcl]; simp [h0], by simpa using hp⟩
  · intro c hc hd
    rw [hcl] at hc
    obtain ⟨c0, h0, rfl⟩ := getElem?_map_notify hc
    have he := hI.empty c0 h0 (by simpa using hd)
    rcases hq with hq | ⟨x, hq⟩
    · rw [hq]; exact he
    · rw [he] at hq; cases hq

theorem QueueInv_client_sent {s s' : State} {i : Nat} {c : Client} {op : Op} {tmo : Bool}
    (hO : OnlyCtl s) (hc : s.clients[i]? = some c) (hI : QueueInv s) (h : clientStep s i c op tmo = some s') :
    Item.sentinel ∈ s'.queue → ∃ c', s'.clients[0]? = some c' ∧ sentPhase c'.pc = true := by
  have hi0 : ctlPc c.pc = true → i = 0 := hO i c hc
  have hlt : i < s.clients.length := (List.getElem?_eq_some_iff.mp hc).1
  unfold clientStep at h
  step_cases
  all_goals (
    intro hm
    have hpc := ‹c.pc = _›
    simp only [setClient, tdone, acq, rel, updTask, put, spawnWorker, apply_ite State.clients, apply_ite State.queue,
      ite_self] at hm ⊢
    first
    | (-- the queue does not gain a sentinel
       have hm0 : Item.sentinel ∈ s.queue := by
         first
         | exact hm
         | (simp at hm; exact hm)
         | (rw [‹s.queue = _›]; exact List.mem_cons_of_mem _ hm)
       obtain ⟨c0, h0, hp0⟩ := hI.sent hm0
       by_cases hi : i = 0
       · subst hi
         rw [hc] at h0; cases h0
         refine ⟨_, getElem?_set_self' (by simpa using hlt), ?_⟩
         rw [hpc] at hp0
         simp [sentPhase] at hp0 ⊢
         try (split <;> simp [sentPhase])
         done
       · first
         | exact ⟨c0, getElem?_set_ne' (Ne.symm hi) h0, hp0⟩
         | (refine ⟨notifyIf (s.unfinished == 1) c0, getElem?_set_ne' (Ne.symm hi) ?_, by simpa using hp0⟩
            simp [h0]))
    | (-- `stop()` puts a sentinel
       have hi : i = 0 := hi0 (by rw [hpc]; rfl)
       subst hi
       refine ⟨_, getElem?_set_self' (by simpa using hlt), ?_⟩
       simp [sentPhase]
       try (split <;> simp [sentPhase])
       done)
    | (rw [‹s.queue = []›] at hm; simp at hm; done))

theorem cDepth_of_drained {pc : CPc} (h : drained pc = true) : cDepth pc ≠ 0 := by
  cases pc <;> simp [drained] at h <;> simp [cDepth]

theorem QueueInv_client_empty {s s' : State} {i : Nat} {c : Client} {op : Op} {tmo : Bool}
    (hL : LockInv s) (hc : s.clients[i]? = some c) (hI : QueueInv s) (h : clientStep s i c op tmo = some s') :
    ∀ c', s'.clients[0]? = some c' → drained c'.pc = true → s'.queue = [] := by
  have hcl := hL.cl i c hc
  have hlt : i < s.clients.length := (List.getElem?_eq_some_iff.mp hc).1
  unfold clientStep at h
  step_cases
  all_goals (
    intro c' hc' hd
    have hpc := ‹c.pc = _›
    rw [hpc] at hcl
    simp only [setClient, tdone, acq, rel, updTask, put, spawnWorker, apply_ite State.clients, apply_ite State.queue,
      ite_self, List.getElem?_set] at hc' ⊢
    split at hc'
    · -- the stepping client is the controller
      have hi : i = 0 := by assumption
      subst hi
      simp [hlt] at hc'; subst hc'
      have hold := hI.empty c hc
      rw [hpc] at hold
      first
      | (simp [drained] at hd; done)
      | (split at hd <;> simp [drained] at hd <;> done)
      | exact hold rfl
      | assumption
    · -- another client steps while the controller is past the drain: it cannot hold the lock
      have hold : ∃ c0, s.clients[0]? = some c0 ∧ drained c0.pc = true := by
        first
        | exact ⟨c', hc', hd⟩
        | (obtain ⟨c0, hj0, rfl⟩ := getElem?_map_notify hc'
           exact ⟨c0, hj0, by simpa using hd⟩)
      obtain ⟨c0, h0, hd0⟩ := hold
      first
      | exact hI.empty c0 h0 hd0
      | (have h1 := (hL.cl 0 c0 h0 (cDepth_of_drained hd0)).1
         have h2 := (hcl Nat.one_ne_zero).1
         rw [h1] at h2; cases h2; contradiction))

theorem QueueInv_step {s s' : State} {a : Action} (hC : CtlInv s) (hI : QueueInv s) (h : step? s a = some s') :
    QueueInv s' := by
  unfold step? at h
  split at h
  · split at h
    · exact QueueInv_worker hI h
    · simp at h
  · split at h
    · rename_i i c hc
      exact ⟨QueueInv_client_sent hC.only hc hI h, QueueInv_client_empty hC.lock hc hI h⟩
    · simp at h

theorem QueueInv_reach {cfg : Config} {n : Nat} {s : State} (hs : cfg.singleCtl = true) (hr : Reach (init cfg n) s) :
    QueueInv s := by
  refine (Reach.induct (P := fun s => CtlInv s ∧ QueueInv s)
    ⟨⟨hs, OnlyCtl_init cfg n, LockInv_init cfg n, StopInv_init cfg n⟩, QueueInv_init cfg n⟩ ?_ s hr).2
  intro s a s' _ hI h
  exact ⟨CtlInv_step hI.1 h, QueueInv_step hI.1 hI.2 h⟩

end JRV.Pool.C11L
