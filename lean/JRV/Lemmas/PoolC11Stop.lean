/-
  The life-cycle invariant of `stop()` (single controlling thread = client 0), see `JRV.Lemmas.PoolC11`.
-/
import JRV.Lemmas.PoolC11Lock

set_option linter.unusedSimpArgs false
set_option linter.unusedVariables false

namespace JRV.Pool.C11L

/-- The controller is inside `stop()` between `event.set` and the end of the join loop. -/
def joinPhase : CPc → Bool
  | .stopAcq | .stopPut _ | .stopRel _ | .stopAlive _ | .stopJoin _ | .stopAlive2 _ => true
  | _ => false

/-- The copy of `_threads` that `stop()` iterates over (what is left of it). -/
def copyOf : CPc → Option (List Nat)
  | .stopRel c | .stopAlive c | .stopJoin c | .stopAlive2 c => some c
  | _ => none

/-- Inside the join loop the remaining copy is not empty. -/
def copyOk : CPc → Bool
  | .stopAlive [] | .stopJoin [] | .stopAlive2 [] => false
  | _ => true

@[simp] theorem joinPhase_notifyIf (b : Bool) (c : Client) : joinPhase (notifyIf b c).pc = joinPhase c.pc := by
  cases c with | mk pc ret => cases pc <;> cases b <;> simp [notifyIf, notifyClient, joinPhase]

@[simp] theorem copyOf_notifyIf (b : Bool) (c : Client) : copyOf (notifyIf b c).pc = copyOf c.pc := by
  cases c with | mk pc ret => cases pc <;> cases b <;> simp [notifyIf, notifyClient, copyOf]

@[simp] theorem copyOk_notifyIf (b : Bool) (c : Client) : copyOk (notifyIf b c).pc = copyOk c.pc := by
  cases c with | mk pc ret => cases pc <;> cases b <;> simp [notifyIf, notifyClient, copyOk]

structure StopInv (s : State) : Prop where
  /-- a started worker that has not yet executed `_threads.remove(self)` is listed -/
  listed : ∀ (j : Nat) (w : Worker), s.workers[j]? = some w → w.pc ≠ .exitRel → w.pc ≠ .dead → j ∈ s.threads
  /-- the flag stays set while `stop()` places the sentinels and joins -/
  flag : ∀ c, s.clients[0]? = some c → joinPhase c.pc = true → s.stop = true
  /-- the copied list contains every worker that is not yet terminated -/
  copy : ∀ c cp, s.clients[0]? = some c → copyOf c.pc = some cp →
          ∀ (j : Nat) (w : Worker), s.workers[j]? = some w → w.pc ≠ .dead → j ∈ cp
  nonempty : ∀ c, s.clients[0]? = some c → copyOk c.pc = true
  /-- flag set and the controller not in the join phase: every worker ever started is terminated -/
  quiet : s.stop = true → (∀ c, s.clients[0]? = some c → joinPhase c.pc = false) →
          (∀ (j : Nat) (w : Worker), s.workers[j]? = some w → w.pc = .dead) ∧ s.threads = []

theorem StopInv_init (cfg : Config) (n : Nat) : StopInv (init cfg n) := by
  refine ⟨?_, ?_, ?_, ?_, ?_⟩ <;> simp [init]
  intro c hc
  have := List.mem_of_getElem? hc
  simp at this; obtain ⟨_, rfl⟩ := this; simp [copyOk]

/-- A terminated worker has no step. -/
theorem workerStep_not_dead {s s' : State} {i : Nat} {w : Worker} {op : Op} {tmo : Bool}
    (h : workerStep s i w op tmo = some s') : w.pc ≠ .dead := by
  intro hd
  unfold workerStep at h
  rw [hd] at h
  simp at h

theorem StopInv_worker_listed {s s' : State} {i : Nat} {w : Worker} {op : Op} {tmo : Bool}
    (hw : s.workers[i]? = some w) (hI : StopInv s) (h : workerStep s i w op tmo = some s') :
    ∀ (j : Nat) (wj : Worker), s'.workers[j]? = some wj → wj.pc ≠ .exitRel → wj.pc ≠ .dead → j ∈ s'.threads := by
  have hme := hI.listed i w hw
  have hlt : i < s.workers.length := (List.getElem?_eq_some_iff.mp hw).1
  unfold workerStep at h
  step_cases
  all_goals (
    intro j wj hj h1 h2
    simp only [setWorker, tdone, acq, rel, updTask, List.getElem?_set] at hj ⊢
    split at hj <;> (first
      | (have hij : i = j := by assumption
         subst hij
         simp [hlt] at hj; subst hj
         simp_all
         done)
      | (have hold := hI.listed j wj hj h1 h2
         first
         | exact hold
         | exact (List.mem_erase_of_ne (by omega)).mpr hold)))

theorem map_notifyIf_false (l : List Client) : l.map (notifyIf false) = l := by
  have : notifyIf false = id := by funext c; simp [notifyIf]
  rw [this]; simp

/-- A worker step leaves the clients unchanged, up to the notification of `join(t)` waiters. -/
theorem workerStep_clients {s s' : State} {i : Nat} {w : Worker} {op : Op} {tmo : Bool}
    (h : workerStep s i w op tmo = some s') : ∃ b, s'.clients = s.clients.map (notifyIf b) := by
  unfold workerStep at h
  step_cases
  all_goals (
    simp only [setWorker, tdone, acq, rel, updTask]
    first
    | exact ⟨false, (map_notifyIf_false _).symm⟩
    | exact ⟨_, rfl⟩)

theorem workerStep_stop {s s' : State} {i : Nat} {w : Worker} {op : Op} {tmo : Bool}
    (h : workerStep s i w op tmo = some s') : s'.stop = s.stop := by
  unfold workerStep at h
  step_cases
  all_goals (simp only [setWorker, tdone, acq, rel, updTask])

/-- A worker step changes only the stepping worker's record; the others keep theirs. -/
theorem workerStep_workers {s s' : State} {i : Nat} {w : Worker} {op : Op} {tmo : Bool}
    (h : workerStep s i w op tmo = some s') : ∃ w', s'.workers = s.workers.set i w' := by
  unfold workerStep at h
  step_cases
  all_goals (simp only [setWorker, tdone, acq, rel, updTask]; exact ⟨_, rfl⟩)

theorem StopInv_worker {s s' : State} {i : Nat} {w : Worker} {op : Op} {tmo : Bool}
    (hw : s.workers[i]? = some w) (hI : StopInv s) (h : workerStep s i w op tmo = some s') : StopInv s' := by
  obtain ⟨b, hcl⟩ := workerStep_clients h
  obtain ⟨w', hws⟩ := workerStep_workers h
  have hst := workerStep_stop h
  have hnd := workerStep_not_dead h
  have hlt : i < s.workers.length := (List.getElem?_eq_some_iff.mp hw).1
  have back : ∀ c, s'.clients[0]? = some c → ∃ c0, s.clients[0]? = some c0 ∧ c = notifyIf b c0 := by
    intro c hc; rw [hcl] at hc; exact getElem?_map_notify hc
  refine ⟨StopInv_worker_listed hw hI h, ?_, ?_, ?_, ?_⟩
  · intro c hc hp
    obtain ⟨c0, h0, rfl⟩ := back c hc
    rw [hst]; exact hI.flag c0 h0 (by simpa using hp)
  · intro c cp hc hcp j wj hj hd
    obtain ⟨c0, h0, rfl⟩ := back c hc
    have hcp0 : copyOf c0.pc = some cp := by simpa using hcp
    rw [hws] at hj
    by_cases hji : j = i
    · subst hji
      exact hI.copy c0 cp h0 hcp0 j w hw hnd
    · rw [List.getElem?_set_ne (Ne.symm hji)] at hj
      exact hI.copy c0 cp h0 hcp0 j wj hj hd
  · intro c hc
    obtain ⟨c0, h0, rfl⟩ := back c hc
    simpa using hI.nonempty c0 h0
  · intro hs hq
    rw [hst] at hs
    have hq0 : ∀ c, s.clients[0]? = some c → joinPhase c.pc = false := by
      intro c0 h0
      have := hq (notifyIf b c0) (by rw [hcl]; simp [h0])
      simpa using this
    exact absurd ((hI.quiet hs hq0).1 i w hw) hnd

theorem workerAlive_of {s : State} {j : Nat} {w : Worker} (hj : s.workers[j]? = some w) (hd : w.pc ≠ .dead) :
    workerAlive s j = true := by
  simp [workerAlive, hj, hd]

/-- Every worker is in the copy unless terminated, and every worker of the copy is terminated: all are. -/
theorem all_dead_of_copy {s : State} {cp : List Nat}
    (hcp : ∀ (j : Nat) (w : Worker), s.workers[j]? = some w → w.pc ≠ .dead → j ∈ cp)
    (hd : ∀ x ∈ cp, workerAlive s x = false) :
    ∀ (j : Nat) (w : Worker), s.workers[j]? = some w → w.pc = .dead := by
  intro j w hj
  by_cases hdead : w.pc = .dead
  · exact hdead
  · have := hd j (hcp j w hj hdead)
    rw [workerAlive_of hj hdead] at this
    cases this

theorem StopInv_client_listed {s s' : State} {i : Nat} {c : Client} {op : Op} {tmo : Bool}
    (hO : OnlyCtl s) (hc : s.clients[i]? = some c) (hI : StopInv s) (h : clientStep s i c op tmo = some s') :
    ∀ (j : Nat) (wj : Worker), s'.workers[j]? = some wj → wj.pc ≠ .exitRel → wj.pc ≠ .dead → j ∈ s'.threads := by
  have hi0 : ctlPc c.pc = true → i = 0 := hO i c hc
  unfold clientStep at h
  step_cases
  all_goals (
    intro j wj hj h1 h2
    simp only [setClient, tdone, acq, rel, updTask, put, spawnWorker, apply_ite State.workers, apply_ite State.threads,
      ite_self] at hj ⊢
    first
    | exact hI.listed j wj hj h1 h2
    | (rcases getElem?_append_new hj with hj | ⟨rfl, rfl⟩
       · exact List.mem_append_left _ (hI.listed j wj hj h1 h2)
       · simp)
    | skip)
  · rename_i hpc
    have h0 : i = 0 := hi0 (by simp [hpc, ctlPc])
    subst h0
    exact absurd (hI.copy c [] hc (by simp [hpc, copyOf]) j wj hj h2) (by simp)
  · rename_i w0 hpc hna
    have h0 : i = 0 := hi0 (by simp [hpc, ctlPc])
    subst h0
    have := all_dead_of_copy (hI.copy c [w0] hc (by simp [hpc, copyOf])) (by simpa using hna) j wj hj
    exact absurd this h2

/-- Frame of a step of a client that is not the controller (it is in none of start/stop/clear and may not call them):
    the flag is untouched, only its own record changes, and the workers / `_threads` change only by a spawn, which
    requires the flag to be clear. -/
theorem clientStep_nonctl {s s' : State} {i : Nat} {c : Client} {op : Op} {tmo : Bool}
    (hn : ctlPc c.pc = false) (hic : isCtl s i = false) (h : clientStep s i c op tmo = some s') :
    s'.stop = s.stop ∧ (∃ c', s'.clients = s.clients.set i c' ∧ ctlPc c'.pc = false) ∧
    ((s'.workers = s.workers ∧ s'.threads = s.threads) ∨
     (s.stop = false ∧ s'.workers = s.workers ++ [({} : Worker)] ∧ s'.threads = s.threads ++ [s.workers.length])) := by
  unfold clientStep at h
  step_cases
  all_goals (first | (simp [ctlPc, *] at hn; done) | (simp [*] at hic; done) | skip)
  all_goals (
    refine ⟨rfl, ⟨_, rfl, ?_⟩, ?_⟩
    · simp [ctlPc]
      try (split <;> simp [ctlPc])
    · first
      | exact Or.inl ⟨rfl, rfl⟩
      | exact Or.inr ⟨by assumption, rfl, rfl⟩
      | (simp only [Bool.not_eq_true] at *; exact Or.inr ⟨by assumption, rfl, rfl⟩))

theorem joinPhase_of_copyOf {pc : CPc} {cp : List Nat} (h : copyOf pc = some cp) : joinPhase pc = true := by
  cases pc <;> simp [copyOf] at h <;> simp [joinPhase]

theorem StopInv_client_other {s s' : State} {i : Nat} {c : Client} {op : Op} {tmo : Bool}
    (hs : s.cfg.singleCtl = true) (hO : OnlyCtl s) (hc : s.clients[i]? = some c) (hi : i ≠ 0) (hI : StopInv s)
    (h : clientStep s i c op tmo = some s') : StopInv s' := by
  have hn : ctlPc c.pc = false := by
    cases hp : ctlPc c.pc
    · rfl
    · exact absurd (hO i c hc hp) hi
  have hic : isCtl s i = false := by simp [isCtl, hs, hi]
  obtain ⟨hst, ⟨c', hcl, _⟩, hwk⟩ := clientStep_nonctl hn hic h
  have h0 : s'.clients[0]? = s.clients[0]? := by rw [hcl, List.getElem?_set_ne hi]
  refine ⟨StopInv_client_listed hO hc hI h, ?_, ?_, ?_, ?_⟩
  · intro c0 hc0 hp
    rw [h0] at hc0; rw [hst]; exact hI.flag c0 hc0 hp
  · intro c0 cp hc0 hcp j wj hj hd
    rw [h0] at hc0
    rcases hwk with ⟨hw, _⟩ | ⟨hsf, hw, _⟩
    · rw [hw] at hj; exact hI.copy c0 cp hc0 hcp j wj hj hd
    · have := hI.flag c0 hc0 (joinPhase_of_copyOf hcp)
      rw [hsf] at this; cases this
  · intro c0 hc0
    rw [h0] at hc0; exact hI.nonempty c0 hc0
  · intro hs' hq
    rw [hst] at hs'
    have hq0 : ∀ c, s.clients[0]? = some c → joinPhase c.pc = false := by
      intro c0 hc0; exact hq c0 (by rw [h0]; exact hc0)
    rcases hwk with ⟨hw, ht⟩ | ⟨hsf, _, _⟩
    · rw [hw, ht]; exact hI.quiet hs' hq0
    · rw [hsf] at hs'; cases hs'

/-! the controller's own steps -/

theorem StopInv_ctl_flag {s s' : State} {c : Client} {op : Op} {tmo : Bool}
    (hc : s.clients[0]? = some c) (hI : StopInv s) (h : clientStep s 0 c op tmo = some s') :
    ∀ c', s'.clients[0]? = some c' → joinPhase c'.pc = true → s'.stop = true := by
  have hme := hI.flag c hc
  have hlt : 0 < s.clients.length := (List.getElem?_eq_some_iff.mp hc).1
  unfold clientStep at h
  step_cases
  all_goals (
    intro c' hc' hp
    simp only [setClient, tdone, acq, rel, updTask, put, spawnWorker, apply_ite State.clients, apply_ite State.stop,
      ite_self] at hc'
    simp [hlt] at hc'; subst hc'
    simp only [setClient, tdone, acq, rel, updTask, put, spawnWorker, apply_ite State.clients, apply_ite State.stop,
      ite_self]
    try (simp_all [joinPhase])
    try (split at hp <;> simp_all [joinPhase])
    done)

theorem StopInv_ctl_nonempty {s s' : State} {c : Client} {op : Op} {tmo : Bool}
    (hc : s.clients[0]? = some c) (hI : StopInv s) (h : clientStep s 0 c op tmo = some s') :
    ∀ c', s'.clients[0]? = some c' → copyOk c'.pc = true := by
  have hme := hI.nonempty c hc
  have hlt : 0 < s.clients.length := (List.getElem?_eq_some_iff.mp hc).1
  unfold clientStep at h
  step_cases
  all_goals (
    intro c' hc'
    simp only [setClient, tdone, acq, rel, updTask, put, spawnWorker, apply_ite State.clients, ite_self] at hc' ⊢
    simp [hlt] at hc'; subst hc'
    try (simp_all [copyOk])
    try (split <;> simp_all [copyOk])
    done)

/-- When the controller owns the pool lock, or could take it, no worker is between `_threads.remove(self)` and its
    `lock.release`: every worker that is not terminated is listed. -/
theorem listed_of_lock {s : State} (hL : LockInv s) (hI : StopInv s)
    (ho : s.lockOwner = none ∨ s.lockOwner = some (.client 0)) :
    ∀ (j : Nat) (wj : Worker), s.workers[j]? = some wj → wj.pc ≠ .dead → j ∈ s.threads := by
  intro j wj hj hd
  by_cases he : wj.pc = .exitRel
  · have := (hL.wl j wj hj (by simp [he, wHoldsLock])).1
    rcases ho with ho | ho <;> rw [ho] at this <;> cases this
  · exact hI.listed j wj hj he hd

theorem StopInv_ctl_copy {s s' : State} {c : Client} {op : Op} {tmo : Bool}
    (hL : LockInv s) (hc : s.clients[0]? = some c) (hI : StopInv s) (h : clientStep s 0 c op tmo = some s') :
    ∀ c' cp, s'.clients[0]? = some c' → copyOf c'.pc = some cp →
      ∀ (j : Nat) (wj : Worker), s'.workers[j]? = some wj → wj.pc ≠ .dead → j ∈ cp := by
  have hme := hI.copy c
  have hcl := hL.cl 0 c hc
  have hlt : 0 < s.clients.length := (List.getElem?_eq_some_iff.mp hc).1
  unfold clientStep at h
  step_cases
  all_goals (
    intro c' cp hc' hcp j wj hj hd
    simp only [setClient, tdone, acq, rel, updTask, put, spawnWorker, apply_ite State.clients, apply_ite State.workers,
      ite_self] at hc' hj
    simp [hlt] at hc'; subst hc'
    first
    | (simp [copyOf] at hcp; done)
    | (split at hcp <;> simp [copyOf] at hcp <;> done)
    | skip)
  all_goals (
    have hpc := ‹c.pc = _›
    simp only [copyOf, Option.some.injEq] at hcp; subst hcp
    rw [hpc] at hme hcl
    first
    | exact hme _ hc rfl j wj hj hd
    | exact listed_of_lock hL hI (Or.inr (hcl Nat.one_ne_zero).1) j wj hj hd
    | (have h1 := hme _ hc rfl j wj hj hd
       have h2 := workerAlive_of hj hd
       simp only [List.mem_cons] at h1 ⊢
       rcases h1 with rfl | h1
       · contradiction
       · exact h1)
    | (have h1 := listed_of_lock hL hI (by simpa [canAcquire] using hg) j wj hj hd
       have h2 : s.threads = [] := List.length_eq_zero_iff.mp (by assumption)
       rw [h2] at h1; exact h1))

theorem StopInv_ctl_quiet {s s' : State} {c : Client} {op : Op} {tmo : Bool}
    (hc : s.clients[0]? = some c) (hI : StopInv s) (h : clientStep s 0 c op tmo = some s') :
    s'.stop = true → (∀ c', s'.clients[0]? = some c' → joinPhase c'.pc = false) →
      (∀ (j : Nat) (w : Worker), s'.workers[j]? = some w → w.pc = .dead) ∧ s'.threads = [] := by
  have hq := hI.quiet
  have hcp := hI.copy c
  have hlt : 0 < s.clients.length := (List.getElem?_eq_some_iff.mp hc).1
  unfold clientStep at h
  step_cases
  all_goals (
    intro hs' hq'
    simp only [setClient, tdone, acq, rel, updTask, put, spawnWorker, apply_ite State.clients, apply_ite State.stop,
      apply_ite State.workers, apply_ite State.threads, ite_self] at hs' hq' ⊢
    have hq1 := hq' _ (getElem?_set_self' (by simpa using hlt))
    have hpc := ‹c.pc = _›
    rw [hpc] at hcp
    first
    | (simp [joinPhase] at hq1; done)
    | (simp at hs'; done)
    | contradiction
    | exact hq hs' (by intro c0 h0; rw [hc] at h0; cases h0; rw [hpc]; rfl)
    | skip)
  · exact ⟨all_dead_of_copy (hcp _ hc rfl) (by simp), trivial⟩
  · rename_i w0 hpc0 hna
    exact ⟨all_dead_of_copy (hcp _ hc rfl) (by simpa using hna), trivial⟩

/-- A client step leaves the workers' records unchanged, or starts one new worker. -/
theorem clientStep_workers {s s' : State} {i : Nat} {c : Client} {op : Op} {tmo : Bool}
    (h : clientStep s i c op tmo = some s') : s'.workers = s.workers ∨ s'.workers = s.workers ++ [({} : Worker)] := by
  unfold clientStep at h
  step_cases
  all_goals (first | exact Or.inl rfl | exact Or.inr rfl)

/-- **A terminated worker is inert**: it takes no step (`workerStep_not_dead`) and its record never changes. -/
theorem dead_step {s s' : State} {a : Action} (h : step? s a = some s') {j : Nat} {w : Worker}
    (hj : s.workers[j]? = some w) (hd : w.pc = .dead) : s'.workers[j]? = some w := by
  unfold step? at h
  split at h
  · split at h
    · rename_i i _ _ wi hw
      obtain ⟨w', hws⟩ := workerStep_workers h
      rw [hws]
      by_cases hji : j = i
      · subst hji
        rw [hw] at hj; cases hj
        exact absurd hd (workerStep_not_dead h)
      · exact getElem?_set_ne' hji hj
    · simp at h
  · split at h
    · rcases clientStep_workers h with hws | hws
      · rw [hws]; exact hj
      · rw [hws]; exact getElem?_append_some hj
    · simp at h

/-! ### assembly -/

theorem StopInv_client {s s' : State} {i : Nat} {c : Client} {op : Op} {tmo : Bool}
    (hs : s.cfg.singleCtl = true) (hO : OnlyCtl s) (hL : LockInv s) (hc : s.clients[i]? = some c) (hI : StopInv s)
    (h : clientStep s i c op tmo = some s') : StopInv s' := by
  by_cases hi : i = 0
  · subst hi
    exact ⟨StopInv_client_listed hO hc hI h, StopInv_ctl_flag hc hI h, StopInv_ctl_copy hL hc hI h,
      StopInv_ctl_nonempty hc hI h, StopInv_ctl_quiet hc hI h⟩
  · exact StopInv_client_other hs hO hc hi hI h

/-- All the invariants of the single-controller configuration. -/
structure CtlInv (s : State) : Prop where
  single : s.cfg.singleCtl = true
  only : OnlyCtl s
  lock : LockInv s
  stop : StopInv s

theorem CtlInv_step {s s' : State} {a : Action} (hI : CtlInv s) (h : step? s a = some s') : CtlInv s' := by
  have hcfg := cfg_step h
  have hlock := LockInv_step hI.lock h
  unfold step? at h
  split at h
  · split at h
    · rename_i i w hw
      exact ⟨by rw [hcfg]; exact hI.single, OnlyCtl_worker hI.only h, hlock,
        StopInv_worker hw hI.stop h⟩
    · simp at h
  · split at h
    · rename_i i c hc
      exact ⟨by rw [hcfg]; exact hI.single, OnlyCtl_client hI.single hc hI.only h,
        hlock, StopInv_client hI.single hI.only hI.lock hc hI.stop h⟩
    · simp at h

theorem CtlInv_reach {cfg : Config} {n : Nat} {s : State} (hs : cfg.singleCtl = true) (hr : Reach (init cfg n) s) :
    CtlInv s :=
  Reach.induct ⟨hs, OnlyCtl_init cfg n, LockInv_init cfg n, StopInv_init cfg n⟩ (fun _ _ _ _ hI h => CtlInv_step hI h) s hr

end JRV.Pool.C11L
