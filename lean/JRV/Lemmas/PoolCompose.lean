/-
  Lemmas used where another model is composed with the pool model (C04: notification pool, C12: request pool):
  task ids are stable (the task table only grows, entries are only modified in place).
-/
import JRV.Lemmas.PoolTask2
import JRV.Lemmas.PoolC09Base

set_option linter.unusedSimpArgs false
set_option linter.unusedVariables false

namespace JRV.Pool

/-- A step never shortens the task table. -/
theorem tasks_length_step {s s' : State} {a : Action} (h : step? s a = some s') : s.tasks.length ≤ s'.tasks.length := by
  unfold step? at h
  split at h
  · split at h
    · unfold workerStep at h; step_cases
      all_goals (simp [setWorker, tdone, acq, rel, updTask])
    · simp at h
  · split at h
    · unfold clientStep at h; step_cases
      all_goals (simp [setClient, tdone, acq, rel, updTask, put, spawnWorker, apply_ite State.tasks])
    · simp at h

theorem tasks_length_reach {s s' : State} (h : Reach s s') : s.tasks.length ≤ s'.tasks.length := by
  induction h with
  | refl => exact Nat.le_refl _
  | step a _ hs ih => exact Nat.le_trans ih (tasks_length_step hs)

/-- A task id, once allocated, denotes a task in every later state. -/
theorem task_persists {s s' : State} (h : Reach s s') {t : Nat} (ht : t < s.tasks.length) : ∃ tk, s'.tasks[t]? = some tk := by
  have := tasks_length_reach h
  exact ⟨s'.tasks[t]'(by omega), List.getElem?_eq_getElem (by omega)⟩

/-- `ThreadPool.enqueue` begins by allocating a fresh task (ghost id = current length of the task table), created and
    not executed, attributed to the calling client; older tasks are untouched. -/
theorem callEnqueue_allocates {s s' : State} {i : Nat} (h : step? s ⟨.client i, .callEnqueue, false⟩ = some s') :
    s'.tasks = s.tasks ++ [{ creator := i }] := by
  simp only [step?] at h
  cases hc : s.clients[i]? with
  | none => simp [hc] at h
  | some c =>
    simp only [hc] at h
    cases hpc : c.pc <;> simp [clientStep, hpc] at h
    subst h
    simp [setClient]

end JRV.Pool
