/-
  Controller discipline of the pool model (single controlling thread, `cfg.singleCtl = true`): only client 0 is ever
  inside `start`/`stop`/`clear`; `stop()` returns only when every worker that counted in `nb_threads` has executed its
  decrement; sentinels are in the queue only between `stop()`'s puts and the drain of its `clear()`; hence, while the
  stop flag is clear, every worker counted in `nb_threads` is serving the queue.  (Used by C10: no starvation, floor.)
-/
import JRV.Lemmas.PoolTask2
import JRV.Lemmas.PoolLock

set_option linter.unusedSimpArgs false
set_option linter.unusedVariables false

namespace JRV.Pool.C10L

/-! ### the configuration never changes -/

theorem step_cfg {s s' : State} {a : Action} (h : step? s a = some s') : s'.cfg = s.cfg := by
  unfold step? at h
  split at h
  · split at h
    · unfold workerStep at h; step_cases
      all_goals (simp only [setWorker, tdone, acq, rel, updTask])
    · simp at h
  · split at h
    · unfold clientStep at h; step_cases
      all_goals (simp only [setClient, tdone, acq, rel, updTask, put, spawnWorker, apply_ite State.cfg, ite_self])
    · simp at h

theorem reach_cfg {cfg : Config} {n : Nat} {s : State} (hr : Reach (init cfg n) s) : s.cfg = cfg :=
  Reach.induct (P := fun s => s.cfg = cfg) rfl (fun _ _ _ _ hI h => (step_cfg h).trans hI) s hr

/-! ### only the controlling thread is inside `start` / `stop` / `clear` -/

/-- Program counters inside `start()`, `stop()` or `clear()`. -/
def isCtlPc (pc : CPc) : Bool :=
  match pc with
  | .startIsSet | .startClear | .startQsize | .stAcq _ | .stIsSet _ | .stRel _
  | .stopIsSet | .stopSet | .stopAcq | .stopPut _ | .stopRel _ | .stopAlive _ | .stopJoin _ | .stopAlive2 _
  | .clrAcq | .clrGet | .clrDone _ | .clrJoin | .clrRel => true
  | _ => false

@[simp] theorem isCtlPc_notifyIf (b : Bool) (c : Client) : isCtlPc (notifyIf b c).pc = isCtlPc c.pc := by
  cases c with | mk pc ret => cases pc <;> cases b <;> simp [notifyIf, notifyClient, isCtlPc]

def CtlInv (s : State) : Prop :=
  ∀ (j : Nat) (c : Client), s.clients[j]? = some c → isCtlPc c.pc = true → j = 0

theorem CtlInv_init (cfg : Config) (n : Nat) : CtlInv (init cfg n) := by
  intro j c hj h
  have := List.mem_of_getElem? hj
  simp [init] at this; obtain ⟨_, rfl⟩ := this; simp [isCtlPc] at h

theorem CtlInv_worker {s s' : State} {i : Nat} {w : Worker} {op : Op} {tmo : Bool}
    (hI : CtlInv s) (h : workerStep s i w op tmo = some s') : CtlInv s' := by
  unfold workerStep at h
  step_cases
  all_goals (
    intro j c hj hd
    simp only [setWorker, tdone, acq, rel, updTask] at hj
    first
    | exact hI j c hj hd
    | (obtain ⟨c0, hj0, rfl⟩ := getElem?_map_notify hj
       exact hI j c0 hj0 (by simpa using hd)))

theorem CtlInv_client {s s' : State} {i : Nat} {c : Client} {op : Op} {tmo : Bool} (hs : s.cfg.singleCtl = true)
    (hc : s.clients[i]? = some c) (hI : CtlInv s) (h : clientStep s i c op tmo = some s') : CtlInv s' := by
  have hme := hI i c hc
  have hlt : i < s.clients.length := (List.getElem?_eq_some_iff.mp hc).1
  unfold clientStep at h
  step_cases
  all_goals (
    intro j cj hj hd
    simp only [setClient, tdone, acq, rel, updTask, put, spawnWorker, apply_ite State.clients, ite_self,
      List.getElem?_set] at hj
    split at hj <;> (first
      | (have hij : i = j := by assumption
         subst hij
         simp [hlt] at hj; subst hj
         simp_all [isCtlPc, isCtl])
      | exact hI j cj hj hd
      | (obtain ⟨c0, hj0, rfl⟩ := getElem?_map_notify hj
         exact hI j c0 hj0 (by simpa using hd))))

theorem CtlInv_step {s s' : State} {a : Action} (hs : s.cfg.singleCtl = true) (hI : CtlInv s)
    (h : step? s a = some s') : CtlInv s' := by
  unfold step? at h
  split at h
  · split at h
    · exact CtlInv_worker hI h
    · simp at h
  · split at h
    · rename_i i c hc
      exact CtlInv_client hs hc hI h
    · simp at h

theorem CtlInv_reach {cfg : Config} {n : Nat} {s : State} (hs : cfg.singleCtl = true) (hr : Reach (init cfg n) s) :
    CtlInv s := by
  refine Reach.induct (P := fun s => CtlInv s) (CtlInv_init cfg n) ?_ s hr
  intro s a s' hr' hI h
  exact CtlInv_step (by rw [reach_cfg hr']; exact hs) hI h

/-! ### what a worker step does to the worker table, the thread list, the flag and the clients -/

theorem workerStep_frame {s s' : State} {i : Nat} {w : Worker} {op : Op} {tmo : Bool}
    (h : workerStep s i w op tmo = some s') :
    ∃ w', s'.workers = s.workers.set i w' ∧ (counted w' = true → counted w = true) ∧
      (s'.threads = s.threads ∨ (s'.threads = s.threads.erase i ∧ counted w' = false)) ∧
      s'.stop = s.stop ∧ (s'.clients = s.clients ∨ ∃ b, s'.clients = s.clients.map (notifyIf b)) := by
  unfold workerStep at h
  step_cases
  all_goals (
    refine ⟨_, rfl, ?_, ?_, rfl, ?_⟩
    · simp [counted, *]
    · simp [setWorker, tdone, acq, rel, updTask, counted]
    · first
      | exact Or.inl rfl
      | exact Or.inr ⟨_, rfl⟩)

/-- Client 0 after a step of client `i`. -/
theorem client0_after_set {l : List Client} {i : Nat} {c c' x : Client} (hc : l[i]? = some c)
    (h : (l.set i c')[0]? = some x) : (i = 0 ∧ x = c') ∨ (i ≠ 0 ∧ l[0]? = some x) := by
  have hlt : i < l.length := (List.getElem?_eq_some_iff.mp hc).1
  rw [List.getElem?_set] at h
  split at h
  · rename_i h0; subst h0; simp [hlt] at h; exact Or.inl ⟨rfl, h.symm⟩
  · rename_i h0; exact Or.inr ⟨h0, h⟩

/-! ### the stop flag is set while the controller is inside `stop()` past `event.set` -/

def inStopPhase (pc : CPc) : Bool :=
  match pc with
  | .stopAcq | .stopPut _ | .stopRel _ | .stopAlive _ | .stopJoin _ | .stopAlive2 _ => true
  | _ => false

@[simp] theorem inStopPhase_notifyIf (b : Bool) (c : Client) : inStopPhase (notifyIf b c).pc = inStopPhase c.pc := by
  cases c with | mk pc ret => cases pc <;> cases b <;> simp [notifyIf, notifyClient, inStopPhase]

theorem inStopPhase_ctl {pc : CPc} (h : inStopPhase pc = true) : isCtlPc pc = true := by
  cases pc <;> simp_all [inStopPhase, isCtlPc]

/-- Program counters of the controller at which the stop flag is certainly set: `start()` between its test and
    `event.clear`, `stop()` after `event.set` up to the end of its join loop. -/
def flagSetPc (pc : CPc) : Bool :=
  match pc with
  | .startClear | .stopAcq | .stopPut _ | .stopRel _ | .stopAlive _ | .stopJoin _ | .stopAlive2 _ => true
  | _ => false

@[simp] theorem flagSetPc_notifyIf (b : Bool) (c : Client) : flagSetPc (notifyIf b c).pc = flagSetPc c.pc := by
  cases c with | mk pc ret => cases pc <;> cases b <;> simp [notifyIf, notifyClient, flagSetPc]

theorem flagSetPc_ctl {pc : CPc} (h : flagSetPc pc = true) : isCtlPc pc = true := by
  cases pc <;> simp_all [flagSetPc, isCtlPc]

theorem inStopPhase_flagSet {pc : CPc} (h : inStopPhase pc = true) : flagSetPc pc = true := by
  cases pc <;> simp_all [flagSetPc, inStopPhase]

def FlagInv (s : State) : Prop :=
  ∀ (j : Nat) (c : Client), s.clients[j]? = some c → flagSetPc c.pc = true → s.stop = true

theorem FlagInv_worker {s s' : State} {i : Nat} {w : Worker} {op : Op} {tmo : Bool}
    (hI : FlagInv s) (h : workerStep s i w op tmo = some s') : FlagInv s' := by
  obtain ⟨w', _, _, _, hst, hcl⟩ := workerStep_frame h
  intro j c hj hd
  rw [hst]
  rcases hcl with hcl | ⟨b, hcl⟩
  · rw [hcl] at hj; exact hI j c hj hd
  · rw [hcl] at hj
    obtain ⟨c0, hj0, rfl⟩ := getElem?_map_notify hj
    exact hI j c0 hj0 (by simpa using hd)

theorem FlagInv_client {s s' : State} {i : Nat} {c : Client} {op : Op} {tmo : Bool}
    (hc : s.clients[i]? = some c) (hC : CtlInv s) (hI : FlagInv s) (h : clientStep s i c op tmo = some s') :
    FlagInv s' := by
  have hme := hI i c hc
  have hu : ∀ (j : Nat) (cj : Client), s.clients[j]? = some cj → flagSetPc cj.pc = true → isCtlPc c.pc = true → j = i :=
    fun j cj hj hd hci => (hC j cj hj (flagSetPc_ctl hd)).trans (hC i c hc hci).symm
  have hlt : i < s.clients.length := (List.getElem?_eq_some_iff.mp hc).1
  unfold clientStep at h
  step_cases
  all_goals (
    intro j cj hj hd
    simp only [setClient, tdone, acq, rel, updTask, put, spawnWorker, apply_ite State.clients, apply_ite State.stop,
      ite_self, List.getElem?_set] at hj ⊢ <;>
    split at hj <;> (first
      | (have hij : i = j := by assumption
         subst hij
         simp [hlt] at hj; subst hj
         simp_all [flagSetPc])
      | exact hI j cj hj hd
      | (obtain ⟨c0, hj0, rfl⟩ := getElem?_map_notify hj
         exact hI j c0 hj0 (by simpa using hd))
      | (have hji := hu j cj hj hd (by simp [isCtlPc, *])
         omega)))

theorem FlagInv_init (cfg : Config) (n : Nat) : FlagInv (init cfg n) := by
  intro j c hj h
  rfl

/-! ### every worker counted in `nb_threads` is listed in `_threads`; `stop()` waits for all of them -/

/-- The workers the controller is still going to wait for (`none`: the list has not been copied yet). -/
def awaitList (pc : CPc) : Option (List Nat) :=
  match pc with
  | .stopAcq | .stopPut _ => none
  | .stopRel l | .stopAlive l | .stopJoin l | .stopAlive2 l => some l
  | _ => some []

@[simp] theorem awaitList_notifyIf (b : Bool) (c : Client) : awaitList (notifyIf b c).pc = awaitList c.pc := by
  cases c with | mk pc ret => cases pc <;> cases b <;> simp [notifyIf, notifyClient, awaitList]

def ListedInv (s : State) : Prop :=
  ∀ (k : Nat) (w : Worker), s.workers[k]? = some w → counted w = true → k ∈ s.threads

/-- While the stop flag is set, every worker still counted in `nb_threads` is one the controller is about to wait
    for; in particular none is left when the controller is outside `stop()`. -/
def AwaitInv (s : State) : Prop :=
  s.stop = true → ∀ c, s.clients[0]? = some c → ∀ l, awaitList c.pc = some l →
    ∀ (k : Nat) (w : Worker), s.workers[k]? = some w → counted w = true → k ∈ l

theorem ListedInv_worker {s s' : State} {i : Nat} {w : Worker} {op : Op} {tmo : Bool}
    (hw : s.workers[i]? = some w) (hI : ListedInv s) (h : workerStep s i w op tmo = some s') : ListedInv s' := by
  obtain ⟨w', hws, hcnt, hth, _, _⟩ := workerStep_frame h
  have hlt : i < s.workers.length := (List.getElem?_eq_some_iff.mp hw).1
  intro k wk hk hc
  rw [hws, List.getElem?_set] at hk
  split at hk
  · rename_i hik; subst hik
    simp [hlt] at hk; subst hk
    rcases hth with hth | ⟨_, hth⟩
    · rw [hth]; exact hI i w hw (hcnt hc)
    · rw [hth] at hc; cases hc
  · rename_i hik
    have := hI k wk hk hc
    rcases hth with hth | ⟨hth, _⟩
    · rw [hth]; exact this
    · rw [hth]; exact (List.mem_erase_of_ne (Ne.symm hik)).mpr this

theorem AwaitInv_worker {s s' : State} {i : Nat} {w : Worker} {op : Op} {tmo : Bool}
    (hw : s.workers[i]? = some w) (hI : AwaitInv s) (h : workerStep s i w op tmo = some s') : AwaitInv s' := by
  obtain ⟨w', hws, hcnt, _, hst, hcl⟩ := workerStep_frame h
  have hlt : i < s.workers.length := (List.getElem?_eq_some_iff.mp hw).1
  intro hs c0 h0 l hl k wk hk hc
  rw [hst] at hs
  have hold : ∀ (k : Nat) (w : Worker), s.workers[k]? = some w → counted w = true → k ∈ l := by
    rcases hcl with hcl | ⟨b, hcl⟩
    · rw [hcl] at h0; exact hI hs c0 h0 l hl
    · rw [hcl] at h0
      obtain ⟨c1, h1, rfl⟩ := getElem?_map_notify h0
      exact hI hs c1 h1 l (by simpa using hl)
  rw [hws, List.getElem?_set] at hk
  split at hk
  · rename_i hik; subst hik
    simp [hlt] at hk; subst hk
    exact hold i w hw (hcnt hc)
  · exact hold k wk hk hc

theorem ListedInv_client {s s' : State} {i : Nat} {c : Client} {op : Op} {tmo : Bool}
    (hc : s.clients[i]? = some c) (hC : CtlInv s) (hF : FlagInv s) (hA : AwaitInv s) (hI : ListedInv s)
    (h : clientStep s i c op tmo = some s') : ListedInv s' := by
  have hq : inStopPhase c.pc = true → ∀ (k : Nat) (wk : Worker), s.workers[k]? = some wk → counted wk = true →
      ∀ l, awaitList c.pc = some l → k ∈ l := by
    intro hph k wk hk hcnt l hl
    have h0 : i = 0 := hC i c hc (inStopPhase_ctl hph)
    subst h0
    exact hA (hF 0 c hc (inStopPhase_flagSet hph)) c hc l hl k wk hk hcnt
  unfold clientStep at h
  step_cases
  all_goals (
    simp only [ListedInv, setClient, tdone, acq, rel, updTask, put, spawnWorker, apply_ite State.workers,
      apply_ite State.threads, ite_self]
    first
    | exact hI
    | (intro k wk hk hcnt
       rw [List.getElem?_append] at hk
       split at hk
       · exact List.mem_append_left _ (hI k wk hk hcnt)
       · have := (List.getElem?_eq_some_iff.mp hk).1
         simp at this ⊢
         omega)
    | (intro k wk hk hcnt
       have := hq (by simp [inStopPhase, *]) k wk hk hcnt
       simp [awaitList, *] at this
       try (subst this; simp_all [workerAlive, counted])))


/-- Client 0 after a step of client `i` (possibly after the `task_done` notification of every client). -/
theorem client0_after {l : List Client} {i : Nat} {c c' x : Client} (hc : l[i]? = some c)
    (h : (l.set i c')[0]? = some x ∨ ∃ b, ((l.map (notifyIf b)).set i c')[0]? = some x) :
    (i = 0 ∧ x = c') ∨ (i ≠ 0 ∧ ∃ x0, l[0]? = some x0 ∧ (x = x0 ∨ ∃ b, x = notifyIf b x0)) := by
  rcases h with h | ⟨b, h⟩
  · rcases client0_after_set hc h with h | ⟨h1, h2⟩
    · exact Or.inl h
    · exact Or.inr ⟨h1, x, h2, Or.inl rfl⟩
  · have hc' : (l.map (notifyIf b))[i]? = some (notifyIf b c) := by simp [hc]
    rcases client0_after_set hc' h with h | ⟨h1, h2⟩
    · exact Or.inl h
    · obtain ⟨x0, h3, rfl⟩ := getElem?_map_notify h2
      exact Or.inr ⟨h1, x0, h3, Or.inr ⟨b, rfl⟩⟩

theorem AwaitInv_client {s s' : State} {i : Nat} {c : Client} {op : Op} {tmo : Bool}
    (hc : s.clients[i]? = some c) (hC : CtlInv s) (hF : FlagInv s) (hL : ListedInv s) (hI : AwaitInv s)
    (h : clientStep s i c op tmo = some s') : AwaitInv s' := by
  have hme : isCtlPc c.pc = true → i = 0 := hC i c hc
  have hI0 : s.stop = true → i = 0 → ∀ (k : Nat) (wk : Worker), s.workers[k]? = some wk → counted wk = true →
      ∀ l, awaitList c.pc = some l → k ∈ l := by
    intro hs h0 k wk hk hcnt l hl; subst h0; exact hI hs c hc l hl k wk hk hcnt
  have hF' : inStopPhase c.pc = true → s.stop = true := fun hp => hF i c hc (inStopPhase_flagSet hp)
  unfold clientStep at h
  step_cases
  all_goals (
    intro hst c0 h0 l hl k wk hk hcnt
    simp only [setClient, tdone, acq, rel, updTask, put, spawnWorker, apply_ite State.clients,
      apply_ite State.workers, apply_ite State.stop, ite_self] at hst h0 hk
    have hz := client0_after hc (c' := _) (x := c0) (by first | exact Or.inl h0 | exact Or.inr ⟨_, h0⟩)
    rcases hz with ⟨h0i, rfl⟩ | ⟨hne, x0, hx0, hx⟩
    · first
      | (simp at hst; done)
      | contradiction
      | (simp [awaitList] at hl; done)
      | (have hold := hI0 hst h0i k wk hk hcnt
         have hLk := hL k wk hk hcnt
         clear hI0 hI hme hF' hC hF hL
         simp [awaitList, *] at hl hold <;>
         first
         | (subst hl; exact hold)
         | (subst hl; exact hLk)
         | (subst hl
            have hdead : ∀ w0, workerAlive s w0 = false → k ≠ w0 := by
              intro w0 hw0 hkw; subst hkw
              simp [workerAlive, hk] at hw0
              simp [counted, hw0] at hcnt
            have hnil : s.threads.length = 0 → k ∈ s.threads → False := by
              intro h1 h2; rw [List.eq_nil_of_length_eq_zero h1] at h2; cases h2
            grind))
    · have hnc : isCtlPc c.pc = false := by
        cases hh : isCtlPc c.pc
        · rfl
        · exact absurd (hme hh) hne
      have hl0 : awaitList x0.pc = some l := by
        rcases hx with rfl | ⟨b, rfl⟩
        · exact hl
        · simpa using hl
      first
      | (simp [isCtlPc, *] at hnc; done)
      | exact hI hst x0 hx0 l hl0 k wk hk hcnt
      | (exfalso; simp_all; done))

theorem ListedInv_init (cfg : Config) (n : Nat) : ListedInv (init cfg n) := by
  intro k w hk; simp [init] at hk

theorem AwaitInv_init (cfg : Config) (n : Nat) : AwaitInv (init cfg n) := by
  intro _ c _ l _ k w hk; simp [init] at hk

/-! ### sentinels are in the queue only between the puts of `stop()` and the drain of its `clear()` -/

def sentPhase (pc : CPc) : Bool :=
  match pc with
  | .stopAcq | .stopPut _ | .stopRel _ | .stopAlive _ | .stopJoin _ | .stopAlive2 _
  | .clrAcq | .clrGet | .clrDone _ => true
  | _ => false

@[simp] theorem sentPhase_notifyIf (b : Bool) (c : Client) : sentPhase (notifyIf b c).pc = sentPhase c.pc := by
  cases c with | mk pc ret => cases pc <;> cases b <;> simp [notifyIf, notifyClient, sentPhase]

def NoSentInv (s : State) : Prop :=
  Item.sentinel ∈ s.queue → s.stop = true ∧ ∀ c, s.clients[0]? = some c → sentPhase c.pc = true

theorem NoSentInv_init (cfg : Config) (n : Nat) : NoSentInv (init cfg n) := by
  intro h; simp [init] at h

theorem workerStep_queue {s s' : State} {i : Nat} {w : Worker} {op : Op} {tmo : Bool}
    (h : workerStep s i w op tmo = some s') : ∀ it, it ∈ s'.queue → it ∈ s.queue := by
  unfold workerStep at h
  step_cases
  all_goals (
    intro it hit
    simp only [setWorker, tdone, acq, rel, updTask] at hit
    first
    | exact hit
    | simp_all)

theorem NoSentInv_worker {s s' : State} {i : Nat} {w : Worker} {op : Op} {tmo : Bool}
    (hI : NoSentInv s) (h : workerStep s i w op tmo = some s') : NoSentInv s' := by
  obtain ⟨w', _, _, _, hst, hcl⟩ := workerStep_frame h
  intro hm
  obtain ⟨h1, h2⟩ := hI (workerStep_queue h _ hm)
  refine ⟨by rw [hst]; exact h1, fun c0 h0 => ?_⟩
  rcases hcl with hcl | ⟨b, hcl⟩
  · rw [hcl] at h0; exact h2 c0 h0
  · rw [hcl] at h0
    obtain ⟨c1, h3, rfl⟩ := getElem?_map_notify h0
    simpa using h2 c1 h3

theorem NoSentInv_client {s s' : State} {i : Nat} {c : Client} {op : Op} {tmo : Bool}
    (hc : s.clients[i]? = some c) (hC : CtlInv s) (hF : FlagInv s) (hI : NoSentInv s)
    (h : clientStep s i c op tmo = some s') : NoSentInv s' := by
  have hme : isCtlPc c.pc = true → i = 0 := hC i c hc
  have hI0 : Item.sentinel ∈ s.queue → i = 0 → sentPhase c.pc = true := by
    intro hm h0; subst h0; exact (hI hm).2 c hc
  have hIs : Item.sentinel ∈ s.queue → s.stop = true := fun hm => (hI hm).1
  have hF' : inStopPhase c.pc = true → s.stop = true := fun hp => hF i c hc (inStopPhase_flagSet hp)
  unfold clientStep at h
  step_cases
  all_goals (
    intro hmem
    simp only [setClient, tdone, acq, rel, updTask, put, spawnWorker, apply_ite State.clients, apply_ite State.queue,
      apply_ite State.stop, ite_self] at hmem ⊢
    have hq : Item.sentinel ∈ s.queue ∨ inStopPhase c.pc = true := by
      first
      | exact Or.inl hmem
      | (simp at hmem; exact Or.inl hmem)
      | (right; simp [inStopPhase, *]; done)
      | (left; simp_all; done)
    rcases hq with hq | hq
    · refine ⟨?_, fun c0 h0 => ?_⟩
      · have := hIs hq
        first
        | exact this
        | rfl
        | (exfalso
           have := hI0 hq (hme (by simp [isCtlPc, *]))
           simp [sentPhase, *] at this)
      · have hz := client0_after hc (c' := _) (x := c0) (by first | exact Or.inl h0 | exact Or.inr ⟨_, h0⟩)
        rcases hz with ⟨h0i, rfl⟩ | ⟨hne, x0, hx0, hx⟩
        · have hp := hI0 hq h0i
          clear hI0 hI hme hF' hC hF hIs
          simp_all [sentPhase]
        · have := (hI hq).2 x0 hx0
          rcases hx with rfl | ⟨b, rfl⟩
          · exact this
          · simpa using this
    · first
      | (simp [inStopPhase, *] at hq; done)
      | (have hs := hF' hq
         have h0i := hme (inStopPhase_ctl hq)
         refine ⟨hs, fun c0 h0 => ?_⟩
         have hz := client0_after hc (c' := _) (x := c0) (by first | exact Or.inl h0 | exact Or.inr ⟨_, h0⟩)
         rcases hz with ⟨_, rfl⟩ | ⟨hne, _⟩
         · simp [sentPhase]; try (split <;> rfl)
         · exact absurd h0i hne))

/-! ### while the stop flag is clear, every worker counted in `nb_threads` serves the queue -/

/-- A worker on its way out that has not executed its decrement yet (it saw the stop flag, took a sentinel, or is
    between the two halves of its retirement — the last never happens: `cleaned` is set with the decrement). -/
def stale (w : Worker) : Bool :=
  match w.pc with
  | .sentDone | .exitAcq | .retRelExit => !w.cleaned
  | _ => false

def FreshInv (s : State) : Prop :=
  s.stop = false → ∀ (k : Nat) (w : Worker), s.workers[k]? = some w → stale w = false

theorem FreshInv_init (cfg : Config) (n : Nat) : FreshInv (init cfg n) := by
  intro _ k w hk; simp [init] at hk

theorem FreshInv_worker {s s' : State} {i : Nat} {w : Worker} {op : Op} {tmo : Bool}
    (hw : s.workers[i]? = some w) (hN : NoSentInv s) (hI : FreshInv s)
    (h : workerStep s i w op tmo = some s') : FreshInv s' := by
  have hns : ∀ rest, s.queue = Item.sentinel :: rest → s.stop = true := by
    intro rest hq; exact (hN (by rw [hq]; simp)).1
  have hme : s.stop = false → stale w = false := fun hs => hI hs i w hw
  have hlt : i < s.workers.length := (List.getElem?_eq_some_iff.mp hw).1
  unfold workerStep at h
  step_cases
  all_goals (
    intro hst k wk hk
    simp only [setWorker, tdone, acq, rel, updTask, List.getElem?_set] at hst hk
    split at hk
    · simp [hlt] at hk; subst hk
      have := hme hst
      clear hme hI hN
      simp_all [stale]
    · exact hI hst k wk hk)

theorem stale_counted {w : Worker} (h : stale w = true) : counted w = true := by
  unfold stale at h; unfold counted
  cases hpc : w.pc <;> simp_all

theorem FreshInv_client {s s' : State} {i : Nat} {c : Client} {op : Op} {tmo : Bool}
    (hc : s.clients[i]? = some c) (hC : CtlInv s) (hF : FlagInv s) (hA : AwaitInv s) (hI : FreshInv s)
    (h : clientStep s i c op tmo = some s') : FreshInv s' := by
  have hA' : c.pc = .startClear → ∀ (k : Nat) (wk : Worker), s.workers[k]? = some wk → stale wk = false := by
    intro hpc k wk hk
    have h0 : i = 0 := hC i c hc (by simp [isCtlPc, hpc])
    subst h0
    have hs : s.stop = true := hF 0 c hc (by simp [flagSetPc, hpc])
    have := hA hs c hc [] (by simp [awaitList, hpc]) k wk hk
    cases hst : stale wk
    · rfl
    · exact absurd (this (stale_counted hst)) (by simp)
  unfold clientStep at h
  step_cases
  all_goals (
    intro hst k wk hk
    simp only [setClient, tdone, acq, rel, updTask, put, spawnWorker, apply_ite State.workers, apply_ite State.stop,
      ite_self] at hst hk
    first
    | exact hI hst k wk hk
    | (simp at hst; done)
    | exact hA' (by assumption) k wk hk
    | (rw [List.getElem?_append] at hk
       split at hk
       · exact hI hst k wk hk
       · have := List.mem_of_getElem? hk
         simp at this; subst this; rfl))

/-! ### assembly -/

structure CtlBundle (s : State) : Prop where
  ctl : CtlInv s
  flag : FlagInv s
  listed : ListedInv s
  await : AwaitInv s
  nosent : NoSentInv s
  fresh : FreshInv s

theorem CtlBundle_init (cfg : Config) (n : Nat) : CtlBundle (init cfg n) :=
  ⟨CtlInv_init cfg n, FlagInv_init cfg n, ListedInv_init cfg n, AwaitInv_init cfg n, NoSentInv_init cfg n,
    FreshInv_init cfg n⟩

theorem CtlBundle_step {s s' : State} {a : Action} (hs : s.cfg.singleCtl = true) (hI : CtlBundle s)
    (h : step? s a = some s') : CtlBundle s' := by
  obtain ⟨hC, hF, hL, hA, hN, hR⟩ := hI
  unfold step? at h
  split at h
  · split at h
    · rename_i i w hw
      exact ⟨CtlInv_worker hC h, FlagInv_worker hF h, ListedInv_worker hw hL h, AwaitInv_worker hw hA h,
        NoSentInv_worker hN h, FreshInv_worker hw hN hR h⟩
    · simp at h
  · split at h
    · rename_i i c hc
      exact ⟨CtlInv_client hs hc hC h, FlagInv_client hc hC hF h, ListedInv_client hc hC hF hA hL h,
        AwaitInv_client hc hC hF hL hA h, NoSentInv_client hc hC hF hN h, FreshInv_client hc hC hF hA hR h⟩
    · simp at h

theorem CtlBundle_reach {cfg : Config} {n : Nat} {s : State} (hs : cfg.singleCtl = true) (hr : Reach (init cfg n) s) :
    CtlBundle s := by
  refine Reach.induct (P := fun s => CtlBundle s) (CtlBundle_init cfg n) ?_ s hr
  intro s a s' hr' hI h
  exact CtlBundle_step (by rw [reach_cfg hr']; exact hs) hI h

end JRV.Pool.C10L
