/-
  Lock discipline of the pool model, as far as the bound `nb_threads ≤ max_threads` needs it: the test
  (`nb_threads ≥ max`) and the increment of `__start_thread` are two steps, both inside the critical section of
  the pool lock, so two clients are never between them at the same time.
-/
import JRV.Lemmas.Pool

set_option linter.unusedSimpArgs false
set_option linter.unusedVariables false

namespace JRV.Pool

/-- How many times the client holds the pool lock at a program counter. -/
def cDepth (pc : CPc) : Nat :=
  match pc with
  | .stIsSet _ | .stRel _ | .enqPut _ | .enqStAcq | .enqRel | .enqRelFail | .stopPut _ | .stopRel _
  | .clrGet | .clrDone _ | .clrJoin | .clrRel => 1
  | .enqStIsSet | .enqStRel => 2
  | _ => 0

def aboutToSpawn (pc : CPc) : Bool :=
  match pc with
  | .stIsSet _ | .enqStIsSet => true
  | _ => false

structure SpawnInv (s : State) : Prop where
  cl : ∀ (j : Nat) (c : Client), s.clients[j]? = some c → cDepth c.pc ≠ 0 →
        s.lockOwner = some (.client j) ∧ cDepth c.pc ≤ s.lockDepth
  lt : ∀ (j : Nat) (c : Client), s.clients[j]? = some c → aboutToSpawn c.pc = true → s.nbThreads < s.cfg.max
  le : s.nbThreads ≤ s.cfg.max

theorem SpawnInv_init (cfg : Config) (n : Nat) : SpawnInv (init cfg n) := by
  refine ⟨?_, ?_, ?_⟩ <;> simp [init]
  · intro j c hj
    have := List.mem_of_getElem? hj
    simp at this; obtain ⟨_, rfl⟩ := this; simp [cDepth]
  · intro j c hj h
    have := List.mem_of_getElem? hj
    simp at this; obtain ⟨_, rfl⟩ := this; simp [aboutToSpawn] at h

@[simp] theorem cDepth_notifyIf (b : Bool) (c : Client) : cDepth (notifyIf b c).pc = cDepth c.pc := by
  cases c with | mk pc ret => cases pc <;> cases b <;> simp [notifyIf, notifyClient, cDepth]

@[simp] theorem aboutToSpawn_notifyIf (b : Bool) (c : Client) : aboutToSpawn (notifyIf b c).pc = aboutToSpawn c.pc := by
  cases c with | mk pc ret => cases pc <;> cases b <;> simp [notifyIf, notifyClient, aboutToSpawn]

theorem getElem?_map_notify {b : Bool} {l : List Client} {j : Nat} {c : Client}
    (h : (l.map (notifyIf b))[j]? = some c) : ∃ c0, l[j]? = some c0 ∧ c = notifyIf b c0 := by
  simp at h
  obtain ⟨c0, h0, rfl⟩ := h
  exact ⟨c0, h0, rfl⟩

theorem aboutToSpawn_cDepth {pc : CPc} (h : aboutToSpawn pc = true) : cDepth pc ≠ 0 := by
  cases pc <;> simp_all [aboutToSpawn, cDepth]

theorem SpawnInv_worker {s s' : State} {i : Nat} {w : Worker} {op : Op} {tmo : Bool}
    (hw : s.workers[i]? = some w) (hI : SpawnInv s) (h : workerStep s i w op tmo = some s') : SpawnInv s' := by
  obtain ⟨cl, lt, le⟩ := hI
  unfold workerStep at h
  step_cases
  all_goals (
    refine ⟨?_, ?_, ?_⟩
    · intro j c hj hd
      simp only [setWorker, tdone, acq, rel, updTask] at hj ⊢
      have hold : s.lockOwner = some (.client j) ∧ cDepth c.pc ≤ s.lockDepth := by
        first
        | exact cl j c hj hd
        | (obtain ⟨c0, hj0, rfl⟩ := getElem?_map_notify hj
           have := cl j c0 hj0 (by simpa using hd)
           simpa using this)
      clear cl lt
      first
      | exact hold
      | (simp_all [canAcquire, canRelease])
    · intro j c hj hd
      simp only [setWorker, tdone, acq, rel, updTask] at hj ⊢
      have hold : s.nbThreads < s.cfg.max := by
        first
        | exact lt j c hj hd
        | (obtain ⟨c0, hj0, rfl⟩ := getElem?_map_notify hj
           exact lt j c0 hj0 (by simpa using hd))
      first
      | exact hold
      | omega
    · simp only [setWorker, tdone, acq, rel, updTask]
      first
      | exact le
      | omega)

theorem SpawnInv_client_cl {s s' : State} {i : Nat} {c : Client} {op : Op} {tmo : Bool}
    (hc : s.clients[i]? = some c) (hI : SpawnInv s) (h : clientStep s i c op tmo = some s') :
    ∀ (j : Nat) (cj : Client), s'.clients[j]? = some cj → cDepth cj.pc ≠ 0 →
      s'.lockOwner = some (.client j) ∧ cDepth cj.pc ≤ s'.lockDepth := by
  obtain ⟨cl, lt, le⟩ := hI
  have hme := cl i c hc
  have hlt : i < s.clients.length := (List.getElem?_eq_some_iff.mp hc).1
  unfold clientStep at h
  step_cases
  all_goals (
    intro j cj hj hd
    simp only [setClient, tdone, acq, rel, updTask, put, spawnWorker, apply_ite State.clients, apply_ite State.lockOwner,
      apply_ite State.lockDepth, ite_self, List.getElem?_set] at hj ⊢
    split at hj <;> (first
      | (have hij : i = j := by assumption
         subst hij
         simp [hlt] at hj; subst hj
         clear cl lt
         simp_all [cDepth, canAcquire, canRelease]
         try (first | omega | (split <;> omega)))
      | (have hold : s.lockOwner = some (.client j) ∧ cDepth cj.pc ≤ s.lockDepth := by
           first
           | exact cl j cj hj hd
           | (obtain ⟨c0, hj0, rfl⟩ := getElem?_map_notify hj
              have := cl j c0 hj0 (by simpa using hd)
              simpa using this)
         clear cl lt
         first
         | exact hold
         | (simp_all [canAcquire, canRelease]))))

theorem SpawnInv_client_lt {s s' : State} {i : Nat} {c : Client} {op : Op} {tmo : Bool}
    (hc : s.clients[i]? = some c) (hI : SpawnInv s) (h : clientStep s i c op tmo = some s') :
    (∀ (j : Nat) (cj : Client), s'.clients[j]? = some cj → aboutToSpawn cj.pc = true → s'.nbThreads < s'.cfg.max) ∧
    s'.nbThreads ≤ s'.cfg.max := by
  obtain ⟨cl, lt, le⟩ := hI
  have hme := cl i c hc
  have hme2 := lt i c hc
  have hlt : i < s.clients.length := (List.getElem?_eq_some_iff.mp hc).1
  unfold clientStep at h
  step_cases
  all_goals (
    refine ⟨?_, ?_⟩
    · intro j cj hj hd
      simp only [setClient, tdone, acq, rel, updTask, put, spawnWorker, apply_ite State.clients, apply_ite State.nbThreads,
        apply_ite State.cfg, ite_self, List.getElem?_set] at hj ⊢
      split at hj <;> (first
        | (have hij : i = j := by assumption
           subst hij
           simp [hlt] at hj; subst hj
           clear cl lt
           simp_all [aboutToSpawn]
           try omega)
        | (have hold : s.nbThreads < s.cfg.max ∧ s.lockOwner = some (.client j) := by
             first
             | exact ⟨lt j cj hj hd, (cl j cj hj (aboutToSpawn_cDepth hd)).1⟩
             | (obtain ⟨c0, hj0, rfl⟩ := getElem?_map_notify hj
                have hd0 : aboutToSpawn c0.pc = true := by simpa using hd
                exact ⟨lt j c0 hj0 hd0, (cl j c0 hj0 (aboutToSpawn_cDepth hd0)).1⟩)
           clear cl lt
           first
           | exact hold.1
           | (simp_all [aboutToSpawn, cDepth] <;> omega)))
    · simp only [setClient, tdone, acq, rel, updTask, put, spawnWorker, apply_ite State.nbThreads, apply_ite State.cfg,
        ite_self]
      clear cl lt
      first
      | exact le
      | (simp_all [aboutToSpawn] <;> (try split) <;> omega))

theorem SpawnInv_step {s s' : State} {a : Action} (hI : SpawnInv s) (h : step? s a = some s') : SpawnInv s' := by
  unfold step? at h
  split at h
  · split at h
    · rename_i i w hw
      exact SpawnInv_worker hw hI h
    · simp at h
  · split at h
    · rename_i i c hc
      exact ⟨SpawnInv_client_cl hc hI h, (SpawnInv_client_lt hc hI h).1, (SpawnInv_client_lt hc hI h).2⟩
    · simp at h

theorem SpawnInv_reach {cfg : Config} {n : Nat} {s : State} (hr : Reach (init cfg n) s) : SpawnInv s :=
  Reach.induct (SpawnInv_init cfg n) (fun _ _ _ _ hI h => SpawnInv_step hI h) s hr

end JRV.Pool
