/-
  The pool lock, exactly: who owns it and how deep, for clients and workers (the re-entrant `RLock` of `ThreadPool`).
  The owner is a client inside one of its critical sections or a worker inside one of its (never nested) sections, the
  depth is the nesting the owner's program counter says, and nobody else is inside a section.  Used by the no-stuck
  theorem of C10 (a free worker's next operation is enabled, or the lock holder's release is).
-/
import JRV.Lemmas.PoolLock

set_option linter.unusedSimpArgs false
set_option linter.unusedVariables false

namespace JRV.Pool.C10L

/-- How many times (0 or 1) the worker holds the pool lock at a program counter. -/
def wDepth (pc : WPc) : Nat :=
  match pc with
  | .actRel | .finRel | .retRel | .retRelExit | .exitRel => 1
  | _ => 0

structure LockInv (s : State) : Prop where
  cl : ∀ (j : Nat) (c : Client), s.clients[j]? = some c → cDepth c.pc ≠ 0 →
        s.lockOwner = some (.client j) ∧ s.lockDepth = cDepth c.pc
  wk : ∀ (k : Nat) (w : Worker), s.workers[k]? = some w → wDepth w.pc ≠ 0 →
        s.lockOwner = some (.worker k) ∧ s.lockDepth = 1
  ownC : ∀ (j : Nat), s.lockOwner = some (.client j) → ∃ c, s.clients[j]? = some c ∧ cDepth c.pc ≠ 0
  ownW : ∀ (k : Nat), s.lockOwner = some (.worker k) → ∃ w, s.workers[k]? = some w ∧ wDepth w.pc ≠ 0

theorem LockInv_init (cfg : Config) (n : Nat) : LockInv (init cfg n) := by
  refine ⟨?_, ?_, ?_, ?_⟩ <;> simp [init]
  intro j c hj
  have := List.mem_of_getElem? hj
  simp at this; obtain ⟨_, rfl⟩ := this; simp [cDepth]

/-! ### worker steps -/

theorem LockInv_worker_cl {s s' : State} {i : Nat} {w : Worker} {op : Op} {tmo : Bool}
    (hw : s.workers[i]? = some w) (hI : LockInv s) (h : workerStep s i w op tmo = some s') :
    ∀ (j : Nat) (c : Client), s'.clients[j]? = some c → cDepth c.pc ≠ 0 →
      s'.lockOwner = some (.client j) ∧ s'.lockDepth = cDepth c.pc := by
  obtain ⟨cl, wk, ownC, ownW⟩ := hI
  unfold workerStep at h
  step_cases
  all_goals (
    intro j c hj hd
    simp only [setWorker, tdone, acq, rel, updTask] at hj ⊢
    have hold : s.lockOwner = some (.client j) ∧ s.lockDepth = cDepth c.pc := by
      first
      | exact cl j c hj hd
      | (obtain ⟨c0, hj0, rfl⟩ := getElem?_map_notify hj
         have := cl j c0 hj0 (by simpa using hd)
         simpa using this)
    clear cl wk ownC ownW
    first
    | exact hold
    | (simp_all [canAcquire, canRelease]))

theorem LockInv_worker_wk {s s' : State} {i : Nat} {w : Worker} {op : Op} {tmo : Bool}
    (hw : s.workers[i]? = some w) (hI : LockInv s) (h : workerStep s i w op tmo = some s') :
    ∀ (k : Nat) (wk' : Worker), s'.workers[k]? = some wk' → wDepth wk'.pc ≠ 0 →
      s'.lockOwner = some (.worker k) ∧ s'.lockDepth = 1 := by
  obtain ⟨cl, wk, ownC, ownW⟩ := hI
  have hme := wk i w hw
  have hme2 := ownW i
  have hlt : i < s.workers.length := (List.getElem?_eq_some_iff.mp hw).1
  unfold workerStep at h
  step_cases
  all_goals (
    intro k wk' hk hd
    simp only [setWorker, tdone, acq, rel, updTask, List.getElem?_set] at hk ⊢
    split at hk <;> (first
      | (have hik : i = k := by assumption
         subst hik
         simp [hlt] at hk; subst hk
         clear cl wk ownC ownW
         simp_all [wDepth, canAcquire, canRelease])
      | (have hold := wk k wk' hk hd
         clear cl wk ownC ownW
         first
         | exact hold
         | (simp_all [canAcquire, canRelease]))))

theorem LockInv_worker_ownC {s s' : State} {i : Nat} {w : Worker} {op : Op} {tmo : Bool}
    (hw : s.workers[i]? = some w) (hI : LockInv s) (h : workerStep s i w op tmo = some s') :
    ∀ (j : Nat), s'.lockOwner = some (.client j) → ∃ c, s'.clients[j]? = some c ∧ cDepth c.pc ≠ 0 := by
  obtain ⟨cl, wk, ownC, ownW⟩ := hI
  have hme := wk i w hw
  unfold workerStep at h
  step_cases
  all_goals (
    intro j hj
    simp only [setWorker, tdone, acq, rel, updTask] at hj ⊢
    have hold : s.lockOwner = some (.client j) := by
      first
      | exact hj
      | (clear cl wk ownC ownW; simp_all [canAcquire, canRelease, wDepth]; done)
    obtain ⟨c, hc, hd⟩ := ownC j hold
    first
    | exact ⟨c, hc, hd⟩
    | (refine ⟨_, (by rw [List.getElem?_map, hc]; rfl), ?_⟩
       simpa using hd))

theorem LockInv_worker_ownW {s s' : State} {i : Nat} {w : Worker} {op : Op} {tmo : Bool}
    (hw : s.workers[i]? = some w) (hI : LockInv s) (h : workerStep s i w op tmo = some s') :
    ∀ (k : Nat), s'.lockOwner = some (.worker k) → ∃ wk', s'.workers[k]? = some wk' ∧ wDepth wk'.pc ≠ 0 := by
  obtain ⟨cl, wk, ownC, ownW⟩ := hI
  have hme := wk i w hw
  have hlt : i < s.workers.length := (List.getElem?_eq_some_iff.mp hw).1
  unfold workerStep at h
  step_cases
  all_goals (
    intro k hk
    simp only [setWorker, tdone, acq, rel, updTask] at hk ⊢
    by_cases hik : k = i
    · subst hik
      refine ⟨_, List.getElem?_set_self hlt, ?_⟩
      have hold := ownW k
      clear cl wk ownC ownW
      simp_all [canAcquire, canRelease, wDepth]
    · have hold : s.lockOwner = some (.worker k) := by
        first
        | exact hk
        | (clear cl wk ownC ownW; simp_all [canAcquire, canRelease, wDepth]; done)
      obtain ⟨wk', hwk, hd⟩ := ownW k hold
      exact ⟨wk', by rw [List.getElem?_set]; simp [Ne.symm hik, hwk], hd⟩)

/-! ### client steps -/

theorem LockInv_client_cl {s s' : State} {i : Nat} {c : Client} {op : Op} {tmo : Bool}
    (hc : s.clients[i]? = some c) (hI : LockInv s) (h : clientStep s i c op tmo = some s') :
    ∀ (j : Nat) (cj : Client), s'.clients[j]? = some cj → cDepth cj.pc ≠ 0 →
      s'.lockOwner = some (.client j) ∧ s'.lockDepth = cDepth cj.pc := by
  obtain ⟨cl, wk, ownC, ownW⟩ := hI
  have hme := cl i c hc
  have hme2 := ownC i
  have hlt : i < s.clients.length := (List.getElem?_eq_some_iff.mp hc).1
  unfold clientStep at h
  step_cases
  all_goals (
    intro j cj hj hd
    simp only [setClient, tdone, acq, rel, updTask, put, spawnWorker, apply_ite State.clients, apply_ite State.lockOwner,
      apply_ite State.lockDepth, ite_self, List.getElem?_set] at hj ⊢
    split at hj <;> (first
      | (have hij : i = j := by assumption
         subst hij
         simp [hlt] at hj; subst hj
         clear cl wk ownC ownW
         simp_all [cDepth, canAcquire, canRelease]
         try (first | omega | (split <;> omega)))
      | (have hold : s.lockOwner = some (.client j) ∧ s.lockDepth = cDepth cj.pc := by
           first
           | exact cl j cj hj hd
           | (obtain ⟨c0, hj0, rfl⟩ := getElem?_map_notify hj
              have := cl j c0 hj0 (by simpa using hd)
              simpa using this)
         clear cl wk ownC ownW
         first
         | exact hold
         | (simp_all [canAcquire, canRelease]))))

theorem LockInv_client_wk {s s' : State} {i : Nat} {c : Client} {op : Op} {tmo : Bool}
    (hc : s.clients[i]? = some c) (hI : LockInv s) (h : clientStep s i c op tmo = some s') :
    ∀ (k : Nat) (w : Worker), s'.workers[k]? = some w → wDepth w.pc ≠ 0 →
      s'.lockOwner = some (.worker k) ∧ s'.lockDepth = 1 := by
  obtain ⟨cl, wk, ownC, ownW⟩ := hI
  unfold clientStep at h
  step_cases
  all_goals (
    intro k w hk hd
    simp only [setClient, tdone, acq, rel, updTask, put, spawnWorker, apply_ite State.workers, apply_ite State.lockOwner,
      apply_ite State.lockDepth, ite_self] at hk ⊢
    have hold : s.lockOwner = some (.worker k) ∧ s.lockDepth = 1 := by
      first
      | exact wk k w hk hd
      | (rw [List.getElem?_append] at hk
         split at hk
         · exact wk k w hk hd
         · have := List.mem_of_getElem? hk
           simp at this; subst this; simp [wDepth] at hd)
    clear cl wk ownC ownW
    first
    | exact hold
    | (simp_all [canAcquire, canRelease]))

theorem LockInv_client_ownW {s s' : State} {i : Nat} {c : Client} {op : Op} {tmo : Bool}
    (hc : s.clients[i]? = some c) (hI : LockInv s) (h : clientStep s i c op tmo = some s') :
    ∀ (k : Nat), s'.lockOwner = some (.worker k) → ∃ w, s'.workers[k]? = some w ∧ wDepth w.pc ≠ 0 := by
  obtain ⟨cl, wk, ownC, ownW⟩ := hI
  unfold clientStep at h
  step_cases
  all_goals (
    intro k hk
    simp only [setClient, tdone, acq, rel, updTask, put, spawnWorker, apply_ite State.workers, apply_ite State.lockOwner,
      ite_self] at hk ⊢
    have hold : s.lockOwner = some (.worker k) := by
      first
      | exact hk
      | (clear cl wk ownC ownW; simp_all [canAcquire, canRelease]; done)
    obtain ⟨w, hw, hd⟩ := ownW k hold
    first
    | exact ⟨w, hw, hd⟩
    | exact ⟨w, by rw [List.getElem?_append_left (List.getElem?_eq_some_iff.mp hw).1]; exact hw, hd⟩)

theorem LockInv_client_ownC {s s' : State} {i : Nat} {c : Client} {op : Op} {tmo : Bool}
    (hc : s.clients[i]? = some c) (hI : LockInv s) (h : clientStep s i c op tmo = some s') :
    ∀ (j : Nat), s'.lockOwner = some (.client j) → ∃ cj, s'.clients[j]? = some cj ∧ cDepth cj.pc ≠ 0 := by
  obtain ⟨cl, wk, ownC, ownW⟩ := hI
  have hme := cl i c hc
  have hme2 : s.lockOwner = some (.client i) → cDepth c.pc ≠ 0 := by
    intro ho
    obtain ⟨c0, h0, hd⟩ := ownC i ho
    rw [hc] at h0; cases h0; exact hd
  have hlt : i < s.clients.length := (List.getElem?_eq_some_iff.mp hc).1
  unfold clientStep at h
  step_cases
  all_goals (
    intro j hj
    simp only [setClient, tdone, acq, rel, updTask, put, spawnWorker, apply_ite State.clients, apply_ite State.lockOwner,
      ite_self] at hj ⊢
    by_cases hji : j = i
    · subst hji
      refine ⟨_, (by first | exact List.getElem?_set_self hlt | exact List.getElem?_set_self (by simpa using hlt)), ?_⟩
      clear cl wk ownC ownW
      simp_all [cDepth, canAcquire, canRelease]
      try (first | omega | (split <;> simp_all [cDepth]))
    · have hold : s.lockOwner = some (.client j) := by
        first
        | exact hj
        | (clear cl wk ownC ownW; simp_all [canAcquire, canRelease]; done)
      obtain ⟨cj, hcj, hd⟩ := ownC j hold
      first
      | (refine ⟨cj, ?_, hd⟩
         rw [List.getElem?_set]; simp [Ne.symm hji, hcj]; done)
      | (refine ⟨notifyIf (s.unfinished == 1) cj, ?_, ?_⟩
         · rw [List.getElem?_set]; simp [Ne.symm hji, hcj]
         · simpa using hd))

/-! ### assembly -/

theorem LockInv_step {s s' : State} {a : Action} (hI : LockInv s) (h : step? s a = some s') : LockInv s' := by
  unfold step? at h
  split at h
  · split at h
    · rename_i i w hw
      exact ⟨LockInv_worker_cl hw hI h, LockInv_worker_wk hw hI h, LockInv_worker_ownC hw hI h,
        LockInv_worker_ownW hw hI h⟩
    · simp at h
  · split at h
    · rename_i i c hc
      exact ⟨LockInv_client_cl hc hI h, LockInv_client_wk hc hI h, LockInv_client_ownC hc hI h,
        LockInv_client_ownW hc hI h⟩
    · simp at h

theorem LockInv_reach {cfg : Config} {n : Nat} {s : State} (hr : Reach (init cfg n) s) : LockInv s :=
  Reach.induct (LockInv_init cfg n) (fun _ _ _ _ hI h => LockInv_step hI h) s hr

end JRV.Pool.C10L
