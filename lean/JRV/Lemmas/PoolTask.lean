/-
  Task hand-off invariant of the pool model: a task is in exactly one place (being enqueued by its creator, in the
  queue, held by the one worker that took it, or done/dropped) and its execution count follows its phase.
-/
import JRV.Lemmas.Pool

set_option linter.unusedSimpArgs false
set_option linter.unusedVariables false

namespace JRV.Pool

/-- The phase of the task a worker holds, as a function of the worker's program counter. -/
def phaseOfPc (pc : WPc) : Option Phase :=
  match pc with
  | .actAcq | .actRel | .begin => some .held
  | .body => some .running
  | .futSet | .taskDone | .finAcq => some .finished
  | _ => none

def execOf (ph : Phase) : Nat :=
  match ph with
  | .running | .finished => 1
  | _ => 0

def enqTask (pc : CPc) : Option Nat :=
  match pc with
  | .enqAcq t | .enqPut t => some t
  | _ => none

structure TaskInv (s : State) : Prop where
  exec : ∀ (t : Nat) (tk : Task), s.tasks[t]? = some tk → tk.execCount = execOf tk.phase
  qphase : ∀ t, Item.task t ∈ s.queue → ∃ tk, s.tasks[t]? = some tk ∧ tk.phase = .queued
  qnodup : ∀ t, s.queue.count (.task t) ≤ 1
  wheld : ∀ (i : Nat) (w : Worker), s.workers[i]? = some w → ∀ ph, phaseOfPc w.pc = some ph →
            ∃ t tk, w.held = some t ∧ s.tasks[t]? = some tk ∧ tk.owner = some i ∧ tk.phase = ph
  cenq : ∀ (i : Nat) (c : Client), s.clients[i]? = some c → ∀ t, enqTask c.pc = some t →
            ∃ tk, s.tasks[t]? = some tk ∧ tk.phase = .created ∧ tk.creator = i

theorem getElem?_modify_some {α} {l : List α} {t0 t : Nat} {f : α → α} {x : α}
    (h : (l.modify t0 f)[t]? = some x) : ∃ a, l[t]? = some a ∧ x = if t0 = t then f a else a := by
  rw [List.getElem?_modify] at h
  cases hl : l[t]? with
  | none => simp [hl] at h
  | some a => simp [hl] at h; exact ⟨a, rfl, h.symm⟩

theorem TaskInv_worker_exec {s s' : State} {i : Nat} {w : Worker} {op : Op} {tmo : Bool}
    (hw : s.workers[i]? = some w) (hI : TaskInv s) (h : workerStep s i w op tmo = some s') :
    ∀ (t : Nat) (tk : Task), s'.tasks[t]? = some tk → tk.execCount = execOf tk.phase := by
  have hwh := hI.wheld i w hw
  have hq := hI.qphase
  unfold workerStep at h
  step_cases
  all_goals (
    intro t tk ht
    simp only [setWorker, tdone, acq, rel, updTask] at ht
    first
    | exact hI.exec t tk ht
    | (obtain ⟨a, ha, rfl⟩ := getElem?_modify_some ht
       have he := hI.exec t a ha
       split
       · rename_i heq; subst heq
         simp [phaseOfPc, *] at hwh hq
         simp_all [execOf]
       · exact he))

theorem getElem?_modify_ne {α} {l : List α} {t0 t : Nat} {f : α → α} (h : t0 ≠ t) : (l.modify t0 f)[t]? = l[t]? := by
  rw [List.getElem?_modify]; cases l[t]? <;> simp [h]

theorem getElem?_modify_eq {α} {l : List α} {t : Nat} {f : α → α} {a : α} (h : l[t]? = some a) :
    (l.modify t f)[t]? = some (f a) := by
  rw [List.getElem?_modify]; simp [h]

theorem not_mem_tail_of_count {t0 : Nat} {rest : List Item} (h : (Item.task t0 :: rest).count (.task t0) ≤ 1) :
    Item.task t0 ∉ rest := by
  intro hm
  have := List.count_pos_iff.mpr hm
  simp [List.count_cons] at h
  omega

theorem TaskInv_worker_q {s s' : State} {i : Nat} {w : Worker} {op : Op} {tmo : Bool}
    (hw : s.workers[i]? = some w) (hI : TaskInv s) (h : workerStep s i w op tmo = some s') :
    (∀ t, Item.task t ∈ s'.queue → ∃ tk, s'.tasks[t]? = some tk ∧ tk.phase = .queued) ∧
    (∀ t, s'.queue.count (.task t) ≤ 1) := by
  have hwh := hI.wheld i w hw
  have hq := hI.qphase
  have hn := hI.qnodup
  unfold workerStep at h
  step_cases
  all_goals (try (exact ⟨hq, hn⟩))
  all_goals (simp only [setWorker, tdone, acq, rel, updTask])
  all_goals (try (exact ⟨hq, hn⟩))
  · -- get: sentinel
    rename_i rest hqueue
    rw [hqueue] at hq hn
    refine ⟨fun t ht => hq t (List.mem_cons_of_mem _ ht), fun t => ?_⟩
    have := hn t; simp [List.count_cons] at this ⊢; omega
  · -- get: task
    rename_i t0 rest hqueue hlt
    rw [hqueue] at hq hn
    refine ⟨fun t ht => ?_, fun t => ?_⟩
    · have hne : t0 ≠ t := by
        intro he; subst he
        exact not_mem_tail_of_count (hn t0) ht
      rw [getElem?_modify_ne hne]
      exact hq t (List.mem_cons_of_mem _ ht)
    · have := hn t; simp [List.count_cons] at this ⊢; omega
  all_goals (
    rename_i hpc _ t0 hheld hlt
    refine ⟨fun t ht => ?_, hn⟩
    obtain ⟨tk, htk, hph⟩ := hq t ht
    simp [phaseOfPc, hpc, hheld] at hwh
    obtain ⟨tk0, htk0, _, hph0⟩ := hwh
    have hne : t0 ≠ t := by
      intro he; subst he
      simp_all
    rw [getElem?_modify_ne hne]
    exact ⟨tk, htk, hph⟩)

theorem phaseOfPc_range {pc : WPc} {ph : Phase} (h : phaseOfPc pc = some ph) :
    ph = .held ∨ ph = .running ∨ ph = .finished := by
  cases pc <;> simp [phaseOfPc] at h <;> simp [← h]

theorem TaskInv_worker_wheld {s s' : State} {i : Nat} {w : Worker} {op : Op} {tmo : Bool}
    (hw : s.workers[i]? = some w) (hI : TaskInv s) (h : workerStep s i w op tmo = some s') :
    ∀ (j : Nat) (wj : Worker), s'.workers[j]? = some wj → ∀ ph, phaseOfPc wj.pc = some ph →
      ∃ t tk, wj.held = some t ∧ s'.tasks[t]? = some tk ∧ tk.owner = some j ∧ tk.phase = ph := by
  have hwh := hI.wheld i w hw
  have hq := hI.qphase
  have hlt : i < s.workers.length := (List.getElem?_eq_some_iff.mp hw).1
  unfold workerStep at h
  step_cases
  all_goals (
    intro j wj hj ph hph
    simp only [setWorker, tdone, acq, rel, updTask, List.getElem?_set] at hj ⊢
    split at hj <;> (first
      | (have hij : i = j := by assumption
         simp [hlt] at hj; subst hj
         simp [phaseOfPc, *] at hwh hph ⊢
         try (first | (subst hph; exact hwh) | (split at hph <;> simp at hph)))
      | (have hold := hI.wheld j wj hj ph hph
         try (exact hold))))
  · simp_all
  · -- get (task), another worker
    rename_i t0 rest hqueue hlt0 hne
    obtain ⟨t, tk, h1, h2, h3, h4⟩ := hold
    have hne' : t0 ≠ t := by
      intro he; subst he
      obtain ⟨tk0, htk0, hph0⟩ := hq t0 (by rw [hqueue]; simp)
      have := phaseOfPc_range hph
      rw [h2] at htk0; cases htk0
      rw [hph0] at h4; subst h4
      simp at this
    exact ⟨t, tk, h1, by rw [getElem?_modify_ne hne']; exact h2, h3, h4⟩
  · simp_all
  · rename_i hpc _ t0 hheld hlt0 hne
    obtain ⟨t, tk, h1, h2, h3, h4⟩ := hold
    simp [phaseOfPc, hpc, hheld] at hwh
    have hne' : t0 ≠ t := by
      intro he; subst he
      simp_all
    exact ⟨t, tk, h1, by rw [getElem?_modify_ne hne']; exact h2, h3, h4⟩
  · simp_all
  · rename_i hpc _ t0 hheld hlt0 hne
    obtain ⟨t, tk, h1, h2, h3, h4⟩ := hold
    simp [phaseOfPc, hpc, hheld] at hwh
    have hne' : t0 ≠ t := by
      intro he; subst he
      simp_all
    exact ⟨t, tk, h1, by rw [getElem?_modify_ne hne']; exact h2, h3, h4⟩
  · rename_i hpc _ t0 hheld hlt0 hne
    obtain ⟨t, tk, h1, h2, h3, h4⟩ := hold
    simp [phaseOfPc, hpc, hheld] at hwh
    have hne' : t0 ≠ t := by
      intro he; subst he
      simp_all
    exact ⟨t, tk, h1, by rw [getElem?_modify_ne hne']; exact h2, h3, h4⟩

@[simp] theorem enqTask_notifyIf (b : Bool) (c : Client) : enqTask (notifyIf b c).pc = enqTask c.pc := by
  cases c with | mk pc ret => cases pc <;> cases b <;> simp [notifyIf, notifyClient, enqTask]

theorem getElem?_map_notifyIf {b : Bool} {l : List Client} {j : Nat} {c : Client}
    (h : (l.map (notifyIf b))[j]? = some c) : ∃ c0, l[j]? = some c0 ∧ c = notifyIf b c0 := by
  simp at h
  obtain ⟨c0, h0, rfl⟩ := h
  exact ⟨c0, h0, rfl⟩

theorem TaskInv_worker_cenq {s s' : State} {i : Nat} {w : Worker} {op : Op} {tmo : Bool}
    (hw : s.workers[i]? = some w) (hI : TaskInv s) (h : workerStep s i w op tmo = some s') :
    ∀ (j : Nat) (c : Client), s'.clients[j]? = some c → ∀ t, enqTask c.pc = some t →
      ∃ tk, s'.tasks[t]? = some tk ∧ tk.phase = .created ∧ tk.creator = j := by
  have hwh := hI.wheld i w hw
  have hq := hI.qphase
  unfold workerStep at h
  step_cases
  all_goals (
    intro j c hj t ht
    simp only [setWorker, tdone, acq, rel, updTask] at hj ⊢
    have hold : ∃ tk, s.tasks[t]? = some tk ∧ tk.phase = .created ∧ tk.creator = j := by
      first
      | exact hI.cenq j c hj t ht
      | (obtain ⟨c0, hj0, rfl⟩ := getElem?_map_notifyIf hj
         exact hI.cenq j c0 hj0 t (by simpa using ht))
    try (exact hold))
  · -- get: task
    rename_i t0 rest hqueue hlt0
    obtain ⟨tk, h1, h2, h3⟩ := hold
    have hne : t0 ≠ t := by
      intro he; subst he
      obtain ⟨tk0, htk0, hph0⟩ := hq t0 (by rw [hqueue]; simp)
      rw [h1] at htk0; cases htk0; rw [h2] at hph0; cases hph0
    exact ⟨tk, by rw [getElem?_modify_ne hne]; exact h1, h2, h3⟩
  all_goals (
    rename_i hpc _ t0 hheld hlt0
    obtain ⟨tk, h1, h2, h3⟩ := hold
    simp [phaseOfPc, hpc, hheld] at hwh
    have hne : t0 ≠ t := by
      intro he; subst he
      simp_all
    exact ⟨tk, by rw [getElem?_modify_ne hne]; exact h1, h2, h3⟩)

theorem getElem?_append_some {α} {l : List α} {x : α} {t : Nat} {a : α} (h : l[t]? = some a) : (l ++ [x])[t]? = some a := by
  have := (List.getElem?_eq_some_iff.mp h).1
  rw [List.getElem?_append_left this]; exact h

theorem TaskInv_client_exec {s s' : State} {i : Nat} {c : Client} {op : Op} {tmo : Bool}
    (hc : s.clients[i]? = some c) (hI : TaskInv s) (h : clientStep s i c op tmo = some s') :
    ∀ (t : Nat) (tk : Task), s'.tasks[t]? = some tk → tk.execCount = execOf tk.phase := by
  have hce := hI.cenq i c hc
  have hq := hI.qphase
  unfold clientStep at h
  step_cases
  all_goals (
    intro t tk ht
    simp only [setClient, tdone, acq, rel, updTask, put, spawnWorker, apply_ite State.tasks, ite_self] at ht
    try (exact hI.exec t tk ht))
  · -- callEnqueue
    rw [List.getElem?_append] at ht
    split at ht
    · exact hI.exec t tk ht
    · have := List.mem_of_getElem? ht
      simp at this; subst this; rfl
  · rename_i t0 hpc hg _
    obtain ⟨a, ha, rfl⟩ := getElem?_modify_some ht
    have he := hI.exec t a ha
    split
    · rename_i heq; subst heq
      obtain ⟨tk0, h1, h2, _⟩ := hce t0 (by simp [enqTask, hpc])
      rw [ha] at h1; cases h1
      simp [execOf, h2] at he ⊢; exact he
    · exact he
  · rename_i t0 hpc hg _
    obtain ⟨a, ha, rfl⟩ := getElem?_modify_some ht
    have he := hI.exec t a ha
    split
    · rename_i heq; subst heq
      obtain ⟨tk0, h1, h2, _⟩ := hce t0 (by simp [enqTask, hpc])
      rw [ha] at h1; cases h1
      simp [execOf, h2] at he ⊢; exact he
    · exact he
  · rename_i t0 rest hqueue hlt0
    obtain ⟨a, ha, rfl⟩ := getElem?_modify_some ht
    have he := hI.exec t a ha
    split
    · rename_i heq; subst heq
      obtain ⟨tk0, h1, h2⟩ := hq t0 (by rw [hqueue]; simp)
      rw [ha] at h1; cases h1
      simp [execOf, h2] at he ⊢; exact he
    · exact he

theorem TaskInv_client_q {s s' : State} {i : Nat} {c : Client} {op : Op} {tmo : Bool}
    (hc : s.clients[i]? = some c) (hI : TaskInv s) (h : clientStep s i c op tmo = some s') :
    (∀ t, Item.task t ∈ s'.queue → ∃ tk, s'.tasks[t]? = some tk ∧ tk.phase = .queued) ∧
    (∀ t, s'.queue.count (.task t) ≤ 1) := by
  have hce := hI.cenq i c hc
  have hq := hI.qphase
  have hn := hI.qnodup
  unfold clientStep at h
  step_cases
  all_goals (try (exact ⟨hq, hn⟩))
  all_goals (simp only [setClient, tdone, acq, rel, updTask, put, spawnWorker, apply_ite State.tasks, apply_ite State.queue, ite_self])
  all_goals (try (exact ⟨hq, hn⟩))
  · -- callEnqueue
    refine ⟨fun t ht => ?_, hn⟩
    obtain ⟨tk, h1, h2⟩ := hq t ht
    exact ⟨tk, getElem?_append_some h1, h2⟩
  · -- enqPut
    rename_i t0 hpc hg _
    obtain ⟨tk0, h1, h2, _⟩ := hce t0 (by simp [enqTask, hpc])
    have hnot : Item.task t0 ∉ s.queue := by
      intro hm
      obtain ⟨tk, h3, h4⟩ := hq t0 hm
      rw [h1] at h3; cases h3; rw [h2] at h4; cases h4
    refine ⟨fun t ht => ?_, fun t => ?_⟩
    · by_cases he : t0 = t
      · subst he
        exact ⟨_, getElem?_modify_eq h1, rfl⟩
      · rw [getElem?_modify_ne he]
        simp at ht
        rcases ht with ht | ht
        · exact hq t ht
        · exact absurd ht.symm he
    · have := hn t
      by_cases he : t0 = t
      · subst he
        have := List.count_eq_zero.mpr hnot
        simp [List.count_append, this]
      · simp [List.count_append, List.count_cons, he]; exact this
  · rename_i t0 hpc hg _
    obtain ⟨tk0, h1, h2, _⟩ := hce t0 (by simp [enqTask, hpc])
    have hnot : Item.task t0 ∉ s.queue := by
      intro hm
      obtain ⟨tk, h3, h4⟩ := hq t0 hm
      rw [h1] at h3; cases h3; rw [h2] at h4; cases h4
    refine ⟨fun t ht => ?_, fun t => ?_⟩
    · by_cases he : t0 = t
      · subst he
        exact ⟨_, getElem?_modify_eq h1, rfl⟩
      · rw [getElem?_modify_ne he]
        simp at ht
        rcases ht with ht | ht
        · exact hq t ht
        · exact absurd ht.symm he
    · have := hn t
      by_cases he : t0 = t
      · subst he
        have := List.count_eq_zero.mpr hnot
        simp [List.count_append, this]
      · simp [List.count_append, List.count_cons, he]; exact this
  · refine ⟨fun t ht => hq t (by simpa using ht), fun t => ?_⟩
    have := hn t; simp [List.count_append, List.count_cons]; exact this
  · refine ⟨fun t ht => hq t (by simpa using ht), fun t => ?_⟩
    have := hn t; simp [List.count_append, List.count_cons]; exact this
  · -- clrGet: sentinel
    rename_i rest hqueue
    rw [hqueue] at hq hn
    refine ⟨fun t ht => hq t (List.mem_cons_of_mem _ ht), fun t => ?_⟩
    have := hn t; simp [List.count_cons] at this ⊢; omega
  · -- clrGet: task
    rename_i t0 rest hqueue hlt
    rw [hqueue] at hq hn
    refine ⟨fun t ht => ?_, fun t => ?_⟩
    · have hne : t0 ≠ t := by
        intro he; subst he
        exact not_mem_tail_of_count (hn t0) ht
      rw [getElem?_modify_ne hne]
      exact hq t (List.mem_cons_of_mem _ ht)
    · have := hn t; simp [List.count_cons] at this ⊢; omega

theorem TaskInv_client_wheld {s s' : State} {i : Nat} {c : Client} {op : Op} {tmo : Bool}
    (hc : s.clients[i]? = some c) (hI : TaskInv s) (h : clientStep s i c op tmo = some s') :
    ∀ (j : Nat) (wj : Worker), s'.workers[j]? = some wj → ∀ ph, phaseOfPc wj.pc = some ph →
      ∃ t tk, wj.held = some t ∧ s'.tasks[t]? = some tk ∧ tk.owner = some j ∧ tk.phase = ph := by
  have hce := hI.cenq i c hc
  have hq := hI.qphase
  unfold clientStep at h
  step_cases
  all_goals (
    intro j wj hj ph hph
    simp only [setClient, tdone, acq, rel, updTask, put, spawnWorker, apply_ite State.tasks, apply_ite State.workers,
      ite_self] at hj ⊢
    have hold : ∃ t tk, wj.held = some t ∧ s.tasks[t]? = some tk ∧ tk.owner = some j ∧ tk.phase = ph := by
      first
      | exact hI.wheld j wj hj ph hph
      | (rw [List.getElem?_append] at hj
         split at hj
         · exact hI.wheld j wj hj ph hph
         · have := List.mem_of_getElem? hj
           simp at this; subst this; simp [phaseOfPc] at hph)
      | (split at hj
         · exact hI.wheld j wj hj ph hph
         · rw [List.getElem?_append] at hj
           split at hj
           · exact hI.wheld j wj hj ph hph
           · have := List.mem_of_getElem? hj
             simp at this; subst this; simp [phaseOfPc] at hph)
    try (exact hold))
  · -- callEnqueue
    obtain ⟨t, tk, h1, h2, h3, h4⟩ := hold
    exact ⟨t, tk, h1, getElem?_append_some h2, h3, h4⟩
  · rename_i t0 hpc hg _
    obtain ⟨t, tk, h1, h2, h3, h4⟩ := hold
    obtain ⟨tk0, g1, g2, _⟩ := hce t0 (by simp [enqTask, hpc])
    have hne : t0 ≠ t := by
      intro he; subst he
      rw [h2] at g1; cases g1
      have := phaseOfPc_range hph
      rw [g2] at h4; subst h4; simp at this
    exact ⟨t, tk, h1, by rw [getElem?_modify_ne hne]; exact h2, h3, h4⟩
  · rename_i t0 hpc hg _
    obtain ⟨t, tk, h1, h2, h3, h4⟩ := hold
    obtain ⟨tk0, g1, g2, _⟩ := hce t0 (by simp [enqTask, hpc])
    have hne : t0 ≠ t := by
      intro he; subst he
      rw [h2] at g1; cases g1
      have := phaseOfPc_range hph
      rw [g2] at h4; subst h4; simp at this
    exact ⟨t, tk, h1, by rw [getElem?_modify_ne hne]; exact h2, h3, h4⟩
  · rename_i t0 rest hqueue hlt0
    obtain ⟨t, tk, h1, h2, h3, h4⟩ := hold
    obtain ⟨tk0, g1, g2⟩ := hq t0 (by rw [hqueue]; simp)
    have hne : t0 ≠ t := by
      intro he; subst he
      rw [h2] at g1; cases g1
      have := phaseOfPc_range hph
      rw [g2] at h4; subst h4; simp at this
    exact ⟨t, tk, h1, by rw [getElem?_modify_ne hne]; exact h2, h3, h4⟩

theorem TaskInv_client_cenq {s s' : State} {i : Nat} {c : Client} {op : Op} {tmo : Bool}
    (hc : s.clients[i]? = some c) (hI : TaskInv s) (h : clientStep s i c op tmo = some s') :
    ∀ (j : Nat) (cj : Client), s'.clients[j]? = some cj → ∀ t, enqTask cj.pc = some t →
      ∃ tk, s'.tasks[t]? = some tk ∧ tk.phase = .created ∧ tk.creator = j := by
  have hce := hI.cenq i c hc
  have hq := hI.qphase
  have hlt : i < s.clients.length := (List.getElem?_eq_some_iff.mp hc).1
  unfold clientStep at h
  step_cases
  all_goals (
    intro j cj hj t ht
    simp only [setClient, tdone, acq, rel, updTask, put, spawnWorker, apply_ite State.tasks, apply_ite State.clients,
      ite_self, List.getElem?_set] at hj ⊢
    split at hj <;> (first
      | (have hij : i = j := by assumption
         simp [hlt] at hj; subst hj
         simp [enqTask, *] at hce ht ⊢
         try (first | (subst ht; subst hij; exact hce) | (split at ht <;> simp [enqTask] at ht)))
      | (have hold : ∃ tk, s.tasks[t]? = some tk ∧ tk.phase = .created ∧ tk.creator = j := by
           first
           | exact hI.cenq j cj hj t ht
           | (obtain ⟨c0, hj0, rfl⟩ := getElem?_map_notifyIf hj
              exact hI.cenq j c0 hj0 t (by simpa using ht))
         try (exact hold))))
  · -- callEnqueue, the caller
    subst ht
    refine ⟨{ creator := j }, ?_, rfl, rfl⟩
    rw [List.getElem?_append]; simp
  · -- callEnqueue, another client
    obtain ⟨tk, h1, h2, h3⟩ := hold
    exact ⟨tk, getElem?_append_some h1, h2, h3⟩
  · rename_i t0 hpc hg _ hne
    obtain ⟨tk, h1, h2, h3⟩ := hold
    obtain ⟨tk0, g1, g2, g3⟩ := hce t0 (by simp [enqTask, hpc])
    have hne' : t0 ≠ t := by
      intro he; subst he
      rw [h1] at g1; cases g1
      exact hne (g3.symm.trans h3)
    exact ⟨tk, by rw [getElem?_modify_ne hne']; exact h1, h2, h3⟩
  · rename_i t0 hpc hg _ hne
    obtain ⟨tk, h1, h2, h3⟩ := hold
    obtain ⟨tk0, g1, g2, g3⟩ := hce t0 (by simp [enqTask, hpc])
    have hne' : t0 ≠ t := by
      intro he; subst he
      rw [h1] at g1; cases g1
      exact hne (g3.symm.trans h3)
    exact ⟨tk, by rw [getElem?_modify_ne hne']; exact h1, h2, h3⟩
  · rename_i t0 rest hqueue hlt0 hne
    obtain ⟨tk, h1, h2, h3⟩ := hold
    obtain ⟨tk0, g1, g2⟩ := hq t0 (by rw [hqueue]; simp)
    have hne' : t0 ≠ t := by
      intro he; subst he
      rw [h1] at g1; cases g1
      rw [h2] at g2; cases g2
    exact ⟨tk, by rw [getElem?_modify_ne hne']; exact h1, h2, h3⟩

/-! ### assembly -/

theorem TaskInv_init (cfg : Config) (n : Nat) : TaskInv (init cfg n) := by
  refine ⟨?_, ?_, ?_, ?_, ?_⟩ <;> simp [init]
  intro i c hi t ht
  have := List.mem_of_getElem? hi
  simp at this; obtain ⟨_, rfl⟩ := this; simp [enqTask] at ht

theorem TaskInv_step {s s' : State} {a : Action} (hI : TaskInv s) (h : step? s a = some s') : TaskInv s' := by
  unfold step? at h
  split at h
  · split at h
    · rename_i i w hw
      exact ⟨TaskInv_worker_exec hw hI h, (TaskInv_worker_q hw hI h).1, (TaskInv_worker_q hw hI h).2,
        TaskInv_worker_wheld hw hI h, TaskInv_worker_cenq hw hI h⟩
    · simp at h
  · split at h
    · rename_i i c hc
      exact ⟨TaskInv_client_exec hc hI h, (TaskInv_client_q hc hI h).1, (TaskInv_client_q hc hI h).2,
        TaskInv_client_wheld hc hI h, TaskInv_client_cenq hc hI h⟩
    · simp at h

theorem TaskInv_reach {cfg : Config} {n : Nat} {s : State} (hr : Reach (init cfg n) s) : TaskInv s :=
  Reach.induct (TaskInv_init cfg n) (fun _ _ _ _ hI h => TaskInv_step hI h) s hr

end JRV.Pool
