/-
  The converse direction of the task hand-off invariant: a queued task is in the queue, a held or running task sits in
  the worker that owns it.  Together with the unfinished-count accounting this gives the meaning of `join`.
-/
import JRV.Lemmas.PoolTask

set_option linter.unusedSimpArgs false
set_option linter.unusedVariables false

namespace JRV.Pool

structure TaskInv2 (s : State) : Prop where
  inq : ∀ (t : Nat) (tk : Task), s.tasks[t]? = some tk → tk.phase = .queued → Item.task t ∈ s.queue
  own : ∀ (t : Nat) (tk : Task), s.tasks[t]? = some tk → (tk.phase = .held ∨ tk.phase = .running) →
          ∃ (i : Nat) (w : Worker), s.workers[i]? = some w ∧ w.held = some t ∧ phaseOfPc w.pc = some tk.phase

theorem TaskInv2_worker_inq {s s' : State} {i : Nat} {w : Worker} {op : Op} {tmo : Bool}
    (hw : s.workers[i]? = some w) (hT : TaskInv s) (hI : TaskInv2 s) (h : workerStep s i w op tmo = some s') :
    ∀ (t : Nat) (tk : Task), s'.tasks[t]? = some tk → tk.phase = .queued → Item.task t ∈ s'.queue := by
  have hwh := hT.wheld i w hw
  unfold workerStep at h
  step_cases
  all_goals (
    intro t tk ht hph
    simp only [setWorker, tdone, acq, rel, updTask] at ht ⊢
    try (exact hI.inq t tk ht hph))
  · -- get: sentinel
    rename_i rest hqueue
    have := hI.inq t tk ht hph
    rw [hqueue] at this; simpa using this
  · -- get: task
    rename_i t0 rest hqueue hlt0
    obtain ⟨a, ha, rfl⟩ := getElem?_modify_some ht
    split at hph
    · simp at hph
    · rename_i hne
      have := hI.inq t a ha hph
      rw [hqueue] at this
      simp at this
      rcases this with h1 | h1
      · exact absurd h1.symm hne
      · exact h1
  all_goals (
    rename_i hpc _ t0 hheld hlt0
    obtain ⟨a, ha, rfl⟩ := getElem?_modify_some ht
    simp [phaseOfPc, hpc, hheld] at hwh
    split at hph
    · rename_i he; subst he
      obtain ⟨tk0, g1, _, g2⟩ := hwh
      rw [ha] at g1; cases g1
      simp [g2] at hph
    · exact hI.inq t a ha hph)

theorem getElem?_set_ne' {α} {l : List α} {i j : Nat} {a x : α} (hne : j ≠ i) (h : l[j]? = some x) :
    (l.set i a)[j]? = some x := by
  rw [List.getElem?_set]; simp [Ne.symm hne, h]

theorem getElem?_set_self' {α} {l : List α} {i : Nat} {a : α} (h : i < l.length) : (l.set i a)[i]? = some a := by
  rw [List.getElem?_set]; simp [h]

theorem TaskInv2_worker_own {s s' : State} {i : Nat} {w : Worker} {op : Op} {tmo : Bool}
    (hw : s.workers[i]? = some w) (hT : TaskInv s) (hI : TaskInv2 s) (h : workerStep s i w op tmo = some s') :
    ∀ (t : Nat) (tk : Task), s'.tasks[t]? = some tk → (tk.phase = .held ∨ tk.phase = .running) →
      ∃ (j : Nat) (wj : Worker), s'.workers[j]? = some wj ∧ wj.held = some t ∧ phaseOfPc wj.pc = some tk.phase := by
  have hwh := hT.wheld i w hw
  have hlt : i < s.workers.length := (List.getElem?_eq_some_iff.mp hw).1
  unfold workerStep at h
  step_cases
  all_goals (
    intro t tk ht hph
    simp only [setWorker, tdone, acq, rel, updTask] at ht ⊢
    try (
      have ht' : s.tasks[t]? = some tk := ht
      obtain ⟨j, wj, h1, h2, h3⟩ := hI.own t tk ht' hph
      by_cases hji : j = i
      · subst hji; rw [hw] at h1; cases h1
        refine ⟨j, _, getElem?_set_self' hlt, ?_, ?_⟩ <;> (rcases hph with hph | hph <;> simp_all [phaseOfPc])
      · exact ⟨j, wj, getElem?_set_ne' hji h1, h2, h3⟩))
  · -- get: task
    rename_i hpc _ t0 rest hqueue hlt0
    obtain ⟨a, ha, rfl⟩ := getElem?_modify_some ht
    by_cases he : t0 = t
    · subst he
      exact ⟨i, _, getElem?_set_self' hlt, rfl, by simp [phaseOfPc]⟩
    · simp only [he, if_false] at hph ⊢
      obtain ⟨j, wj, h1, h2, h3⟩ := hI.own t a ha hph
      have hji : j ≠ i := by
        intro hji; subst hji; rw [hw] at h1; cases h1
        simp [phaseOfPc, hpc] at h3
      exact ⟨j, wj, getElem?_set_ne' hji h1, h2, h3⟩
  · rename_i hpc _ t0 hheld hlt0
    obtain ⟨a, ha, rfl⟩ := getElem?_modify_some ht
    simp [phaseOfPc, hpc, hheld] at hwh
    obtain ⟨tk0, g1, _, g2⟩ := hwh
    by_cases he : t0 = t
    · subst he
      rw [ha] at g1; cases g1
      exact ⟨i, _, getElem?_set_self' hlt, hheld, by simp [phaseOfPc]⟩
    · simp only [he, if_false] at hph ⊢
      obtain ⟨j, wj, h1, h2, h3⟩ := hI.own t a ha hph
      have hji : j ≠ i := by
        intro hji; subst hji; rw [hw] at h1; cases h1
        rw [hheld] at h2; cases h2; exact he rfl
      exact ⟨j, wj, getElem?_set_ne' hji h1, h2, h3⟩
  · rename_i hpc _ t0 hheld hlt0
    obtain ⟨a, ha, rfl⟩ := getElem?_modify_some ht
    simp [phaseOfPc, hpc, hheld] at hwh
    obtain ⟨tk0, g1, _, g2⟩ := hwh
    by_cases he : t0 = t
    · subst he
      rw [ha] at g1; cases g1
      simp at hph
    · simp only [he, if_false] at hph ⊢
      obtain ⟨j, wj, h1, h2, h3⟩ := hI.own t a ha hph
      have hji : j ≠ i := by
        intro hji; subst hji; rw [hw] at h1; cases h1
        rw [hheld] at h2; cases h2; exact he rfl
      exact ⟨j, wj, getElem?_set_ne' hji h1, h2, h3⟩
  · rename_i hpc _ t0 hheld hlt0
    obtain ⟨a, ha, rfl⟩ := getElem?_modify_some ht
    simp [phaseOfPc, hpc, hheld] at hwh
    obtain ⟨tk0, g1, _, g2⟩ := hwh
    by_cases he : t0 = t
    · subst he
      rw [ha] at g1; cases g1
      simp [g2] at hph
    · simp only [he, if_false] at hph ⊢
      obtain ⟨j, wj, h1, h2, h3⟩ := hI.own t a ha hph
      have hji : j ≠ i := by
        intro hji; subst hji; rw [hw] at h1; cases h1
        rw [hheld] at h2; cases h2; exact he rfl
      exact ⟨j, wj, getElem?_set_ne' hji h1, h2, h3⟩

theorem TaskInv2_client_inq {s s' : State} {i : Nat} {c : Client} {op : Op} {tmo : Bool}
    (hc : s.clients[i]? = some c) (hT : TaskInv s) (hI : TaskInv2 s) (h : clientStep s i c op tmo = some s') :
    ∀ (t : Nat) (tk : Task), s'.tasks[t]? = some tk → tk.phase = .queued → Item.task t ∈ s'.queue := by
  unfold clientStep at h
  step_cases
  all_goals (
    intro t tk ht hph
    simp only [setClient, tdone, acq, rel, updTask, put, spawnWorker, apply_ite State.tasks, apply_ite State.queue,
      ite_self] at ht ⊢
    try (
      have ht' : s.tasks[t]? = some tk := ht
      first
      | exact hI.inq t tk ht' hph
      | (have := hI.inq t tk ht' hph; simp; exact Or.inl this)))
  · -- callEnqueue
    rw [List.getElem?_append] at ht
    split at ht
    · exact hI.inq t tk ht hph
    · have := List.mem_of_getElem? ht
      simp at this; subst this; simp at hph
  · rename_i t0 hpc hg _
    obtain ⟨a, ha, rfl⟩ := getElem?_modify_some ht
    by_cases he : t0 = t
    · subst he; simp
    · simp only [he, if_false] at hph
      have := hI.inq t a ha hph
      simp; exact Or.inl this
  · rename_i t0 hpc hg _
    obtain ⟨a, ha, rfl⟩ := getElem?_modify_some ht
    by_cases he : t0 = t
    · subst he; simp
    · simp only [he, if_false] at hph
      have := hI.inq t a ha hph
      simp; exact Or.inl this
  · have := hI.inq t tk ht hph; simp; exact this
  · have := hI.inq t tk ht hph; simp; exact this
  · rename_i rest hqueue
    have := hI.inq t tk ht hph
    rw [hqueue] at this; simpa using this
  · rename_i t0 rest hqueue hlt0
    obtain ⟨a, ha, rfl⟩ := getElem?_modify_some ht
    by_cases he : t0 = t
    · subst he; simp at hph
    · simp only [he, if_false] at hph
      have := hI.inq t a ha hph
      rw [hqueue] at this
      simp at this
      rcases this with h1 | h1
      · exact absurd h1.symm he
      · exact h1

theorem TaskInv2_client_own {s s' : State} {i : Nat} {c : Client} {op : Op} {tmo : Bool}
    (hc : s.clients[i]? = some c) (hT : TaskInv s) (hI : TaskInv2 s) (h : clientStep s i c op tmo = some s') :
    ∀ (t : Nat) (tk : Task), s'.tasks[t]? = some tk → (tk.phase = .held ∨ tk.phase = .running) →
      ∃ (j : Nat) (wj : Worker), s'.workers[j]? = some wj ∧ wj.held = some t ∧ phaseOfPc wj.pc = some tk.phase := by
  unfold clientStep at h
  step_cases
  all_goals (
    intro t tk ht hph
    simp only [setClient, tdone, acq, rel, updTask, put, spawnWorker, apply_ite State.tasks, apply_ite State.workers,
      ite_self] at ht ⊢
    try (
      have ht' : s.tasks[t]? = some tk := ht
      obtain ⟨j, wj, h1, h2, h3⟩ := hI.own t tk ht' hph
      first
      | exact ⟨j, wj, h1, h2, h3⟩
      | exact ⟨j, wj, getElem?_append_some h1, h2, h3⟩
      | (split
         · exact ⟨j, wj, h1, h2, h3⟩
         · exact ⟨j, wj, getElem?_append_some h1, h2, h3⟩)))
  · -- callEnqueue
    rw [List.getElem?_append] at ht
    split at ht
    · exact hI.own t tk ht hph
    · have := List.mem_of_getElem? ht
      simp at this; subst this; simp at hph
  · obtain ⟨a, ha, rfl⟩ := getElem?_modify_some ht
    split at hph
    · simp at hph
    · rename_i he
      simp only [he, if_false]
      exact hI.own t a ha hph
  · obtain ⟨a, ha, rfl⟩ := getElem?_modify_some ht
    split at hph
    · simp at hph
    · rename_i he
      simp only [he, if_false]
      exact hI.own t a ha hph
  · obtain ⟨a, ha, rfl⟩ := getElem?_modify_some ht
    split at hph
    · simp at hph
    · rename_i he
      simp only [he, if_false]
      exact hI.own t a ha hph

/-! ### assembly -/

theorem TaskInv2_init (cfg : Config) (n : Nat) : TaskInv2 (init cfg n) := by
  refine ⟨?_, ?_⟩ <;> simp [init]

theorem TaskInv2_step {s s' : State} {a : Action} (hT : TaskInv s) (hI : TaskInv2 s) (h : step? s a = some s') :
    TaskInv2 s' := by
  unfold step? at h
  split at h
  · split at h
    · rename_i i w hw
      exact ⟨TaskInv2_worker_inq hw hT hI h, TaskInv2_worker_own hw hT hI h⟩
    · simp at h
  · split at h
    · rename_i i c hc
      exact ⟨TaskInv2_client_inq hc hT hI h, TaskInv2_client_own hc hT hI h⟩
    · simp at h

theorem TaskInv2_reach {cfg : Config} {n : Nat} {s : State} (hr : Reach (init cfg n) s) : TaskInv2 s := by
  refine Reach.induct (P := fun s => TaskInv s ∧ TaskInv2 s) ⟨TaskInv_init cfg n, TaskInv2_init cfg n⟩ ?_ s hr |>.2
  intro s a s' _ hI h
  exact ⟨TaskInv_step hI.1 h, TaskInv2_step hI.1 hI.2 h⟩

/-- What `unfinished_tasks = 0` means for the tasks: none is queued, held by a worker or running. -/
theorem unfinished_zero_tasks {cfg : Config} {n : Nat} {s : State} (hr : Reach (init cfg n) s) (hu : s.unfinished = 0)
    (t : Nat) (tk : Task) (ht : s.tasks[t]? = some tk) :
    tk.phase = .created ∨ tk.phase = .finished ∨ tk.phase = .dropped := by
  have hU := (BaseInv_reach hr).unf
  have h2 := TaskInv2_reach hr
  unfold UnfInv at hU
  rw [hu] at hU
  have hq : s.queue = [] := by
    cases hql : s.queue with
    | nil => rfl
    | cons x xs => rw [hql] at hU; simp at hU; omega
  have hw0 : s.workers.countP wHoldsItem = 0 := by omega
  cases hph : tk.phase with
  | created => simp
  | finished => simp
  | dropped => simp
  | queued =>
    have := h2.inq t tk ht hph
    rw [hq] at this; simp at this
  | held =>
    obtain ⟨j, wj, h1, _, h3⟩ := h2.own t tk ht (Or.inl hph)
    have hm := List.mem_of_getElem? h1
    have : wHoldsItem wj = true := by
      rw [hph] at h3
      unfold wHoldsItem; cases hpc : wj.pc <;> rw [hpc] at h3 <;> simp [phaseOfPc] at h3 ⊢
    have := List.countP_pos_iff.mpr ⟨wj, hm, this⟩
    omega
  | running =>
    obtain ⟨j, wj, h1, _, h3⟩ := h2.own t tk ht (Or.inr hph)
    have hm := List.mem_of_getElem? h1
    have : wHoldsItem wj = true := by
      rw [hph] at h3
      unfold wHoldsItem; cases hpc : wj.pc <;> rw [hpc] at h3 <;> simp [phaseOfPc] at h3 ⊢
    have := List.countP_pos_iff.mpr ⟨wj, hm, this⟩
    omega

end JRV.Pool
