/-
  JRV.Lemmas.Server — normal forms of the dispatcher model, shared by the property files C02–C05.

  `validateRequest`, `singleDispatch` and the per-entry step of the batch loop are written in the model
  with Python's raising primitives (`"k" in v`, `v.get`, `v["id"]`, …).  Here each is shown equal to a
  primitive-free normal form (`validateNF`, `singleNF`, `entryNF`): the raising branches are proved
  unreachable once, and the property theorems work on the normal forms.
-/
import JRV.Model.Server

set_option linter.unusedSimpArgs false
set_option linter.unusedVariables false

namespace JRV.Server
open JRV PyVal Callable Payload

/- ---------- validate_request ---------- -/

/-- Outcome of validation without the monad: a fault, or the fields of the (completed) request. -/
inductive ValidNF where
  | fault (f : Fault)
  | valid (kvs : List (PyVal × PyVal)) (m : String) (params : PyVal)

/-- The request dictionary after `setdefault("params", [])`. -/
def withParams (kvs : List (PyVal × PyVal)) : List (PyVal × PyVal) :=
  if hasKeyStr "params" kvs then kvs else kvs ++ [(.str "params", .list [])]

def checkNF (kvs : List (PyVal × PyVal)) (rpcid : PyVal) : PyVal → PyVal → ValidNF
  | .str m, p =>
    if m ≠ "" ∧ isParamType p = true then .valid kvs m p
    else .fault (invalidFault msgBadMethodOrParams rpcid)
  | _, _ => .fault (invalidFault msgBadMethodOrParams rpcid)

def validateNF : PyVal → ValidNF
  | .dict kvs =>
    let rpcid := (lookupStr "id" kvs).getD .none
    if hasKeyStr "jsonrpc" kvs = false ∧ hasKeyStr "id" kvs = false then
      .fault (invalidFault msgNoVersion rpcid)
    else
      checkNF (withParams kvs) rpcid ((lookupStr "method" (withParams kvs)).getD .none)
        ((lookupStr "params" (withParams kvs)).getD .none)
  | v => .fault (invalidFault (msgNotDict v.typeName))

def ValidNF.toValidation : ValidNF → Validation
  | .fault f => .fault f
  | .valid kvs _ _ => .valid (.dict kvs)

theorem checkMethodParams_eq (kvs : List (PyVal × PyVal)) (method params rpcid : PyVal) :
    checkMethodParams (.dict kvs) method params rpcid = (checkNF kvs rpcid method params).toValidation := by
  cases method <;> simp [checkMethodParams, checkNF, truthy, isStr, ValidNF.toValidation]
  rename_i s
  by_cases hs : s = "" <;> cases hp : isParamType params <;> simp [hs, hp, ValidNF.toValidation]

theorem validateRequest_eq (e : PyVal) : validateRequest e = .ok (validateNF e).toValidation := by
  cases e with
  | dict kvs =>
    simp only [validateRequest, validateNF, isDict, Bool.not_true, Bool.false_eq_true, ↓reduceIte,
      dictGet, getVersion, containsStr, setDefault, Bind.bind, Except.bind, pure, Except.pure]
    by_cases hj : hasKeyStr "jsonrpc" kvs = true
    · simp only [hj, ↓reduceIte, Option.isNone_some, Bool.false_eq_true, false_and, withParams]
      by_cases hp : hasKeyStr "params" kvs = true <;>
        simp only [hp, ↓reduceIte, Bool.false_eq_true, checkMethodParams_eq] <;> simp
    · have hj' : hasKeyStr "jsonrpc" kvs = false := by simpa using hj
      by_cases hi : hasKeyStr "id" kvs = true
      · simp only [hj', hi, ↓reduceIte, Bool.false_eq_true, Option.isNone_some, and_false, withParams]
        by_cases hp : hasKeyStr "params" kvs = true <;>
          simp only [hp, ↓reduceIte, Bool.false_eq_true, checkMethodParams_eq] <;> simp
      · have hi' : hasKeyStr "id" kvs = false := by simpa using hi
        simp [hj', hi', ValidNF.toValidation]
  | _ => simp [validateRequest, validateNF, isDict, ValidNF.toValidation, Bind.bind, Except.bind, pure, Except.pure]

/- ---------- dictionary lemmas ---------- -/

theorem lookupStr_append (k : String) (a b : List (PyVal × PyVal)) :
    lookupStr k (a ++ b) = (lookupStr k a).orElse (fun _ => lookupStr k b) := by
  induction a with
  | nil => simp [lookupStr]
  | cons x xs ih =>
    obtain ⟨key, v⟩ := x
    cases key <;> simp [lookupStr, ih]
    split <;> simp

theorem lookupStr_withParams (k : String) (hk : k ≠ "params") (kvs : List (PyVal × PyVal)) :
    lookupStr k (withParams kvs) = lookupStr k kvs := by
  unfold withParams
  split
  · rfl
  · rw [lookupStr_append]
    cases lookupStr k kvs <;> simp [lookupStr, Option.orElse]
    intro h; exact absurd h.symm hk

theorem hasKeyStr_withParams (k : String) (hk : k ≠ "params") (kvs : List (PyVal × PyVal)) :
    hasKeyStr k (withParams kvs) = hasKeyStr k kvs := by
  simp [hasKeyStr, lookupStr_withParams k hk]

theorem lookup_of_getD_str {o : Option PyVal} {m : String} (h : o.getD .none = .str m) : o = some (.str m) := by
  cases o <;> simp_all

theorem lookup_of_getD_param {o : Option PyVal} {p : PyVal} (h : o.getD .none = p) (hp : isParamType p = true) :
    o = some p := by
  cases o with
  | some x => simp_all
  | none =>
    simp only [Option.getD_none] at h
    subst h
    simp [isParamType, isList, isDict, isTuple] at hp

/-- What a `valid` verdict guarantees. -/
theorem validateNF_valid {e : PyVal} {kvs' : List (PyVal × PyVal)} {m : String} {p : PyVal}
    (h : validateNF e = .valid kvs' m p) :
    ∃ kvs, e = .dict kvs ∧ kvs' = withParams kvs ∧
      lookupStr "method" kvs' = some (.str m) ∧ lookupStr "params" kvs' = some p ∧
      m ≠ "" ∧ isParamType p = true ∧ (hasKeyStr "jsonrpc" kvs = true ∨ hasKeyStr "id" kvs = true) := by
  cases e <;> simp only [validateNF] at h <;> try (exact absurd h (by simp))
  rename_i kvs
  refine ⟨kvs, rfl, ?_⟩
  split at h
  · exact absurd h (by simp)
  · rename_i hv
    generalize hmeth : (lookupStr "method" (withParams kvs)).getD PyVal.none = method at h
    generalize hpar : (lookupStr "params" (withParams kvs)).getD PyVal.none = params at h
    cases method with
    | str s =>
      simp only [checkNF] at h
      split at h
      · rename_i hc
        injection h with h1 h2 h3
        subst h1; subst h2; subst h3
        refine ⟨rfl, lookup_of_getD_str hmeth, lookup_of_getD_param hpar hc.2, hc.1, hc.2, ?_⟩
        by_cases hj : hasKeyStr "jsonrpc" kvs = true
        · exact Or.inl hj
        · right
          by_cases hi : hasKeyStr "id" kvs = true
          · exact hi
          · exact absurd ⟨by simpa using hj, by simpa using hi⟩ hv
      · simp at h
    | _ => simp [checkNF] at h

/-- What a `fault` verdict looks like: code −32600, a string message, the id of the entry if it is an object. -/
def entryId : PyVal → PyVal
  | .dict kvs => (lookupStr "id" kvs).getD .none
  | _ => .none

theorem validateNF_fault {e : PyVal} {f : Fault} (h : validateNF e = .fault f) :
    f.code = .int codeInvalid ∧ (∃ msg, f.message = .str msg) ∧ f.rpcid = entryId e ∧ f.data = .none := by
  cases e <;> simp only [validateNF] at h <;>
    try (injection h with h; subst h; simp [invalidFault, entryId])
  rename_i kvs
  split at h
  · injection h with h; subst h; simp [invalidFault, entryId]
  · generalize (lookupStr "method" (withParams kvs)).getD PyVal.none = method at h
    generalize (lookupStr "params" (withParams kvs)).getD PyVal.none = params at h
    cases method with
    | str s =>
      simp only [checkNF] at h
      split at h
      · simp at h
      · injection h with h; subst h; simp [invalidFault, entryId]
    | _ => simp only [checkNF] at h; injection h with h; subst h; simp [invalidFault, entryId]

/- ---------- _marshaled_single_dispatch ---------- -/

/-- The notification test on a dictionary. -/
def notifNF (kvs : List (PyVal × PyVal)) : Bool :=
  match lookupStr "id" kvs with
  | Option.none => true
  | some i => notifIds.any (pyEq i)

/-- The response dictionary built from what the dispatcher did (the two `except Exception` paths and
    the two kinds of `_dispatch` result). -/
def respOf (s : Server) (config : Config) (rid : PyVal) : PyM DispResult → PyVal
  | .error ex => faultDump config (internalFault ex rid)
  | .ok resp =>
    match buildResponse s config rid resp with
    | .ok d => d
    | .error ex => faultDump config (internalFault ex rid)

/-- `_marshaled_single_dispatch` on a validated request, without raising primitives. -/
def singleNF (s : Server) (kvs : List (PyVal × PyVal)) (m : String) (params : PyVal) :
    PyM (Option PyVal) × List Effect :=
  let config := requestConfig s.cfg (hasKeyStr "jsonrpc" kvs)
  let rid := (lookupStr "id" kvs).getD .none
  match notifNF kvs, s.pool with
  | true, .accepting => (.ok Option.none, [.enqueue s.custom.isSome (.str m) params config.version])
  | true, .full => (raise "Full", [])
  | notif, _ =>
    let r := runDispatcher s (.str m) params
    if notif then (.ok Option.none, r.2) else (.ok (some (respOf s config rid r.1)), r.2)

theorem isNotification_dict (kvs : List (PyVal × PyVal)) : isNotification (.dict kvs) = .ok (notifNF kvs) := by
  simp only [isNotification, containsStr, hasKeyStr, notifNF, subscriptStr, Bind.bind, Except.bind, pure, Except.pure]
  cases lookupStr "id" kvs <;> simp

theorem singleDispatch_eq (s : Server) (kvs : List (PyVal × PyVal)) (m : String) (p : PyVal)
    (hm : lookupStr "method" kvs = some (.str m)) (hp : lookupStr "params" kvs = some p) :
    singleDispatch s (.dict kvs) = singleNF s kvs m p := by
  simp only [singleDispatch, singleNF, dictGet, hm, hp, Option.getD_some, containsStr, pure, Except.pure,
    isNotification_dict, isStr, Bool.not_true, Bool.and_false, Bool.false_eq_true, ↓reduceIte]
  cases hn : notifNF kvs <;> cases hpool : s.pool <;> simp only []
  all_goals
    rcases hr : runDispatcher s (.str m) p with ⟨r, eff⟩
    cases r <;> simp [respOf]
  all_goals
    simp only [notifNF] at hn
    cases hid : lookupStr "id" kvs with
    | none => simp [hid] at hn
    | some i =>
      simp only [subscriptStr, hid, pure, Except.pure, Option.getD_some]
      cases buildResponse s _ i _ <;> simp

/- ---------- one entry ---------- -/

/-- What the batch loop (and the single-call branch) does with one entry: validate, then answer the
    fault or dispatch. -/
def entryStep (s : Server) (e : PyVal) : PyM (Option PyVal) × List Effect :=
  match validateRequest e with
  | .error ex => (.error ex, [])
  | .ok (.fault f) => (.ok (some (faultDump s.cfg f)), [])
  | .ok (.valid e') => singleDispatch s e'

def entryNF (s : Server) (e : PyVal) : PyM (Option PyVal) × List Effect :=
  match validateNF e with
  | .fault f => (.ok (some (faultDump s.cfg f)), [])
  | .valid kvs m p => singleNF s kvs m p

theorem entryStep_eq (s : Server) (e : PyVal) : entryStep s e = entryNF s e := by
  simp only [entryStep, entryNF, validateRequest_eq]
  cases h : validateNF e with
  | fault f => simp [ValidNF.toValidation]
  | valid kvs m p =>
    obtain ⟨kvs0, _, _, hm, hp, _⟩ := validateNF_valid h
    simp [ValidNF.toValidation, singleDispatch_eq s kvs m p hm hp]

/-- The response object an entry gets (`none`: no response). -/
def respond (s : Server) (e : PyVal) : Option PyVal :=
  match (entryNF s e).1 with
  | .ok r => r
  | .error _ => Option.none

/-- The effects an entry causes. -/
def entryEffects (s : Server) (e : PyVal) : List Effect := (entryNF s e).2

theorem singleNF_ok (s : Server) (hpool : s.pool ≠ .full) (kvs : List (PyVal × PyVal)) (m : String) (p : PyVal) :
    ∃ r, (singleNF s kvs m p).1 = .ok r := by
  simp only [singleNF]
  cases notifNF kvs <;> cases hp : s.pool <;> simp_all
  all_goals split <;> simp

theorem entryNF_ok (s : Server) (hpool : s.pool ≠ .full) (e : PyVal) :
    entryNF s e = (.ok (respond s e), entryEffects s e) := by
  have : ∃ r, (entryNF s e).1 = .ok r := by
    simp only [entryNF]
    cases validateNF e with
    | fault f => exact ⟨_, rfl⟩
    | valid kvs m p => exact singleNF_ok s hpool kvs m p
  obtain ⟨r, hr⟩ := this
  simp only [respond, entryEffects, hr]
  rw [← hr]

/- ---------- the batch loop ---------- -/

theorem batchLoop_cons (s : Server) (acc : List PyVal) (e : PyVal) (rest : List PyVal) :
    batchLoop s acc (e :: rest) =
      match entryStep s e with
      | (.error ex, eff) => (.error ex, eff)
      | (.ok Option.none, eff) => ((batchLoop s acc rest).1, eff ++ (batchLoop s acc rest).2)
      | (.ok (some d), eff) => ((batchLoop s (acc ++ [d]) rest).1, eff ++ (batchLoop s (acc ++ [d]) rest).2) := by
  simp only [batchLoop, entryStep]
  cases validateRequest e with
  | error ex => rfl
  | ok v =>
    cases v with
    | fault f => simp
    | valid e' =>
      simp only []
      rcases singleDispatch s e' with ⟨r, eff⟩
      cases r with
      | error ex => rfl
      | ok o => cases o <;> rfl

/-- The accumulator loop computes `filterMap respond` in entry order, and its effect log is the
    concatenation of the entries' logs in entry order. -/
theorem batchLoop_eq (s : Server) (hpool : s.pool ≠ .full) (entries : List PyVal) (acc : List PyVal) :
    batchLoop s acc entries =
      (.ok (acc ++ entries.filterMap (respond s)), entries.flatMap (entryEffects s)) := by
  induction entries generalizing acc with
  | nil => simp [batchLoop]
  | cons e rest ih =>
    rw [batchLoop_cons, entryStep_eq, entryNF_ok s hpool e]
    cases hr : respond s e with
    | none => simp [ih, hr]
    | some d => simp [ih, hr]

/- ---------- _unmarshaled_dispatch / _marshaled_dispatch ---------- -/

theorem unmarshaled_single (s : Server) (e : PyVal) (ht : e.truthy = true) (hl : e.isList = false) :
    unmarshaledDispatch s e = entryStep s e := by
  cases e <;> simp_all [unmarshaledDispatch, entryStep, isList]
  all_goals (split <;> simp_all)

theorem unmarshaled_batch (s : Server) (hpool : s.pool ≠ .full) (entries : List PyVal) (hne : entries ≠ []) :
    unmarshaledDispatch s (.list entries) =
      (if (entries.filterMap (respond s)).isEmpty then raise "NoMulticallResult" (.str "No result")
       else .ok (some (.list (entries.filterMap (respond s)))), entries.flatMap (entryEffects s)) := by
  have ht : (PyVal.list entries).truthy = true := by cases entries <;> simp_all [truthy]
  simp only [unmarshaledDispatch, ht, Bool.not_true, Bool.false_eq_true, ↓reduceIte, batchLoop_eq s hpool,
    List.nil_append]
  split <;> simp_all

/-- The two forms of an error object (no `data`). -/
theorem error_v2 (ver : Nat) (h : ver ≥ 20) (rid c m : PyVal) :
    Payload.error ver rid c m .none =
      .dict [(.str "id", rid), (.str "jsonrpc", .str (verStr ver)),
             (.str "error", .dict [(.str "code", c), (.str "message", m)])] := by
  simp [Payload.error, Payload.response, Payload.dataEntry, h, setStr, delStr]

theorem error_v1 (ver : Nat) (h : ver < 20) (rid c m : PyVal) :
    Payload.error ver rid c m .none =
      .dict [(.str "result", .none), (.str "id", rid),
             (.str "error", .dict [(.str "code", c), (.str "message", m)])] := by
  have h' : ¬ ver ≥ 20 := by omega
  simp [Payload.error, Payload.response, Payload.dataEntry, h', setStr, delStr]

theorem response_v2 (ver : Nat) (h : ver ≥ 20) (rid r : PyVal) :
    Payload.response ver rid r =
      .dict [(.str "result", r), (.str "id", rid), (.str "jsonrpc", .str (verStr ver))] := by
  simp [Payload.response, h]

theorem response_v1 (ver : Nat) (h : ver < 20) (rid r : PyVal) :
    Payload.response ver rid r =
      .dict [(.str "result", r), (.str "id", rid), (.str "error", .none)] := by
  have h' : ¬ ver ≥ 20 := by omega
  simp [Payload.response, h']

/- ---------- per-response serialisation (`_safe_jdumps`) ---------- -/

/-- `response.get("id")` on a response object. -/
def respId : PyVal → PyVal
  | .dict kvs => (lookupStr "id" kvs).getD .none
  | _ => .none

/-- `"jsonrpc" in response` on a response object. -/
def respHasJsonrpc : PyVal → Bool
  | .dict kvs => hasKeyStr "jsonrpc" kvs
  | _ => false

/-- The id a replaced response keeps: the id itself when `jdumps` accepts it on its own, else `null`. -/
def keptId (rid : PyVal) : PyVal := if serialisable rid then rid else .none

/-- The −32603 response that stands in for a response object which `jdumps` rejects: same form
    (2.0 when the response has a `jsonrpc` member, else 1.0), the kept id. -/
def replacement (d : PyVal) : PyVal :=
  Payload.error (if respHasJsonrpc d then 20 else 10) (keptId (respId d)) (.int codeInternal) (.str msgSerialize) .none

/-- What is sent for the response object `d`: `d`, or its replacement when it cannot be serialised. -/
def sent (d : PyVal) : PyVal := if serialisable d then d else replacement d

/-- The last step of `_marshaled_dispatch`: `jdumps(response)`, and when that fails every response is
    serialised on its own (`_safe_jdumps`). -/
def finalReply (s : Server) (response : PyVal) : Reply :=
  if serialisable response then .doc response
  else match response with
    | .list rs => .doc (.list (rs.map sent))
    | d => .doc (sent d)

theorem serialisable_list (xs : List PyVal) : serialisable (.list xs) = xs.all serialisable := by
  simp only [serialisable]
  induction xs with
  | nil => rfl
  | cons x rest ih => simp [serialisableList, ih]

theorem serialisableKVs_lookup (k : String) (kvs : List (PyVal × PyVal)) (v : PyVal)
    (h : serialisableKVs kvs = true) (hl : lookupStr k kvs = some v) : serialisable v = true := by
  induction kvs with
  | nil => simp [lookupStr] at hl
  | cons kv rest ih =>
    obtain ⟨key, w⟩ := kv
    simp only [serialisableKVs, Bool.and_eq_true] at h
    cases key <;> simp only [lookupStr] at hl <;> try exact ih h.2 hl
    split at hl
    · injection hl with hl; subst hl; exact h.1.2
    · exact ih h.2 hl

theorem serialisable_keptId (rid : PyVal) : serialisable (keptId rid) = true := by
  unfold keptId
  split
  · assumption
  · rfl

theorem serialisable_error (ver : Nat) (rid : PyVal) (c : Int) (m : String) (h : serialisable rid = true) :
    serialisable (Payload.error ver rid (.int c) (.str m) .none) = true := by
  by_cases hv : ver ≥ 20
  · rw [error_v2 _ hv]; simp [serialisable, serialisableKVs, jsonKey, h]
  · rw [error_v1 _ (by omega)]; simp [serialisable, serialisableKVs, jsonKey, h]

theorem serialisable_replacement (d : PyVal) : serialisable (replacement d) = true :=
  serialisable_error _ _ _ _ (serialisable_keptId _)

theorem serialisable_sent (d : PyVal) : serialisable (sent d) = true := by
  unfold sent
  split
  · assumption
  · exact serialisable_replacement d

theorem msgExc_serialize : msgExc "TypeError" "<not JSON serializable>" = msgSerialize := by decide

/-- `_safe_jdumps` on a dictionary never raises and sends `sent`. -/
theorem safeJdumps_dict (kvs : List (PyVal × PyVal)) : safeJdumps (.dict kvs) = .ok (sent (.dict kvs)) := by
  by_cases hs : serialisable (.dict kvs) = true
  · simp [safeJdumps, jdumps, hs, sent, pure, Except.pure]
  · have hs' : serialisable (.dict kvs) = false := by simpa using hs
    simp only [safeJdumps, jdumps, hs', Bool.false_eq_true, ↓reduceIte, raise, dictGet, pure, Except.pure,
      containsStr, faultResponseAs, internalFault, errText, msgExc_serialize, sent, replacement, respHasJsonrpc,
      respId, keptId]
    by_cases hr : serialisable ((lookupStr "id" kvs).getD PyVal.none) = true
    · simp [hr, serialisable_error _ _ _ _ hr] <;> rfl
    · simp [hr, serialisable_error _ PyVal.none _ _ (by rfl)] <;> rfl

theorem safeJdumpsAll_dicts (rs : List PyVal) (h : ∀ d ∈ rs, ∃ kvs, d = .dict kvs) :
    safeJdumpsAll rs = .ok (rs.map sent) := by
  induction rs with
  | nil => rfl
  | cons r rest ih =>
    obtain ⟨kvs, hr⟩ := h r (by simp)
    subst hr
    have := ih (fun d hd => h d (by simp [hd]))
    simp [safeJdumpsAll, safeJdumps_dict, this, pure, Except.pure]

theorem map_sent_of_serialisable (rs : List PyVal) (h : serialisable (.list rs) = true) : rs.map sent = rs := by
  rw [serialisable_list] at h
  induction rs with
  | nil => rfl
  | cons r rest ih =>
    simp only [List.all_cons, Bool.and_eq_true] at h
    simp [sent, h.1, ih h.2]

/-- The reply array: every response object replaced individually (the identity on the serialisable ones). -/
theorem finalReply_list (s : Server) (rs : List PyVal) : finalReply s (.list rs) = .doc (.list (rs.map sent)) := by
  unfold finalReply
  split
  · rename_i h; rw [map_sent_of_serialisable rs h]
  · rfl

theorem finalReply_dict (s : Server) (kvs : List (PyVal × PyVal)) :
    finalReply s (.dict kvs) = .doc (sent (.dict kvs)) := by
  unfold finalReply
  split
  · rename_i h; simp [sent, h]
  · rfl

/- ---------- shape of response objects ---------- -/

/-- A response dictionary of the version `ver` for the id `rid`: a result or an error object with an
    integer code and a string message. -/
inductive RespShape (ver : Nat) (rid : PyVal) : PyVal → Prop where
  | result (r : PyVal) : RespShape ver rid (Payload.response ver rid r)
  | error (c : Int) (m : String) : RespShape ver rid (Payload.error ver rid (.int c) (.str m) .none)

theorem buildResponse_shape (s : Server) (config : Config) (rid : PyVal) (resp : DispResult) (d : PyVal)
    (h : buildResponse s config rid resp = .ok d) : RespShape config.version rid d := by
  cases resp with
  | value v =>
    simp only [buildResponse, Payload.dump, resolveVersion, isStr, Bool.false_and, Bool.false_eq_true,
      ↓reduceIte, Bool.not_false, Bool.not_true, Bool.and_false, Bind.bind, Except.bind, pure, Except.pure] at h
    cases v <;> simp only [] at h
    all_goals
      repeat' (split at h)
      all_goals first
        | (injection h with h; subst h; exact RespShape.result _)
        | (simp [raise] at h; done)
  | fault c m =>
    simp only [buildResponse, Payload.dump, resolveVersion, isStr, Bool.false_and, Bool.false_eq_true,
      ↓reduceIte, Bind.bind, Except.bind, pure, Except.pure] at h
    injection h with h
    subst h
    exact RespShape.error c m

theorem faultDump_shape (config : Config) (e : PyErr) (rid : PyVal) :
    RespShape config.version rid (faultDump config (internalFault e rid)) := by
  simp only [faultDump, internalFault]
  exact RespShape.error _ _

theorem respOf_shape (s : Server) (config : Config) (rid : PyVal) (r : PyM DispResult) :
    RespShape config.version rid (respOf s config rid r) := by
  cases r with
  | error ex => exact faultDump_shape config ex rid
  | ok resp =>
    simp only [respOf]
    cases h : buildResponse s config rid resp with
    | ok d => exact buildResponse_shape s config rid resp d h
    | error ex => exact faultDump_shape config ex rid

/-- Every response object is, for some version `ver` among the server's and 1.0, of the shape above
    with the id of its entry. -/
theorem respond_shape (s : Server) (e : PyVal) (d : PyVal) (h : respond s e = some d) :
    ∃ ver, (ver = s.cfg.version ∨ (ver = 10 ∧ s.cfg.version ≥ 20)) ∧ RespShape ver (entryId e) d := by
  simp only [respond, entryNF] at h
  cases hv : validateNF e with
  | fault f =>
    obtain ⟨hc, ⟨msg, hm⟩, hid, hd⟩ := validateNF_fault hv
    simp only [hv] at h
    injection h with h
    subst h
    refine ⟨s.cfg.version, Or.inl rfl, ?_⟩
    simp only [faultDump, hc, hm, hid, hd]
    exact RespShape.error _ _
  | valid kvs m p =>
    obtain ⟨kvs0, he, hk, _, _, _, _, _⟩ := validateNF_valid hv
    simp only [hv, singleNF] at h
    have hid : (lookupStr "id" kvs).getD PyVal.none = entryId e := by
      subst he; subst hk
      simp [entryId, lookupStr_withParams "id" (by decide)]
    refine ⟨(requestConfig s.cfg (hasKeyStr "jsonrpc" kvs)).version, ?_, ?_⟩
    · simp only [requestConfig]
      split
      · rename_i hc; exact Or.inr ⟨rfl, hc.2⟩
      · exact Or.inl rfl
    · rw [← hid]
      cases hn : notifNF kvs <;> cases hp : s.pool <;> simp [hn, hp, raise] at h
      all_goals (subst h; exact respOf_shape _ _ _ _)

theorem shape_dict {ver : Nat} {rid d : PyVal} (h : RespShape ver rid d) : ∃ kvs, d = .dict kvs := by
  cases h with
  | result r => simp only [Payload.response]; split <;> exact ⟨_, rfl⟩
  | error c m =>
    by_cases hv : ver ≥ 20
    · exact ⟨_, error_v2 ver hv rid _ _⟩
    · exact ⟨_, error_v1 ver (by omega) rid _ _⟩

/-- Every response object is a dictionary (so `response.get("id")` in `_safe_jdumps` cannot raise). -/
theorem respond_dict (s : Server) (e d : PyVal) (h : respond s e = some d) : ∃ kvs, d = .dict kvs := by
  obtain ⟨ver, _, hs⟩ := respond_shape s e d h
  exact shape_dict hs

theorem serialisable_faultDump_noid (cfg : Config) (c : Int) (m : String) :
    serialisable (faultDump cfg { code := .int c, message := .str m }) = true := by
  simp only [faultDump]
  by_cases h : cfg.version ≥ 20
  · rw [error_v2 _ h]; simp [serialisable, serialisableKVs, jsonKey]
  · rw [error_v1 _ (by omega)]; simp [serialisable, serialisableKVs, jsonKey]

theorem faultResponse_ok (cfg : Config) (c : Int) (m : String) :
    faultResponse cfg { code := .int c, message := .str m } = .ok (faultDump cfg { code := .int c, message := .str m }) := by
  simp [faultResponse, jdumps, serialisable_faultDump_noid, pure, Except.pure]

theorem marshaled_parseError (s : Server) :
    marshaledDispatch s .parseError =
      (.ok (.doc (faultDump s.cfg { code := .int codeParse, message := .str msgParse })), []) := by
  simp [marshaledDispatch, faultResponse_ok, Except.map]

theorem marshaled_falsy (s : Server) (e : PyVal) (hf : e.truthy = false) :
    marshaledDispatch s (.parsed e) = (.ok (.doc (faultDump s.cfg (invalidFault msgNoData))), []) := by
  simp [marshaledDispatch, unmarshaledDispatch, hf, jdumps, invalidFault, serialisable_faultDump_noid,
    pure, Except.pure]

theorem marshaled_single (s : Server) (hpool : s.pool ≠ .full) (e : PyVal)
    (ht : e.truthy = true) (hl : e.isList = false) :
    marshaledDispatch s (.parsed e) =
      (.ok (match respond s e with
            | Option.none => .empty
            | some d => finalReply s d), entryEffects s e) := by
  simp only [marshaledDispatch, unmarshaled_single s e ht hl, entryStep_eq, entryNF_ok s hpool e]
  cases hr : respond s e with
  | none => rfl
  | some d =>
    obtain ⟨kvs, hd⟩ := respond_dict s e d hr
    subst hd
    by_cases hs : serialisable (.dict kvs) = true
    · simp [jdumps, finalReply, hs, raise, pure, Except.pure]
    · simp [jdumps, finalReply, hs, raise, pure, Except.pure, safeJdumps_dict, Except.map]

theorem marshaled_batch (s : Server) (hpool : s.pool ≠ .full) (entries : List PyVal) (hne : entries ≠ []) :
    marshaledDispatch s (.parsed (.list entries)) =
      (.ok (if (entries.filterMap (respond s)).isEmpty then .empty
            else finalReply s (.list (entries.filterMap (respond s)))), entries.flatMap (entryEffects s)) := by
  simp only [marshaledDispatch, unmarshaled_batch s hpool entries hne]
  by_cases h : (entries.filterMap (respond s)).isEmpty = true
  · simp [h, raise]
  · have hd : ∀ d ∈ entries.filterMap (respond s), ∃ kvs, d = PyVal.dict kvs := by
      intro d hd
      obtain ⟨e, _, he⟩ := List.mem_filterMap.mp hd
      exact respond_dict s e d he
    by_cases hs : serialisable (.list (entries.filterMap (respond s))) = true
    · simp [h, jdumps, finalReply, hs, raise, pure, Except.pure]
    · simp [h, jdumps, finalReply, hs, raise, pure, Except.pure, safeJdumpsAll_dicts _ hd, Except.map]

/- ---------- what the property text calls a well-formed request / a notification ---------- -/

/-- A structurally valid request entry: an object with a version marker (`jsonrpc` or `id`), a
    non-empty string `method`, and `params` absent or a list / dict (a tuple can only come from class
    translation and is accepted by the code). -/
def wfRequest : PyVal → Bool
  | .dict kvs =>
    (hasKeyStr "jsonrpc" kvs || hasKeyStr "id" kvs) &&
    (match lookupStr "method" kvs with | some (.str m) => m != "" | _ => false) &&
    (match lookupStr "params" kvs with | Option.none => true | some p => isParamType p)
  | _ => false

/-- The id is absent, null or the empty string. -/
def idIsNotification : PyVal → Bool
  | .dict kvs =>
    match lookupStr "id" kvs with
    | Option.none => true
    | some .none => true
    | some (.str s) => s == ""
    | _ => false
  | _ => false

/-- "A well-formed request whose id is absent, null or empty". -/
def wfNotification (e : PyVal) : Bool := wfRequest e && idIsNotification e


theorem notif_iff (i : PyVal) : notifIds.any (pyEq i) = true ↔ (i = .none ∨ i = .str "") := by
  cases i <;> simp [notifIds, pyEq, numEq, asInt?]

theorem lookup_params_withParams (kvs : List (PyVal × PyVal)) :
    lookupStr "params" (withParams kvs) =
      (match lookupStr "params" kvs with | Option.none => some (.list []) | some p => some p) := by
  unfold withParams
  cases h : lookupStr "params" kvs with
  | none => simp [hasKeyStr, h, lookupStr_append, lookupStr, Option.orElse]
  | some p => simp [hasKeyStr, h]

/-- Validation accepts exactly the well-formed requests. -/
theorem valid_iff_wfRequest (e : PyVal) :
    (∃ kvs m p, validateNF e = .valid kvs m p) ↔ wfRequest e = true := by
  cases e <;> try (simp [validateNF, wfRequest]; done)
  rename_i kvs
  simp only [validateNF, wfRequest, lookupStr_withParams "method" (by decide), lookup_params_withParams]
  by_cases hj : hasKeyStr "jsonrpc" kvs = true <;> by_cases hi : hasKeyStr "id" kvs = true <;>
    simp [hj, hi] <;>
    (cases hm : lookupStr "method" kvs with
     | none => simp [checkNF]
     | some mv =>
       cases mv <;> simp [checkNF] <;>
       (cases hp : lookupStr "params" kvs with
        | none => simp [isParamType, isList]; split <;> simp_all
        | some pv => simp; split <;> simp_all))

theorem valid_notif (e : PyVal) (kvs : List (PyVal × PyVal)) (m : String) (p : PyVal)
    (hv : validateNF e = .valid kvs m p) : notifNF kvs = idIsNotification e := by
  obtain ⟨kvs0, he, hk, _⟩ := validateNF_valid hv
  subst he; subst hk
  simp only [notifNF, idIsNotification, lookupStr_withParams "id" (by decide)]
  cases h : lookupStr "id" kvs0 with
  | none => rfl
  | some i =>
    simp only []
    have := notif_iff i
    cases i <;> simp_all [notifIds, pyEq, numEq, asInt?]


end JRV.Server
