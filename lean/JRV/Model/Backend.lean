/-
  JRV.Model.Backend — the JSON text layer, abstract.

  `json.dumps` / `json.loads` are CPython, not this repository.  A `Backend` is any pair of a
  renderer and a parser; the laws the library relies on are *fields* of the structure
  (hypotheses of every theorem that mentions a backend, never axioms).  The harness tests the
  laws against the real backend on every run (trusted base: "JSON codec laws tested, not proved").

  `wfJson v`: `v` is JSON-serialisable — null, bool, int, finite float, str, list/tuple of such,
  dict whose keys are distinct strings and whose values are such.
-/
import JRV.Model.Json

namespace JRV
open PyVal

mutual
  def PyVal.distinctKeys : PyVal → Bool
    | .list xs => distinctKeysList xs
    | .tuple xs => distinctKeysList xs
    | .dict kvs => distinctKeysKVs kvs [] 
    | _ => true
  def PyVal.distinctKeysList : List PyVal → Bool
    | [] => true
    | x :: xs => distinctKeys x && distinctKeysList xs
  /-- `seen` accumulates the string keys met so far at this level. -/
  def PyVal.distinctKeysKVs : List (PyVal × PyVal) → List String → Bool
    | [], _ => true
    | (.str k, v) :: rest, seen => !seen.contains k && distinctKeys v && distinctKeysKVs rest (k :: seen)
    | (_, v) :: rest, seen => distinctKeys v && distinctKeysKVs rest seen
end

/-- JSON-serialisable and free of duplicate keys (what a Python value built from dict/list/scalars is). -/
def PyVal.wfJson (v : PyVal) : Bool := v.isJson && v.distinctKeys

/-- A JSON text codec with the two laws the library relies on. -/
structure Backend where
  /-- `jdumps(obj)`: raises `TypeError` on values it cannot serialise. -/
  render : PyVal → PyM String
  /-- `jloads(text)`: `none` when the text is rejected. -/
  parse : String → Option PyVal
  /-- A serialisable value renders, to a non-empty text, and parses back to its normal form. -/
  roundtrip : ∀ v, v.wfJson = true → ∃ s, render v = .ok s ∧ s ≠ "" ∧ parse s = some v.normalise
  /-- The text MultiCall builds from rendered requests parses to the list of their normal forms. -/
  batch : ∀ (vs : List PyVal) (ss : List String), vs.length = ss.length →
    (∀ i (h : i < vs.length) (h' : i < ss.length), (vs[i]).wfJson = true ∧ render vs[i] = .ok ss[i]) →
    parse ("[ " ++ ",".intercalate ss ++ " ]") = some (.list (vs.map normalise))

end JRV
