/-
  JRV.Model.ByteBody — a request body as BYTES, as far as the text layer decides what becomes of it.

  The HTTP handler turns the bytes it has read into the text it hands to the dispatcher with
  `utils.from_bytes` — `str(data, "UTF-8")`: the strict UTF-8 codec, which keeps a leading U+FEFF
  (`Wire.fromBytes`; extracted fact `fromBytesCodec`) — and the dispatcher parses that text
  (`JsonText.verdict`).  So a body is one of

    undecodable   not valid UTF-8: `from_bytes` raises inside the `try` of `do_POST` (HTTP 500 carrying a
                  fault; the dispatcher is not called);
    malformed     valid UTF-8 whose text RFC 8259 rejects — a byte-order mark in front, UTF-16 / UTF-32
                  bytes of an ASCII request (they are valid UTF-8: ASCII with NUL between), NUL, … — the
                  dispatcher answers the single −32700 error object and invokes nothing;
    wellFormed    valid UTF-8 of a JSON text: the dispatcher goes on with the parsed value.
-/
import JRV.Model.Wire
import JRV.Model.JsonText

namespace JRV.ByteBody
open JRV JRV.Wire

inductive BodyVerdict where
  | undecodable
  | malformed
  | wellFormed
deriving Repr, DecidableEq, Inhabited

/-- What the text layer makes of the bytes of a body: decode (strict UTF-8, nothing dropped), then parse. -/
def bodyVerdict (b : Bytes) : BodyVerdict :=
  match fromBytes b with
  | .error _ => .undecodable
  | .ok s =>
    match JsonText.verdict s.toList with
    | .wellFormed => .wellFormed
    | .malformed => .malformed

/-- The characters a JSON text can start with: white space, `"`, `[`, `{`, `t`, `f`, `n`, `-`, a digit. -/
def canStart (c : Char) : Bool :=
  JsonText.isWs c || c.toNat == 34 || c.toNat == 91 || c.toNat == 123 || c.toNat == 116 || c.toNat == 102
    || c.toNat == 110 || c.toNat == 45 || JsonText.isDigit c

end JRV.ByteBody
