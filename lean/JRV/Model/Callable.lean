/-
  JRV.Model.Callable — what the server can call: registered functions, a registered instance
  (attribute tree for `xmlrpc.server.resolve_dotted_attribute(instance, name, True)`, optional
  `_dispatch` method), custom dispatch functions, and the *effect log* in which every invocation is
  recorded (DESIGN.md 3.5).

  A callable is a signature plus a behaviour.  The signature decides Python's argument binding
  (`func(*params)` for a list, `func(**params)` for a dict); the behaviour says what the body does
  once it runs: return a value or raise an exception.  Nothing here defaults: a behaviour is a
  total function supplied by the registry, and binding is a decidable predicate.

  Modelled fragment of Python signatures: `def f(p1, .., pn[=defaults on the last d], *args, **kwargs)`
  — no keyword-only and no positional-only parameters (differentially tested against real `def`s
  generated from the same `Sig`, harness/servercases.py).
-/
import JRV.Model.Json

namespace JRV.Callable
open JRV PyVal

/-- A Python signature: positional-or-keyword parameter names, how many of the trailing ones have
    defaults, whether `*args` / `**kwargs` are present. -/
structure Sig where
  names : List String
  ndefaults : Nat := 0
  star : Bool := false
  kw : Bool := false
deriving Repr, DecidableEq, Inhabited

namespace Sig
/-- Number of parameters without default. -/
def nrequired (s : Sig) : Nat := s.names.length - s.ndefaults
/-- The parameters without default. -/
def required (s : Sig) : List String := s.names.take s.nrequired
end Sig

/-- The keys of a keyword map, `none` when some key is not a `str`
    (`f(**{1: 2})` raises `TypeError: keywords must be strings` at the call). -/
def kwKeys? : List (PyVal × PyVal) → Option (List String)
  | [] => some []
  | (.str k, _) :: rest => (kwKeys? rest).map (k :: ·)
  | _ :: _ => Option.none

/-- No repeated key (a Python dict never has one; an association list might). -/
def distinct : List String → Bool
  | [] => true
  | k :: rest => !rest.contains k && distinct rest

/-- `f(*xs)` with `n = len(xs)`: enough for the required parameters, and not too many unless `*args`. -/
def bindPositional (s : Sig) (n : Nat) : Bool :=
  decide (s.nrequired ≤ n) && (s.star || decide (n ≤ s.names.length))

/-- `f(**m)` with the (string, distinct) keys `ks`: every key names a parameter unless `**kwargs`,
    and every required parameter is named. -/
def bindKeywords (s : Sig) (ks : List String) : Bool :=
  distinct ks && ks.all (fun k => s.kw || s.names.contains k) && s.required.all (fun p => ks.contains p)

/-- Does the call `func(*params)` (list) / `func(**params)` (anything else) bind?  A tuple — which
    `validate_request` lets through — or any other non-mapping after `**` fails at the call. -/
def binds (s : Sig) : PyVal → Bool
  | .list xs => bindPositional s xs.length
  | .dict kvs =>
    match kwKeys? kvs with
    | some ks => bindKeywords s ks
    | Option.none => false
  | _ => false

/-- What a call does once the callable has been entered.  `isTypeError` / `isAttributeError`: whether the
    raised class is (a subclass of) `TypeError` / `AttributeError` — the two `except` clauses of
    `_dispatch` that are not catch-alls test exactly these.

    `depth` is an *input* of the behaviour: the number of traceback entries below the frame that made
    the call (for a registered callable: below the frame of `_dispatch`), i.e. how many times `tb_next`
    can be followed from `sys.exc_info()[2]` in the handler.
      * `0` — the exception carries no frame of the callee: it comes out of a C-implemented callable
        (a registered builtin such as `len`, `functools.partial` rejecting its arguments, …); this is
        also what a failure of the call itself (binding, non-callable object) looks like;
      * `1` — raised in the callable's own Python frame (`raise`, `"x" + n`, `len(5)` in the body);
      * `≥ 2` — raised in a function the body called, or behind a decorator.
    `_dispatch` looks at it in exactly one place: `sys.exc_info()[2].tb_next is not None` ⇔ `depth ≠ 0`. -/
inductive CallOutcome where
  | ret (v : PyVal)
  | raised (cls : String) (msg : String) (isTypeError : Bool) (isAttributeError : Bool) (depth : Nat)
  /-- The exception KIND: `raised` is an instance of `Exception` (an "ordinary" exception); `raisedBase` is a
      `BaseException` that is NOT an instance of `Exception` — `SystemExit` (a handler calling `sys.exit()`),
      `KeyboardInterrupt`, `GeneratorExit`, `asyncio.CancelledError`, a user class deriving from
      `BaseException` directly.  It is neither a `TypeError` nor an `AttributeError` (both derive from
      `Exception`), and an `except Exception` clause does not catch it: only a bare `except:` /
      `except BaseException` does — which is what the handlers around a method call are (`_dispatch`: bare;
      `_marshaled_single_dispatch`: `except BaseException`, fix 43f3faa; facts `dispatchCallCatchAll`,
      `syncCallCatchAll`).  `depth` as for `raised`. -/
  | raisedBase (cls : String) (msg : String) (depth : Nat)
deriving Repr, Inhabited

/-- A registered function or callable attribute; `body` receives the `params` value of the request
    (a list or a dict) and is only consulted when the call binds. -/
structure Callable where
  sig : Sig
  body : PyVal → CallOutcome

/-- A function of `(method, params)`: an instance's `_dispatch` or a custom dispatch function. -/
abbrev DispatchFn := PyVal → PyVal → CallOutcome

/-- An attribute of the registered instance: possibly callable, with its own public/private attributes
    (`node none …` is an attribute that is neither callable nor `None`: a namespace, a number, …);
    `noneValue` is an attribute bound to `None` — `_dispatch` tests the resolved object with
    `func is not None`, so it takes such an attribute for an unknown method.  `None` has no attribute
    whose name does not start with an underscore, so nothing resolves below it. -/
inductive Attr where
  | node (callable : Option Callable) (children : List (String × Attr))
  | noneValue

namespace Attr
def callable : Attr → Option Callable | .node c _ => c | .noneValue => Option.none
def children : Attr → List (String × Attr) | .node _ ch => ch | .noneValue => []
def isNoneValue : Attr → Bool | .noneValue => true | .node _ _ => false
end Attr

/-- `resolve_dotted_attribute` walking the segments of `attr.split('.')`: a segment starting with `_`
    raises `AttributeError` (→ `none`), so does a missing attribute. -/
def resolveSegs : List String → Attr → Option Attr
  | [], a => some a
  | seg :: rest, a =>
    if seg.startsWith "_" then Option.none
    else match a.children.lookup seg with
      | some child => resolveSegs rest child
      | Option.none => Option.none

/-- The registered instance. -/
structure Instance where
  dispatch : Option DispatchFn := Option.none
  attrs : List (String × Attr) := []

/-- `resolve_dotted_attribute(instance, name, True)`. -/
def resolveDotted (inst : Instance) (name : String) : Option Attr :=
  resolveSegs (name.splitOn ".") (.node Option.none inst.attrs)

/-- `SimpleXMLRPCDispatcher.funcs` and `.instance`. -/
structure Registry where
  funcs : List (String × Callable) := []
  inst : Option Instance := Option.none

/-- Who was invoked. -/
inductive Target where
  | func          -- an entry of `funcs`
  | attr          -- a callable attribute of the instance (dotted resolution)
  | instDispatch  -- `instance._dispatch(method, params)`
  | custom        -- the custom dispatch function handed to `_marshaled_dispatch`
deriving Repr, DecidableEq, Inhabited

/-- Effects a request can cause.  `call`: the body of a callable started, with the method name and the
    `params` value it was given.  `enqueue`: a task was handed to the notification pool — `custom`
    tells which function (`dispatch_method` or `self._dispatch`), `ver` is the version of the
    request-specific configuration passed to `_dispatch`. -/
inductive Effect where
  | call (target : Target) (method : PyVal) (params : PyVal)
  | enqueue (custom : Bool) (method : PyVal) (params : PyVal) (ver : Nat)
deriving Repr, DecidableEq, Inhabited

def Effect.isCall : Effect → Bool | .call _ _ _ => true | _ => false
def Effect.isEnqueue : Effect → Bool | .enqueue _ _ _ _ => true | _ => false

end JRV.Callable
