/-
  JRV.Model.Client — client-side reply handling of jsonrpclib/jsonrpc.py:
  `check_for_errors`, `ServerProxy._request`'s result extraction and
  `MultiCallIterator.__get_result`, transcribed statement by statement.

  Exceptions are modelled by class name and the structured argument the property
  talks about: `ProtocolError((code, message))` is `⟨"ProtocolError", tuple [code, message]⟩`,
  `AppError((code, message, data))` is `⟨"AppError", tuple [code, message, data]⟩`,
  `ProtocolError(x)` is `⟨"ProtocolError", x⟩`.
  An input the model declines to describe yields the distinguished class `"Unmodelled"`
  (never a default value); theorems are stated under guards that exclude it.
-/
import JRV.Model.Json

namespace JRV.Client
open JRV PyVal

/-- Bounds of the pre-defined error range, as written in `check_for_errors`. -/
def protoLo : Int := -32700
def protoHi : Int := -32000

/-- Parse an unsigned decimal literal `ddd` or `ddd.ddd` (what `float(str)` accepts in the modelled
    fragment: no sign, exponent, whitespace, underscore, inf/nan). -/
def parseSimpleDecimal? (s : String) : Option PyFloat :=
  match s.splitOn "." with
  | [a] => if a.isEmpty || !a.all Char.isDigit then Option.none else
      a.toNat?.map fun n => { neg := false, mant := n, exp := 0 }
  | [a, b] =>
    if (a.isEmpty && b.isEmpty) || !a.all Char.isDigit || !b.all Char.isDigit then Option.none else
      ((a ++ b).toNat?).map fun n => { neg := false, mant := n, exp := - (b.length : Int) }
  | _ => Option.none

/-- `float(v) > 2.0` as used on the `jsonrpc` member.  `float()` raises TypeError on
    None/containers, ValueError on a non-numeric string. -/
def versionAbove2 (v : PyVal) : PyM Bool :=
  match v with
  | .int i => pure (decide (i > 2))
  | .bool _ => pure false
  | .float f => pure (f.cmpInt 2 == .gt)
  | .str s =>
    match parseSimpleDecimal? s with
    | some f => pure (f.cmpInt 2 == .gt)
    | Option.none =>
      -- strings with signs, exponents, blanks, underscores, inf/nan: CPython decides; not modelled
      raise "Unmodelled" (.str "float(str)")
  | _ => raise "TypeError" (.str "float() argument")

/-- `-32700 <= code <= -32000`, `False` when the comparison raises `TypeError`. -/
def predefined (code : PyVal) : Bool :=
  match code.cmpInt? protoLo, code.cmpInt? protoHi with
  | some lo, some hi => lo != .lt && hi != .gt
  | _, _ => false

/-- `error["message"]`, else `error.get("trace", "<no error message>")`. -/
def errorMessage (ekvs : List (PyVal × PyVal)) : PyVal :=
  match lookupStr "message" ekvs with
  | some m => m
  | Option.none => (lookupStr "trace" ekvs).getD (.str "<no error message>")

/-- The exception raised for a truthy `error` member. -/
def errorOf (error : PyVal) : PyErr :=
  match error with
  | .dict ekvs =>
    match lookupStr "code" ekvs with
    | some code =>
      let message := errorMessage ekvs
      if predefined code then { cls := "ProtocolError", arg := .tuple [code, message] }
      else { cls := "AppError", arg := .tuple [code, message, (lookupStr "data" ekvs).getD .none] }
    | Option.none =>
      match ekvs with
      | [(_, v)] => { cls := "ProtocolError", arg := v }
      | _ => { cls := "ProtocolError", arg := error }
  | _ => { cls := "ProtocolError", arg := error }

/-- `check_for_errors(result)`. -/
def checkForErrors (result : PyVal) : PyM PyVal :=
  if !result.truthy then pure result
  else match result with
  | .dict kvs => do
    match lookupStr "jsonrpc" kvs with
    | some v =>
      let above ← versionAbove2 v
      if above then raise "NotImplementedError" (.str "JSON-RPC version not yet supported.")
    | Option.none => pure ()
    if !hasKeyStr "result" kvs && !hasKeyStr "error" kvs then
      raise "ValueError" (.str "Response does not have a result or error key.")
    match lookupStr "error" kvs with
    | some e => if e.truthy then .error (errorOf e) else pure result
    | Option.none => pure result
  | _ => raise "TypeError" (.str "Response is not a dict.")

/-- `x["result"]` on whatever `check_for_errors` let through. -/
def subscriptResult (v : PyVal) : PyM PyVal :=
  match v with
  | .dict kvs =>
    match lookupStr "result" kvs with
    | some r => pure r
    | Option.none => raise "KeyError" (.str "result")
  | .str _ => raise "TypeError" (.str "string indices must be integers")
  | .list _ => raise "TypeError" (.str "list indices must be integers")
  | .tuple _ => raise "TypeError" (.str "tuple indices must be integers")
  | _ => raise "TypeError" (.str "not subscriptable")

/-- `ServerProxy._request` after the transport: `check_for_errors(response); return response["result"]`. -/
def proxyResult (response : PyVal) : PyM PyVal := do
  let _ ← checkForErrors response
  subscriptResult response

/-- `ServerProxy._request_notify` after the transport: `check_for_errors(response)`, returns `None`. -/
def proxyNotify (response : PyVal) : PyM PyVal := do
  let _ ← checkForErrors response
  pure .none

/-- `MultiCallIterator.__getitem__(i)` for a non-negative index into a list of results. -/
def multicallGet (results : List PyVal) (i : Nat) : PyM PyVal :=
  match results[i]? with
  | some item => proxyResult item
  | Option.none => raise "IndexError" (.str "list index out of range")

/-- `MultiCall._request` after the transport: an empty reply gives no results; a single object
    answering the whole batch (e.g. the server's parse error) is checked at once — its error is raised by
    the batch call itself — and otherwise kept as the only result; an array is the result list. -/
def multicallRun (responses : PyVal) : PyM (List PyVal) :=
  if !responses.truthy then pure []
  else match responses with
    | .dict _ => do
      let _ ← checkForErrors responses
      pure [responses]
    | .list xs => pure xs
    | _ => raise "Unmodelled" (.str "batch reply that is neither an object nor an array")

/-- `MultiCallIterator.__iter__`: `for item in self.results: yield self.__get_result(item)`.
    The generator hands out the results in order and dies with the exception of the first item whose
    check raises; what the consumer has received up to then is the first component, the exception
    that ended the iteration (if any) the second.  Nothing after the raising item is looked at. -/
def multicallIter : List PyVal → List PyVal × Option PyErr
  | [] => ([], Option.none)
  | item :: rest =>
    match proxyResult item with
    | .ok r =>
      let (ys, e) := multicallIter rest
      (r :: ys, e)
    | .error e => ([], some e)

/-- `list(results)` / `tuple(results)` / the right-hand side of `a, b = results`: the whole iteration or the
    exception that ended it (the partial list is dropped by the consumer). -/
def multicallList (results : List PyVal) : PyM (List PyVal) :=
  match multicallIter results with
  | (ys, Option.none) => pure ys
  | (_, some e) => .error e

/-- `a, b, … = results` with `n` targets: the iteration protocol first (an error entry among the first
    `n + 1` items consumed raises its exception), then the arity check of the unpacking. -/
def multicallUnpack (results : List PyVal) (n : Nat) : PyM (List PyVal) :=
  match multicallIter (results.take (n + 1)) with
  | (_, some e) => .error e
  | (ys, Option.none) =>
    if ys.length = n then pure ys
    else raise "ValueError" (.str (if ys.length < n then "not enough values to unpack" else "too many values to unpack"))

/-- `AppError.data()`: `self.args[0][2]`. -/
def appErrorData (e : PyErr) : Option PyVal :=
  match e.cls, e.arg with
  | "AppError", .tuple [_, _, d] => some d
  | _, _ => Option.none

end JRV.Client
