/-
  JRV.Model.ClientWire — the way a reply REALLY reaches the client-side reply handling of C06: not as a Python
  object, but as the bytes of an HTTP body that `xmlrpc.client.Transport.parse_response` reads in pieces of 1024
  bytes (`while data := stream.read(1024): p.feed(data)`), `JSONParser.feed` → `JSONTarget.feed` buffers, and
  `JSONTarget.close()` joins and decodes ONCE (`JRV.Wire.clientClose`).  `ServerProxy._run_request` then returns
  `None` for an empty text and `loads(text)` otherwise; `_request` / `_request_notify` / `MultiCall._request`
  continue as in `JRV.Model.Client`.

  The JSON parser is a parameter (`parse : String → PyM PyVal`, CPython's `json.loads` behind `jsonrpclib.loads`);
  the theorems hold for every parser.  Pieces are cut at multiples of the read size whatever the characters are:
  a multi-byte UTF-8 character may lie on both sides of a cut.  A body that is not UTF-8 is handed on as bytes by
  `close()` (what `json.loads` makes of bytes — encoding detection — is CPython's): declined (`Unmodelled`).
-/
import JRV.Model.Client
import JRV.Model.Wire

namespace JRV.ClientWire
open JRV JRV.Client JRV.Wire

/-- The read size of `Transport.parse_response`. -/
def readSize : Nat := 1024

/-- The successive results of `stream.read(n)` on a stream that delivers `body` (http.client's `read(amt)` returns
    `amt` bytes unless the body ends first; an empty result ends the loop). -/
def readChunks (n : Nat) (body : Bytes) : List Bytes :=
  if _h : n = 0 ∨ body = [] then []
  else body.take n :: readChunks n (body.drop n)
termination_by body.length
decreasing_by
  have hb : body ≠ [] := fun e => _h (Or.inr e)
  have hn : n ≠ 0 := fun e => _h (Or.inl e)
  have : 0 < body.length := List.length_pos_iff.mpr hb
  simp only [List.length_drop]
  omega

/-- `Transport.parse_response(response)`: every piece is fed to the target, `close()` gives the text. -/
def parseResponse (n : Nat) (body : Bytes) : Closed := clientClose (readChunks n body)

/-- `ServerProxy._run_request` after `transport.request`: `if not response: return None`, else `loads(response)`. -/
def runRequest (parse : String → PyM PyVal) (n : Nat) (body : Bytes) : PyM PyVal :=
  match parseResponse n body with
  | .text s => if s.isEmpty then pure .none else parse s
  | .raw _ => raise "Unmodelled" (.str "reply body that is not UTF-8")

/-- `proxy.method(...)` over the wire: `_run_request`, `check_for_errors`, `response["result"]`. -/
def wireCall (parse : String → PyM PyVal) (n : Nat) (body : Bytes) : PyM PyVal := do
  let r ← runRequest parse n body
  proxyResult r

/-- `proxy._notify.method(...)` over the wire. -/
def wireNotify (parse : String → PyM PyVal) (n : Nat) (body : Bytes) : PyM PyVal := do
  let r ← runRequest parse n body
  proxyNotify r

/-- `MultiCall(proxy)()` over the wire: the result list the iterator is built on. -/
def wireMulticall (parse : String → PyM PyVal) (n : Nat) (body : Bytes) : PyM (List PyVal) := do
  let r ← runRequest parse n body
  multicallRun r

end JRV.ClientWire
