/-
  JRV.Model.ConfigCopy — jsonrpclib/config.py: `Config.__init__` and `Config.copy`, attribute by attribute (C20).

  The other models hand the configuration to `dump` as a value (`DumpCfg`, `Payload.Config`); the code hands
  `jsonclass.dump` either the server's own `Config` object or — for a JSON-RPC 1.0 request on a 2.0 server — the
  result of `Config.copy()` with `version = 1.0` stored into it (`_marshaled_single_dispatch`).  That the
  serialisation customisation (method name, ignore-attribute name, handler table) configured on the server is the one
  consulted on *that* path too is a statement about `copy`: here it is transcribed as the code builds it — a call of
  the constructor with six positional arguments and `None`, then two attribute stores — so that a `copy` that forgets
  an attribute is a different function.

  * The scalar attributes hold arbitrary Python values (`PyVal`): nothing stops a program from storing `None` or a
    number in `serialize_method`; `copy` passes them through the constructor, whose only test is
    `user_agent is None`.
  * The two dictionaries are represented by their content (`dict.copy()` gives a new dictionary with the same
    entries; the aliasing side — the copy does not share them — is C13's subject, JRV.Model.ConfigHeap).
-/
import JRV.Model.JsonClass

namespace JRV.ConfigCopy
open JRV JRV.PyVal

/-- The attributes `Config.__init__` defines, in the order of its stores. -/
structure Cfg where
  version : PyVal
  useJsonclass : PyVal
  contentType : PyVal
  userAgent : PyVal
  /-- `LocalClasses`: name ↦ class identity -/
  classes : List (String × String)
  serializeMethod : PyVal
  ignoreAttribute : PyVal
  /-- `serialize_handlers`: type tag ↦ handler identity (`none`: a `None` entry) -/
  handlers : List (String × Option Nat)
deriving Repr

/-- `"jsonrpclib/{0} (Python {1})".format(__version__, …)`: a constant of the process. -/
def defaultUserAgent : String := "jsonrpclib/<version> (Python <version>)"

/-- `if user_agent is None: user_agent = "jsonrpclib/…"` -/
def agentOr (u : PyVal) : PyVal :=
  match u with
  | .none => .str defaultUserAgent
  | u => u

/-- `Config.__init__(self, version, content_type, user_agent, use_jsonclass, serialize_method, ignore_attribute,
    serialize_handlers)`; `handlers = none` stands for `None` (`serialize_handlers or {}`: an empty table is
    replaced by a new empty table). -/
def init (version contentType userAgent useJsonclass serializeMethod ignoreAttribute : PyVal)
    (handlers : Option (List (String × Option Nat))) : Cfg :=
  { version := version                                    -- self.version = version
    useJsonclass := useJsonclass                          -- self.use_jsonclass = use_jsonclass
    contentType := contentType                            -- self.content_type = content_type
    -- if user_agent is None: user_agent = "jsonrpclib/…"; self.user_agent = user_agent
    userAgent := agentOr userAgent
    classes := []                                         -- self.classes = LocalClasses()
    serializeMethod := serializeMethod                    -- self.serialize_method = serialize_method
    ignoreAttribute := ignoreAttribute                    -- self.ignore_attribute = ignore_attribute
    handlers := match handlers with                       -- self.serialize_handlers = serialize_handlers or {}
      | some h => h
      | Option.none => [] }

/-- `Config()` -/
def default : Cfg :=
  init (.float ⟨false, 2, 0⟩) (.str "application/json-rpc") .none (.bool true) (.str "_serialize") (.str "_ignore") Option.none

/-- `Config.copy(self)`:
    `new_config = Config(self.version, self.content_type, self.user_agent, self.use_jsonclass, self.serialize_method,
    self.ignore_attribute, None)`; `new_config.classes = self.classes.copy()`;
    `new_config.serialize_handlers = self.serialize_handlers.copy()`. -/
def copy (c : Cfg) : Cfg :=
  let n := init c.version c.contentType c.userAgent c.useJsonclass c.serializeMethod c.ignoreAttribute Option.none
  let n := { n with classes := c.classes }
  { n with handlers := c.handlers }

/-- The per-request configuration of `_marshaled_single_dispatch` for a request without a "jsonrpc" member on a
    server whose version is >= 2: `config = self.json_config.copy(); config.version = 1.0`. -/
def compat (c : Cfg) : Cfg := { copy c with version := .float ⟨false, 1, 0⟩ }

/-- What `jsonclass.dump(…, config=c)` reads of a configuration whose two names are strings. -/
def dumpCfg? (c : Cfg) : Option JsonClass.DumpCfg :=
  match c.serializeMethod, c.ignoreAttribute with
  | .str sm, .str ia => some { serializeMethod := sm, ignoreAttribute := ia, handlers := c.handlers }
  | _, _ => Option.none

/-- The attributes `__init__` defines (sorted): compared with the source on every run (`Generated.configInitFields`). -/
def initFields : List String :=
  ["classes", "content_type", "ignore_attribute", "serialize_handlers", "serialize_method", "use_jsonclass", "user_agent",
   "version"]

/-- How `copy` fills each attribute of the new object (sorted by attribute): "same" — the value of the original's
    attribute of the same name (through the constructor parameter of that name, or stored directly); "copied" —
    `self.<attribute>.copy()`.  Compared with the source on every run (`Generated.configCopyFields`). -/
def copyFields : List (String × String) :=
  [("classes", "copied"), ("content_type", "same"), ("ignore_attribute", "same"), ("serialize_handlers", "copied"),
   ("serialize_method", "same"), ("use_jsonclass", "same"), ("user_agent", "same"), ("version", "same")]

end JRV.ConfigCopy
