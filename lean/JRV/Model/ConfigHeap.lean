/-
  JRV.Model.ConfigHeap — configuration objects as *mutable, aliasable* objects (C13).

  The other models treat `Config` as an immutable value, which makes "serving a request never
  changes the server's Config" true by construction.  Here the configurations live in a heap:
  a `Config` object holds scalar fields and *references* to its `classes` and `serialize_handlers`
  dictionaries, so that sharing (what a missing `.copy()` would cause) is expressible:

    * `_marshaled_single_dispatch` : reads the server's object; for a request without "jsonrpc" on a
      >= 2.0 server it calls `Config.copy()` (allocation) and stores `version = 1.0` **into the copy**;
    * `Config.copy()` : a new object with the same scalars and *new* dictionaries with the same content;
    * the mutators a user can apply to a configuration (version, flags, names, classes[k] = c, handlers[t] = h).

  The dispatcher's actual reply is a parameter `mkReply : CfgView → Req → Reply` (any function of the
  per-request configuration *as observed* and the request): the statelessness theorems hold for every
  dispatch behaviour.
-/
import JRV.Model.Json

namespace JRV.CH
open JRV



/-- A configuration object: scalars + references to its two dictionaries. -/
structure CfgObj where
  version : Nat            -- tenths
  contentType : String
  userAgent : String
  useJsonclass : Bool
  serializeMethod : String
  ignoreAttribute : String
  classesRef : Nat
  handlersRef : Nat
deriving Repr, DecidableEq

/-- Dictionary objects (name → class identity / type tag → handler identity, both as strings). -/
abbrev DictObj := List (String × String)

structure Heap where
  cfgs : List CfgObj
  dicts : List DictObj
deriving Repr, DecidableEq

/-- What one can observe of the configuration at an address: scalars and the *contents* of both dicts. -/
structure CfgView where
  version : Nat
  contentType : String
  userAgent : String
  useJsonclass : Bool
  serializeMethod : String
  ignoreAttribute : String
  classes : DictObj
  handlers : DictObj
deriving Repr, DecidableEq

def view (h : Heap) (a : Nat) : Option CfgView :=
  match h.cfgs[a]? with
  | some c =>
    match h.dicts[c.classesRef]?, h.dicts[c.handlersRef]? with
    | some cl, some hd =>
      some { version := c.version, contentType := c.contentType, userAgent := c.userAgent,
             useJsonclass := c.useJsonclass, serializeMethod := c.serializeMethod,
             ignoreAttribute := c.ignoreAttribute, classes := cl, handlers := hd }
    | _, _ => none
  | none => none

/-- The object `Config.copy()` creates: same scalars, references to two new dictionaries. -/
def copyObj (h : Heap) (c : CfgObj) : CfgObj :=
  { c with classesRef := h.dicts.length, handlersRef := h.dicts.length + 1 }

/-- The heap after `Config.copy()`: one more configuration object, two more dictionaries. -/
def copyHeap (h : Heap) (c : CfgObj) (cl hd : DictObj) : Heap :=
  { cfgs := h.cfgs ++ [copyObj h c], dicts := h.dicts ++ [cl, hd] }

/-- `Config.copy()`: `Config(scalars…)`, then `classes = self.classes.copy()`, `serialize_handlers = ….copy()`.
    Returns the new heap and the address of the copy. -/
def copyCfg (h : Heap) (a : Nat) : Option (Heap × Nat) :=
  match h.cfgs[a]? with
  | some c =>
    match h.dicts[c.classesRef]?, h.dicts[c.handlersRef]? with
    | some cl, some hd =>
      some (copyHeap h c cl hd, h.cfgs.length)
    | _, _ => none
  | none => none

/-- Mutations of a configuration object through its address. -/
inductive Mut where
  | setVersion (v : Nat)
  | setContentType (s : String)
  | setUserAgent (s : String)
  | setUseJsonclass (b : Bool)
  | setSerializeMethod (s : String)
  | setIgnoreAttribute (s : String)
  | classesSet (k c : String)        -- config.classes[k] = c   (LocalClasses.add)
  | handlersSet (t hd : String)      -- config.serialize_handlers[t] = hd
deriving Repr, DecidableEq

def dictSet (d : DictObj) (k v : String) : DictObj :=
  match d with
  | [] => [(k, v)]
  | (k', v') :: rest => if k' == k then (k', v) :: rest else (k', v') :: dictSet rest k v

def applyMut (h : Heap) (a : Nat) (m : Mut) : Heap :=
  match h.cfgs[a]? with
  | none => h
  | some c =>
    match m with
    | .setVersion v => { h with cfgs := h.cfgs.set a { c with version := v } }
    | .setContentType s => { h with cfgs := h.cfgs.set a { c with contentType := s } }
    | .setUserAgent s => { h with cfgs := h.cfgs.set a { c with userAgent := s } }
    | .setUseJsonclass b => { h with cfgs := h.cfgs.set a { c with useJsonclass := b } }
    | .setSerializeMethod s => { h with cfgs := h.cfgs.set a { c with serializeMethod := s } }
    | .setIgnoreAttribute s => { h with cfgs := h.cfgs.set a { c with ignoreAttribute := s } }
    | .classesSet k cl =>
      match h.dicts[c.classesRef]? with
      | some d => { h with dicts := h.dicts.set c.classesRef (dictSet d k cl) }
      | none => h
    | .handlersSet t hd =>
      match h.dicts[c.handlersRef]? with
      | some d => { h with dicts := h.dicts.set c.handlersRef (dictSet d t hd) }
      | none => h

/- ---------- serving requests ---------- -/

/-- What the version adaptation looks at in a request. -/
structure Req where
  hasJsonrpc : Bool        -- the entry has a "jsonrpc" member
  payload : PyVal          -- everything else (opaque here)
deriving Repr

/-- `_marshaled_single_dispatch` for one validated entry: choose the per-request configuration
    (copy + `version = 1.0` on the copy when needed), then build the reply from *that* configuration.
    Returns the new heap and the reply. -/
def serveEntry {Reply} (mkReply : CfgView → Req → Reply) (h : Heap) (srv : Nat) (r : Req) : Option (Heap × Reply) :=
  match view h srv with
  | none => none
  | some sv =>
    if !r.hasJsonrpc && sv.version ≥ 20 then
      match copyCfg h srv with
      | some (h1, a) =>
        let h2 := applyMut h1 a (.setVersion 10)
        (view h2 a).map fun v => (h2, mkReply v r)
      | none => none
    else some (h, mkReply sv r)

/-- A request body = a list of validated entries (a batch, or one entry); entries rejected by
    validation are answered from the server's own configuration (`fromServer`). -/
inductive Entry where
  | valid (r : Req)
  | invalid (p : PyVal)
deriving Repr

def serveEntries {Reply} (mkReply : CfgView → Req → Reply) (mkInvalid : CfgView → PyVal → Reply)
    (srv : Nat) : Heap → List Entry → Option (Heap × List Reply)
  | h, [] => some (h, [])
  | h, .valid r :: rest =>
    match serveEntry mkReply h srv r with
    | some (h1, rep) => (serveEntries mkReply mkInvalid srv h1 rest).map fun (h2, reps) => (h2, rep :: reps)
    | none => none
  | h, .invalid p :: rest =>
    match view h srv with
    | some sv => (serveEntries mkReply mkInvalid srv h rest).map fun (h2, reps) => (h2, mkInvalid sv p :: reps)
    | none => none

/-- A history of request bodies served one after the other on the same server. -/
def serveHistory {Reply} (mkReply : CfgView → Req → Reply) (mkInvalid : CfgView → PyVal → Reply)
    (srv : Nat) : Heap → List (List Entry) → Option (Heap × List (List Reply))
  | h, [] => some (h, [])
  | h, body :: rest =>
    match serveEntries mkReply mkInvalid srv h body with
    | some (h1, reps) => (serveHistory mkReply mkInvalid srv h1 rest).map fun (h2, all) => (h2, reps :: all)
    | none => none

/-- The reply an entry gets on a server whose configuration is observed as `sv`, with no history. -/
def specReply {Reply} (mkReply : CfgView → Req → Reply) (mkInvalid : CfgView → PyVal → Reply)
    (sv : CfgView) : Entry → Reply
  | .valid r => if !r.hasJsonrpc && sv.version ≥ 20 then mkReply { sv with version := 10 } r else mkReply sv r
  | .invalid p => mkInvalid sv p

/-- Which configuration every reply-building call of the dispatcher is handed in this model, by function of
    SimpleJSONRPCServer.py (sorted, de-duplicated `(function, callee, source)`):
      * `request` — the per-request configuration `config` (`serveEntry`: the argument of `mkReply` is the view
        through the copy, or the server's own view when no adaptation is needed): every `Fault(…)` and the
        `jsonrpclib.dump(…)` of `_marshaled_single_dispatch`, `_dispatch`, `_method_exception_fault`;
      * `server` — the server's own configuration (`serveEntries`, case `.invalid`: the argument of `mkInvalid`):
        body-level and validation faults of `_marshaled_dispatch`, `_safe_jdumps`, `_unmarshaled_dispatch`,
        `validate_request`, and the 500 reply of `do_POST`.
    The extractor reads the same table from the source (`Generated.replyConfigSites`, companion theorem in C13Gen). -/
def replySites : List (String × String × String) := [
  ("SimpleJSONRPCDispatcher._dispatch", "Fault", "request"),
  ("SimpleJSONRPCDispatcher._marshaled_dispatch", "Fault", "server"),
  ("SimpleJSONRPCDispatcher._marshaled_single_dispatch", "Fault", "request"),
  ("SimpleJSONRPCDispatcher._marshaled_single_dispatch", "dump", "request"),
  ("SimpleJSONRPCDispatcher._method_exception_fault", "Fault", "request"),
  ("SimpleJSONRPCDispatcher._safe_jdumps", "Fault", "server"),
  ("SimpleJSONRPCDispatcher._unmarshaled_dispatch", "Fault", "server"),
  ("SimpleJSONRPCRequestHandler.do_POST", "Fault", "server"),
  ("validate_request", "Fault", "server")]

/-- "The server's configuration" of the sites tagged `server` above — the address `serveEntry` is given — is the object the
    caller handed to the CONSTRUCTOR of the server class: every class of `SimpleJSONRPCServer.py` whose constructor takes a
    configuration binds it to `self.json_config` (the attribute those sites read), in its own body or through the constructor
    of the base class it forwards it to (`Generated.configSinks`, restricted to that module; companion theorem in C13Gen).
    A class that drops it on the way serves on `config.DEFAULT`, whatever version it was built with. -/
def serverConfigSinks : List (String × String) := [
  ("CGIJSONRPCRequestHandler", "json_config"), ("PooledJSONRPCServer", "json_config"),
  ("SimpleJSONRPCDispatcher", "json_config"), ("SimpleJSONRPCServer", "json_config")]

/-- The form (1.0 or 2.0 envelope) is decided by the version of the per-request configuration. -/
def formOf (v : CfgView) : Nat := if v.version ≥ 20 then 20 else 10

end JRV.CH
