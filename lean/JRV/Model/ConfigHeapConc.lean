/-
  JRV.Model.ConfigHeapConc — several dispatcher threads serving requests *at the same time* on one
  server object (C13, "… or are being served concurrently").

  `JRV.Model.ConfigHeap.serveEntry` runs the version adaptation of `_marshaled_single_dispatch`
  (SimpleJSONRPCServer.py) as one indivisible function.  Here the same statements are separate atomic
  steps of a thread, and the steps of different threads are interleaved arbitrarily over ONE shared heap:

      pc = decide :  if "jsonrpc" not in request and self.json_config.version >= 2:   (read of the server object)
      pc = copy   :      config = self.json_config.copy()                              (allocation in the shared heap)
      pc = store  :      config.version = 1.0                                          (store through `config`)
                     else: config = self.json_config                                   (decide goes straight to reply)
      pc = reply  :  response = self._dispatch(method, params, config) / Fault(… config=config)
                     — any function `mkReply` of the configuration *as observed through `config` at that
                     moment* and of the request
      pc = done   :  the thread holds its reply

  The implementation of `copy` is a parameter of the step function: the code's is `copyCfg`
  (`Config.copy()`); `aliasCfg` is the variant "no `.copy()`" (`config = self.json_config`), used only to
  show that the concurrent theorem is not true by construction.

  Granularity: `Config.copy()` is one atomic step.  Every read it performs is of the server's object, and
  part (a) of `C13_concurrent` shows that no step of any thread ever writes to that object, so a finer
  split of the copy would read the same values; the split itself is not modelled.
-/
import JRV.Model.ConfigHeap

namespace JRV.CH
open JRV

/-- Program counter of a dispatcher thread inside `_marshaled_single_dispatch`. -/
inductive Pc where
  | decide | copy | store | reply | done
deriving Repr, DecidableEq

/-- One dispatcher thread: its request, where it is, the address its local `config` is bound to
    (unbound before the assignment), and the reply once computed. -/
structure Thread (Reply : Type) where
  req : Req
  pc : Pc
  cfgAddr : Option Nat
  reply : Option Reply

/-- The system: one shared heap, any number of threads. -/
structure Sys (Reply : Type) where
  heap : Heap
  threads : List (Thread Reply)

/-- The test of the `if`: compatibility (a 1.0 request on a >= 2.0 server) is needed. -/
def needsCompat (sv : CfgView) (r : Req) : Bool := !r.hasJsonrpc && decide (sv.version ≥ 20)

/-- "No copy": the local `config` is bound to the very object it was asked to copy. -/
def aliasCfg (h : Heap) (a : Nat) : Option (Heap × Nat) := some (h, a)

/-- One atomic step of one thread on the shared heap; `cp` is what `self.json_config.copy()` does.
    `none` = the thread cannot move (it is done) or the statement would raise (dangling address). -/
def stepThreadG {Reply} (cp : Heap → Nat → Option (Heap × Nat)) (mkReply : CfgView → Req → Reply) (srv : Nat)
    (h : Heap) (t : Thread Reply) : Option (Heap × Thread Reply) :=
  match t.pc with
  | .decide =>
    match view h srv with
    | none => none
    | some sv =>
      if needsCompat sv t.req then some (h, { t with pc := .copy })
      else some (h, { t with pc := .reply, cfgAddr := some srv })
  | .copy =>
    match cp h srv with
    | some (h1, a) => some (h1, { t with pc := .store, cfgAddr := some a })
    | none => none
  | .store =>
    match t.cfgAddr with
    | some a => some (applyMut h a (.setVersion 10), { t with pc := .reply })
    | none => none
  | .reply =>
    match t.cfgAddr with
    | some a =>
      match view h a with
      | some v => some (h, { t with pc := .done, reply := some (mkReply v t.req) })
      | none => none
    | none => none
  | .done => none

/-- A step of the system: thread `i` performs its next atomic step. -/
def stepG {Reply} (cp : Heap → Nat → Option (Heap × Nat)) (mkReply : CfgView → Req → Reply) (srv : Nat)
    (s : Sys Reply) (i : Nat) : Option (Sys Reply) :=
  match s.threads[i]? with
  | none => none
  | some t =>
    match stepThreadG cp mkReply srv s.heap t with
    | none => none
    | some (h1, t1) => some { heap := h1, threads := s.threads.set i t1 }

/-- A schedule = a sequence of thread indices; every prefix must be executable. -/
def runG {Reply} (cp : Heap → Nat → Option (Heap × Nat)) (mkReply : CfgView → Req → Reply) (srv : Nat) :
    Sys Reply → List Nat → Option (Sys Reply)
  | s, [] => some s
  | s, i :: rest =>
    match stepG cp mkReply srv s i with
    | some s1 => runG cp mkReply srv s1 rest
    | none => none

/-- The code: `config = self.json_config.copy()`. -/
def step {Reply} (mkReply : CfgView → Req → Reply) (srv : Nat) (s : Sys Reply) (i : Nat) : Option (Sys Reply) :=
  stepG copyCfg mkReply srv s i

def run {Reply} (mkReply : CfgView → Req → Reply) (srv : Nat) (s : Sys Reply) (sched : List Nat) : Option (Sys Reply) :=
  runG copyCfg mkReply srv s sched

/-- The variant without `.copy()`. -/
def runNoCopy {Reply} (mkReply : CfgView → Req → Reply) (srv : Nat) (s : Sys Reply) (sched : List Nat) :
    Option (Sys Reply) :=
  runG aliasCfg mkReply srv s sched

/-- Initially: any heap, one thread per request, every thread before the `if`. -/
def initSys {Reply} (h : Heap) (reqs : List Req) : Sys Reply :=
  { heap := h, threads := reqs.map fun r => { req := r, pc := .decide, cfgAddr := none, reply := none } }

/-- Reachability under arbitrary interleaving. -/
inductive Reach {Reply} (mkReply : CfgView → Req → Reply) (srv : Nat) (s0 : Sys Reply) : Sys Reply → Prop where
  | init : Reach mkReply srv s0 s0
  | step {s s1 : Sys Reply} (i : Nat) : Reach mkReply srv s0 s → step mkReply srv s i = some s1 → Reach mkReply srv s0 s1

end JRV.CH
