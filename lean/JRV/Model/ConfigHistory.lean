/-
  JRV.Model.ConfigHistory — one `Config` object over time (C20).

  The other models hand `dump` the configuration as a value (`DumpCfg`).  A program keeps ONE `Config` object for
  the life of a client or a server and goes on using it: it dumps, then registers or removes a serialisation
  handler, stores another method / ignore-attribute name, switches `use_jsonclass`, registers a local class — and
  dumps again.  Here the object is a state and a *history* is a list of statements on it:

      config.serialize_handlers[T] = h          config.serialize_handlers.pop(T, None)
      config.serialize_handlers.clear()         config.serialize_handlers = {…}
      config.serialize_method = name            config.ignore_attribute = name
      config.use_jsonclass = flag               config.classes.add(cls, name) / .pop(name, None) / .clear()
      jsonclass.dump(v, sm, ia, ig, config)     jsonrpc.dump(…v…, config=config)   (its value part)

  `jsonclass.dump` reads the attributes of the object *at the time of the call* and stores nothing into it (the code
  contains no statement that writes to its arguments: `Generated.dumpNonFreshWrites`, re-extracted on every run): a
  dump is an observation of the current state, never a transition.  A `dump` that remembers anything it computed from
  the configuration (a types tuple, a resolved name, a handler) across calls is a different function: the
  correspondence runs histories on one real object.
-/
import JRV.Model.JsonClass

namespace JRV.ConfigHistory
open JRV JRV.PyVal JRV.JsonClass

abbrev Table := List (String × Option Nat)

/-- `d[k] = v` on a dict: the entry of an existing key is replaced where it is, a new key is appended. -/
def store (k : String) (v : Option Nat) : Table → Table
  | [] => [(k, v)]
  | (k', x) :: r => if k' == k then (k', v) :: r else (k', x) :: store k v r

/-- `d.pop(k, None)` -/
def erase (k : String) : Table → Table
  | [] => []
  | (k', x) :: r => if k' == k then erase k r else (k', x) :: erase k r

/-- What `jsonclass.dump` / `jsonrpc.dump` can read of a `Config` object. -/
structure State where
  cfg : DumpCfg := {}
  useJsonclass : Bool := true
  /-- `Config.classes` (name ↦ class id): read by `load`, by no `dump` -/
  classes : List (String × String) := []
deriving Repr, Inhabited

inductive Op where
  | setHandler (tag : String) (h : Option Nat)
  | delHandler (tag : String)
  | clearHandlers
  | replaceHandlers (t : Table)
  | setMethod (s : String)
  | setIgnoreAttr (s : String)
  | setUseJsonclass (b : Bool)
  | addClass (name cls : String)
  | delClass (name : String)
  | clearClasses
  /-- `jsonclass.dump(v, serialize_method, ignore_attribute, ignore, config)` -/
  | dump (sm ia : Option String) (ig : Option (List PyVal)) (v : PyVal)
  /-- the value part of `jsonrpc.dump(v, …, config=config)`:
      `if config.use_jsonclass: params = jsonclass.dump(params, config=config)` -/
  | rpcDump (v : PyVal)
deriving Repr, Inhabited

def Op.isDump : Op → Bool
  | .dump _ _ _ _ => true
  | .rpcDump _ => true
  | _ => false

/-- Does the statement (re)define which handler the type `t` has? -/
def Op.touchesHandler (t : String) : Op → Bool
  | .setHandler t' _ => t' == t
  | .delHandler t' => t' == t
  | .clearHandlers => true
  | .replaceHandlers _ => true
  | _ => false

/-- The effect of a statement on the object.  The two dumps have none. -/
def mutate (s : State) : Op → State
  | .setHandler t h => { s with cfg := { s.cfg with handlers := store t h s.cfg.handlers } }
  | .delHandler t => { s with cfg := { s.cfg with handlers := erase t s.cfg.handlers } }
  | .clearHandlers => { s with cfg := { s.cfg with handlers := [] } }
  | .replaceHandlers t => { s with cfg := { s.cfg with handlers := t } }
  | .setMethod m => { s with cfg := { s.cfg with serializeMethod := m } }
  | .setIgnoreAttr a => { s with cfg := { s.cfg with ignoreAttribute := a } }
  | .setUseJsonclass b => { s with useJsonclass := b }
  | .addClass n c => { s with classes := (n, c) :: s.classes.filter (fun e => !(e.1 == n)) }
  | .delClass n => { s with classes := s.classes.filter (fun e => !(e.1 == n)) }
  | .clearClasses => { s with classes := [] }
  | .dump _ _ _ _ => s
  | .rpcDump _ => s

/-- What a statement returns: the outcome of the dump in the current state (`none` for the stores). -/
def observe (env : ClassEnv) (H : Nat → HandlerFn) (s : State) : Op → Option (PyM PyVal)
  | .dump sm ia ig v => some (dumpTop { env := env, cfg := s.cfg, H := H } sm ia ig v)
  | .rpcDump v =>
    some (if s.useJsonclass then dumpTop { env := env, cfg := s.cfg, H := H } Option.none Option.none Option.none v
          else pure v)
  | _ => Option.none

/-- The history, statement by statement: what each statement returned. -/
def run (env : ClassEnv) (H : Nat → HandlerFn) : State → List Op → List (Option (PyM PyVal))
  | _, [] => []
  | s, op :: ops => observe env H s op :: run env H (mutate s op) ops

/-- The object after the history. -/
def final (s : State) (ops : List Op) : State := ops.foldl mutate s

/-- The handler entry of type `t` as the statements leave it, read backwards from the last one
    (`dflt`: the entry before the history; `none`: no entry, `some none`: a `None` entry). -/
def lastHandler (t : String) (dflt : Option (Option Nat)) : List Op → Option (Option Nat)
  | [] => dflt
  | op :: ops =>
    lastHandler t (match op with
      | .setHandler t' h => if t == t' then some h else dflt
      | .delHandler t' => if t == t' then Option.none else dflt
      | .clearHandlers => Option.none
      | .replaceHandlers tb => tb.lookup t
      | _ => dflt) ops

def lastMethod (dflt : String) : List Op → String
  | [] => dflt
  | .setMethod m :: ops => lastMethod m ops
  | _ :: ops => lastMethod dflt ops

def lastIgnoreAttr (dflt : String) : List Op → String
  | [] => dflt
  | .setIgnoreAttr a :: ops => lastIgnoreAttr a ops
  | _ :: ops => lastIgnoreAttr dflt ops

def lastUseJsonclass (dflt : Bool) : List Op → Bool
  | [] => dflt
  | .setUseJsonclass b :: ops => lastUseJsonclass b ops
  | _ :: ops => lastUseJsonclass dflt ops

end JRV.ConfigHistory
