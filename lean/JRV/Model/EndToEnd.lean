/-
  JRV.Model.EndToEnd — the client call path of jsonrpclib/jsonrpc.py composed with the server:

    proxy.a.b.c(*args, **kwargs)            ServerProxy.__getattr__ / _Method.__getattr__ / _Method.__call__
      → ServerProxy._request                 dumps(params, methodname, rpcid=None, version=self.__version, config)
      → ServerProxy._run_request             History.add_request(text); transport; History.add_response(text);
                                             `if not response: return None`; loads(response, config)
      → check_for_errors(response); response["result"]

    proxy._notify.a.b(*args, **kwargs)      _Notify.__getattr__ → ServerProxy._request_notify (returns None)

    mc = MultiCall(proxy); mc.a(..); mc._notify.b(..); mc()
                                             MultiCallMethod.__call__/__getattr__/request (version=2.0),
                                             MultiCall._request ("[ {0} ]", ","), MultiCallIterator

  composed with the server side (`Server.marshaledDispatch`, JRV.Model.Server) through an in-process
  loop-back transport that is the identity on texts: the server parses the request text with *its*
  configuration (`jsonrpclib.loads(data, self.json_config)` inside `try/except Exception`), dispatches,
  and renders the reply document (`jdumps`) — or answers the empty body.

  Nothing is re-modelled: `Payload.dump`/`Payload.load` (JRV.Model.Payload), `Client.checkForErrors`,
  `Client.proxyResult`, `Client.proxyNotify`, `Client.multicallGet` (JRV.Model.Client) and
  `Server.marshaledDispatch` (JRV.Model.Server) are used as they are.

  The JSON text layer is a law-free `Codec` (a renderer and a parser).  The property theorems
  (JRV.Properties.C01) instantiate it with `Backend.codec B` for an arbitrary `Backend` and use *its laws*
  (`roundtrip`, `batch`); the driver (JRV.Driver.EndToEnd) instantiates it with a concrete token codec so
  that the composed model can be executed — no theorem is about that concrete codec.
  `dumpsK`/`loadsK` are `Payload.dumps`/`Payload.loads` over a `Codec` (`dumpsK_eq`, `loadsK_eq`: by `rfl`).

  Every function returns, next to its value, the client's `History` and the server's effect log; both
  are kept when the value is an exception.

  Besides the one-expression forms (`call`, `notify`, `mkJob` + `multicall`) the file models the helper OBJECTS
  and the state they keep between uses (`Heap`, `getAttr`, `callMethod`, `callJob`, `callMulticall`: section
  "the client-side helper objects"), and the same exchange carried as bytes over HTTP (`runRequestWire`, on
  JRV.Model.Wire).

  Dictionaries: `PyVal.dict` is an ordered list and model equality is structural, so the model describes an
  order-preserving JSON backend.  Key order is not part of JSON value equality nor of Python's `==`; the harness
  compares canonically (sorted entries) — see the header of JRV.Properties.C01.
-/
import JRV.Model.Payload
import JRV.Model.Client
import JRV.Model.Server
import JRV.Model.Wire

namespace JRV.EndToEnd
open JRV PyVal Callable Payload

/- ---------- the text layer ---------- -/

/-- `jdumps` / `jloads` without laws. -/
structure Codec where
  render : PyVal → PyM String
  parse : String → Option PyVal

def _root_.JRV.Backend.codec (B : Backend) : Codec := { render := B.render, parse := B.parse }

/-- `jsonrpclib.dumps`: `dump` then `jdumps`. -/
def dumpsK (K : Codec) (cfg : Config) (conv : PyVal → PyM PyVal) (fresh : String)
    (params : Params) (methodname : PyVal) (rpcid : PyVal) (version : VerArg)
    (isResponse isNotify : Bool) : PyM String := do
  let d ← dump cfg conv fresh params methodname rpcid version isResponse isNotify
  K.render d

/-- `jsonrpclib.loads`. -/
def loadsK (K : Codec) (cfg : Config) (unconv : PyVal → PyM PyVal) (text : String) : PyM PyVal :=
  if text == "" then pure .none
  else match K.parse text with
    | some v => load cfg unconv v
    | Option.none => raise "ValueError" (.str "JSON decoding error")

theorem dumpsK_eq (B : Backend) : dumpsK B.codec = dumps B := rfl
theorem loadsK_eq (B : Backend) : loadsK B.codec = loads B := rfl

/- ---------- the two ends ---------- -/

/-- `jsonrpclib.history.History`: two lists of texts. -/
structure History where
  requests : List String := []
  responses : List String := []
deriving Repr, DecidableEq, Inhabited

def History.addRequest (h : History) (t : String) : History := { h with requests := h.requests ++ [t] }
def History.addResponse (h : History) (t : String) : History := { h with responses := h.responses ++ [t] }

/-- The fields of a `ServerProxy` the call path reads: its configuration, the `version` argument it was
    built with (`self.__version = version or config.version`, then `dumps(version=self.__version)` falls
    back to the configuration again: `VerArg.none` is that fall-back), and the class translator of the
    configuration (`jsonclass.dump(·, config=config)` / `jsonclass.load(·, config.classes)`). -/
structure Proxy where
  cfg : Config
  version : VerArg := .none
  conv : PyVal → PyM PyVal := pure
  unconv : PyVal → PyM PyVal := pure

/-- The server end: the dispatcher (with its configuration, registry, pool and `jsonclass.dump`) and
    the `jsonclass.load` of its configuration. -/
structure Peer where
  srv : Server.Server
  unconv : PyVal → PyM PyVal := pure

/-- What a composed operation yields: value or exception, the history afterwards, the server's log. -/
structure Run (α : Type) where
  value : PyM α
  history : History
  effects : List Effect

/- ---------- attribute access ---------- -/

/-- `name.startswith("__") and name.endswith("__")`. -/
def isDunder (name : String) : Bool :=
  name.toList.take 2 == ['_', '_'] && name.toList.reverse.take 2 == ['_', '_']

/-- Names that normal attribute lookup finds on a `ServerProxy` instance before `__getattr__` is
    consulted (methods, the property, instance attributes; compared with the source on every run). -/
def proxyOwnAttrs : List String :=
  ["_ServerProxy__close", "_ServerProxy__encoding", "_ServerProxy__handler", "_ServerProxy__history",
   "_ServerProxy__host", "_ServerProxy__query_string", "_ServerProxy__transport", "_ServerProxy__verbose",
   "_ServerProxy__version", "_additional_headers", "_config", "_notify", "_request", "_request_notify",
   "_run_request"]

/-- … on a `_Method` (`xmlrpc.client._Method.__init__` stores `self.__send`, `self.__name`). -/
def methodOwnAttrs : List String := ["_Method__send", "_Method__name"]

/-- … on a `_Notify`. -/
def notifyOwnAttrs : List String := ["_request"]

/-- `_Method.__getattr__(name)` folded over the remaining segments: `"{0}.{1}".format(self.__name, name)`.
    A dunder segment is found on the object (or is `__name__`, which returns a string, not a method):
    declined. -/
def extendName (acc : String) : List String → PyM String
  | [] => pure acc
  | seg :: rest =>
    if isDunder seg || methodOwnAttrs.contains seg then raise "Unmodelled" (.str "own attribute of _Method")
    else extendName (acc ++ "." ++ seg) rest

/-- `proxy.<s1>.<s2>…`: `ServerProxy.__getattr__` refuses dunder names, then `_Method.__getattr__`. -/
def proxyAttr : List String → PyM String
  | [] => raise "Unmodelled" (.str "no attribute access")
  | first :: rest =>
    if proxyOwnAttrs.contains first then raise "Unmodelled" (.str "own attribute of ServerProxy")
    else if isDunder first then raise "AttributeError" (.str first)
    else extendName first rest

/-- `proxy._notify.<s1>.<s2>…`: `_Notify.__getattr__` has no dunder test; dunder names that exist on
    every object are found before it is consulted: declined. -/
def notifyAttr : List String → PyM String
  | [] => raise "Unmodelled" (.str "no attribute access")
  | first :: rest =>
    if isDunder first || notifyOwnAttrs.contains first then raise "Unmodelled" (.str "own attribute of _Notify")
    else extendName first rest

/-- `_Method.__call__(self, *args, **kwargs)`: positional arguments arrive as a tuple, keywords as a
    dict; `if args and kwargs: raise ProtocolError`; `if args: send(name, args) else: send(name, kwargs)`.
    (`self` is taken from the positional arguments, so a keyword named `self` is an ordinary keyword.) -/
def methodParams (args : List PyVal) (kwargs : List (PyVal × PyVal)) : PyM PyVal :=
  if (PyVal.tuple args).truthy && (PyVal.dict kwargs).truthy then
    raise "ProtocolError" (.str "Cannot use both positional and keyword arguments (according to JSON-RPC spec.)")
  else if (PyVal.tuple args).truthy then pure (.tuple args)
  else pure (.dict kwargs)

/- ---------- the server behind the transport ---------- -/

/-- `try: request = jsonrpclib.loads(data, self.json_config) except Exception: …`. -/
def serverParse (K : Codec) (p : Peer) (text : String) : PyM Server.ParseOutcome :=
  match loadsK K p.srv.cfg p.unconv text with
  | .ok v => pure (.parsed v)
  | .error e => if e.cls == "Unmodelled" then .error e else pure .parseError

/-- The body the server answers to a request body: `_marshaled_dispatch` with `jdumps` of the reply
    document done by the codec.  The dispatcher model has already decided that the document is
    serialisable (`Server.jdumps`); a codec that nevertheless refuses it is declined. -/
def serve (K : Codec) (p : Peer) (text : String) : PyM String × List Effect :=
  match serverParse K p text with
  | .error e => (.error e, [])
  | .ok po =>
    match Server.marshaledDispatch p.srv po with
    | (.error e, eff) => (.error e, eff)
    | (.ok .empty, eff) => (.ok "", eff)
    | (.ok (.doc d), eff) =>
      match K.render d with
      | .ok s => (.ok s, eff)
      | .error _ => (raise "Unmodelled" (.str "codec refuses a serialisable document"), eff)

/- ---------- ServerProxy ---------- -/

/-- `ServerProxy._run_request(request)` with a history attached.  An exception of the transport leaves
    the request recorded and no response. -/
def runRequest (K : Codec) (c : Proxy) (p : Peer) (h : History) (request : String) : Run PyVal :=
  let h1 := h.addRequest request
  match serve K p request with
  | (.error e, eff) => { value := .error e, history := h1, effects := eff }
  | (.ok reply, eff) =>
    let h2 := h1.addResponse reply
    -- `if not response: return None` else `loads(response, self._config)`
    { value := if reply == "" then pure .none else loadsK K c.cfg c.unconv reply,
      history := h2, effects := eff }

/-- `ServerProxy._request(methodname, params)`; `fresh` is the id `uuid4` gives this request. -/
def request (K : Codec) (c : Proxy) (p : Peer) (h : History) (fresh : String)
    (methodname : String) (params : PyVal) : Run PyVal :=
  match dumpsK K c.cfg c.conv fresh (.val params) (.str methodname) .none c.version false false with
  | .error e => { value := .error e, history := h, effects := [] }
  | .ok text =>
    let r := runRequest K c p h text
    { r with value := r.value.bind Client.proxyResult }

/-- `ServerProxy._request_notify(methodname, params)`. -/
def requestNotify (K : Codec) (c : Proxy) (p : Peer) (h : History) (fresh : String)
    (methodname : String) (params : PyVal) : Run PyVal :=
  match dumpsK K c.cfg c.conv fresh (.val params) (.str methodname) .none c.version false true with
  | .error e => { value := .error e, history := h, effects := [] }
  | .ok text =>
    let r := runRequest K c p h text
    { r with value := r.value.bind Client.proxyNotify }

/-- `proxy.<path>(*args, **kwargs)`. -/
def call (K : Codec) (c : Proxy) (p : Peer) (h : History) (fresh : String)
    (path : List String) (args : List PyVal) (kwargs : List (PyVal × PyVal)) : Run PyVal :=
  match proxyAttr path with
  | .error e => { value := .error e, history := h, effects := [] }
  | .ok name =>
    match methodParams args kwargs with
    | .error e => { value := .error e, history := h, effects := [] }
    | .ok params => request K c p h fresh name params

/-- `proxy._notify.<path>(*args, **kwargs)`. -/
def notify (K : Codec) (c : Proxy) (p : Peer) (h : History) (fresh : String)
    (path : List String) (args : List PyVal) (kwargs : List (PyVal × PyVal)) : Run PyVal :=
  match notifyAttr path with
  | .error e => { value := .error e, history := h, effects := [] }
  | .ok name =>
    match methodParams args kwargs with
    | .error e => { value := .error e, history := h, effects := [] }
    | .ok params => requestNotify K c p h fresh name params

/- ---------- MultiCall ---------- -/

/-- A `MultiCallMethod` of the job list: `method`, `params`, `notify`. -/
structure Job where
  method : String
  params : PyVal
  notify : Bool
deriving Repr, DecidableEq, Inhabited

/-- Names found on a `MultiCall` / `MultiCallMethod` / `MultiCallNotify` before `__getattr__`. -/
def multicallOwnAttrs : List String := ["_server", "_job_list", "_config", "_request", "_notify"]
def multicallMethodOwnAttrs : List String := ["method", "params", "notify", "_config", "request"]
def multicallNotifyOwnAttrs : List String := ["multicall", "_config"]

/-- `MultiCallMethod.__getattr__(method)`: `self.method = "{0}.{1}".format(self.method, method)`. -/
def extendJobName (acc : String) : List String → PyM String
  | [] => pure acc
  | seg :: rest =>
    if isDunder seg || multicallMethodOwnAttrs.contains seg then
      raise "Unmodelled" (.str "own attribute of MultiCallMethod")
    else extendJobName (acc ++ "." ++ seg) rest

/-- `MultiCallMethod.__call__(*args, **kwargs)`: `if kwargs: params = kwargs else: params = args`. -/
def jobParams (args : List PyVal) (kwargs : List (PyVal × PyVal)) : PyM PyVal :=
  if (PyVal.dict kwargs).truthy && (PyVal.tuple args).truthy then
    raise "ProtocolError" (.str "JSON-RPC does not support both positional and keyword arguments.")
  else if (PyVal.dict kwargs).truthy then pure (.dict kwargs)
  else pure (.tuple args)

/-- `mc.<path>(*args, **kwargs)` / `mc._notify.<path>(*args, **kwargs)`: the job appended to the list. -/
def mkJob (notify : Bool) (path : List String) (args : List PyVal) (kwargs : List (PyVal × PyVal)) : PyM Job :=
  match path with
  | [] => raise "Unmodelled" (.str "no attribute access")
  | first :: rest =>
    if isDunder first || (if notify then multicallNotifyOwnAttrs else multicallOwnAttrs).contains first then
      raise "Unmodelled" (.str "own attribute of MultiCall")
    else do
      let name ← extendJobName first rest
      let params ← jobParams args kwargs
      pure { method := name, params := params, notify := notify }

/-- The configuration a `MultiCall` renders its jobs with (its own `config` argument, not the proxy's). -/
structure McConfig where
  cfg : Config
  conv : PyVal → PyM PyVal := pure

/-- `job.request()`: `dumps(self.params, self.method, version=2.0, rpcid=None, notify=self.notify, config)`. -/
def jobRequest (K : Codec) (m : McConfig) (fresh : String) (j : Job) : PyM String :=
  dumpsK K m.cfg m.conv fresh (.val j.params) (.str j.method) .none (.num 20) false j.notify

/-- `job.request() for job in self._job_list`, left to right; job `i` draws the id `fresh i`. -/
def renderJobs (K : Codec) (m : McConfig) (fresh : Nat → String) : Nat → List Job → PyM (List String)
  | _, [] => pure []
  | i, j :: rest => do
    let t ← jobRequest K m (fresh i) j
    let ts ← renderJobs K m fresh (i + 1) rest
    pure (t :: ts)

/-- `"[ {0} ]".format(",".join(texts))`. -/
def batchBody (texts : List String) : String := "[ " ++ ",".intercalate texts ++ " ]"

/-- What `mc()` returns: `None` for an empty job list, else a `MultiCallIterator` over `results`. -/
inductive McResult where
  | noJobs
  | iterator (results : PyVal)
deriving Repr, DecidableEq

/-- The end of `MultiCall._request()`: `if not responses: responses = []`;
    `elif isinstance(responses, dict): check_for_errors(responses); responses = [responses]` (the server
    answered the whole batch with one object: the error it describes is raised by the batch call itself);
    `return MultiCallIterator(responses)`. -/
def wrapResponses (responses : PyVal) : PyM McResult :=
  if !responses.truthy then pure (.iterator (.list []))
  else match responses with
    | .dict _ => do
      let _ ← Client.checkForErrors responses
      pure (.iterator (.list [responses]))
    | _ => pure (.iterator responses)

/-- `MultiCall._request()`. -/
def multicall (K : Codec) (c : Proxy) (m : McConfig) (p : Peer) (h : History) (fresh : Nat → String)
    (jobs : List Job) : Run McResult :=
  if jobs.length < 1 then { value := pure .noJobs, history := h, effects := [] }
  else
    match renderJobs K m fresh 0 jobs with
    | .error e => { value := .error e, history := h, effects := [] }
    | .ok texts =>
      let r := runRequest K c p h (batchBody texts)
      { value := r.value.bind (wrapResponses ·), history := r.history, effects := r.effects }

/-- `MultiCallIterator.__getitem__(i)` for `i ≥ 0` (`self.results[i]` on a list; on the dict of a single
    error reply Python raises `KeyError(i)`; other kinds are declined). -/
def iterGet (results : PyVal) (i : Nat) : PyM PyVal :=
  match results with
  | .list xs => Client.multicallGet xs i
  | .dict kvs =>
    if kvs.all (fun kv => kv.1.isStr) then raise "KeyError" (.int i)
    else raise "Unmodelled" (.str "results[i] on a dict with non-string keys")
  | _ => raise "Unmodelled" (.str "results[i] on a non-list")

/-- `list(iterator)`: `for item in self.results: yield get_result(item)` — stops at the first exception. -/
def iterAll (results : PyVal) : PyM (List PyVal) :=
  match results with
  | .list xs => xs.mapM Client.proxyResult
  | _ => raise "Unmodelled" (.str "iteration over a non-list")

/-- `len(iterator)`. -/
def iterLen (results : PyVal) : PyM Nat :=
  match results with
  | .list xs => pure xs.length
  | .dict kvs => pure kvs.length
  | _ => raise "Unmodelled" (.str "len of a non-container")

/- ---------- the client-side helper objects and the state they keep ---------- -/

/-
  The functions above describe one expression `proxy.a.b(…)` / one freshly built `MultiCall`.  A program can
  also KEEP the intermediate objects and use them again (`ns = proxy.ns; ns.a(); ns.b()`, one `MultiCall`
  called twice, a `MultiCallMethod` extended by separate statements).  What such a program observes is decided
  by the state the real classes keep, modelled here exactly:

    _Method           `self.__send`, `self.__name`, never assigned after `__init__`; `__getattr__` builds a NEW
                      `_Method(self.__send, "{0}.{1}".format(self.__name, name))`
    _Notify           `self._request` only (no state that changes); `__getattr__` builds a new `_Method`
    MultiCallMethod   `self.method`, `self.params` (initially `[]`), `self.notify`; `__getattr__` ASSIGNS
                      `self.method = "{0}.{1}".format(self.method, method)` and returns `self`; `__call__`
                      assigns `self.params`
    MultiCallNotify   `self.multicall`; `__getattr__` appends a new `MultiCallMethod(name, notify=True)` to
                      `self.multicall._job_list`
    MultiCall         `self._job_list`; `__getattr__` appends a new `MultiCallMethod(name)` — at attribute access,
                      before any call —; `_request` executes `del self._job_list[:]` right after
                      `self._server._run_request(request_body)` returned (not when it raised, not when a
                      `job.request()` raised, not for an empty list).

  Objects are heap cells named by their index (identity); a Python variable holds a `Ref`.
-/

/-- A `_Method` object: the sender it was built with (`_request` or `_request_notify`) and `self.__name`. -/
structure MethodObj where
  notify : Bool
  name : String
deriving Repr, DecidableEq, Inhabited

/-- Every helper object created so far.  `lists[i]` is the `_job_list` of the `i`-th `MultiCall`: the
    identities (indices into `jobs`) of its `MultiCallMethod` objects, in order. -/
structure Heap where
  methods : List MethodObj := []
  jobs : List Job := []
  lists : List (List Nat) := []
deriving Repr, DecidableEq, Inhabited

/-- What a variable of the client program holds. -/
inductive Ref where
  | proxy                    -- the `ServerProxy`
  | notifier                 -- a `_Notify` (the property `ServerProxy._notify` builds one per access; it has no state)
  | method (i : Nat)         -- a `_Method`
  | multicall (i : Nat)      -- a `MultiCall`
  | mcNotify (i : Nat)       -- a `MultiCallNotify` of the `i`-th `MultiCall`
  | job (k : Nat)            -- a `MultiCallMethod`
deriving Repr, DecidableEq, Inhabited

/-- `MultiCall(proxy, config=…)`. -/
def Heap.newMulticall (hp : Heap) : Ref × Heap :=
  (.multicall hp.lists.length, { hp with lists := hp.lists ++ [[]] })

/-- `_Method(send, name)`. -/
def Heap.newMethod (hp : Heap) (notify : Bool) (name : String) : Ref × Heap :=
  (.method hp.methods.length, { hp with methods := hp.methods ++ [{ notify := notify, name := name }] })

/-- `new_job = MultiCallMethod(name, notify=…); self._job_list.append(new_job); return new_job`. -/
def Heap.newJob (hp : Heap) (mc : Nat) (name : String) (notify : Bool) : PyM (Ref × Heap) :=
  match hp.lists[mc]? with
  | Option.none => raise "Unmodelled" (.str "no such MultiCall")
  | some l =>
    pure (.job hp.jobs.length,
      { hp with jobs := hp.jobs ++ [{ method := name, params := .list [], notify := notify }],
                lists := hp.lists.set mc (l ++ [hp.jobs.length]) })

/-- `getattr(obj, name)` on a helper object, with the heap afterwards.  Names that normal lookup finds on
    the object (own attributes, dunder names of `object`) are declined, except the two properties
    `ServerProxy._notify` and `MultiCall._notify`. -/
def getAttr (hp : Heap) (r : Ref) (name : String) : PyM (Ref × Heap) :=
  match r with
  | .proxy =>
    if name == "_notify" then pure (.notifier, hp)
    else if proxyOwnAttrs.contains name then raise "Unmodelled" (.str "own attribute of ServerProxy")
    else if isDunder name then raise "AttributeError" (.str name)
    else pure (hp.newMethod false name)
  | .notifier =>
    if isDunder name || notifyOwnAttrs.contains name then raise "Unmodelled" (.str "own attribute of _Notify")
    else pure (hp.newMethod true name)
  | .method i =>
    match hp.methods[i]? with
    | Option.none => raise "Unmodelled" (.str "no such _Method")
    | some mo =>
      if isDunder name || methodOwnAttrs.contains name then raise "Unmodelled" (.str "own attribute of _Method")
      else pure (hp.newMethod mo.notify (mo.name ++ "." ++ name))
  | .multicall i =>
    if name == "_notify" then
      (if i < hp.lists.length then pure (.mcNotify i, hp) else raise "Unmodelled" (.str "no such MultiCall"))
    else if isDunder name || multicallOwnAttrs.contains name then raise "Unmodelled" (.str "own attribute of MultiCall")
    else hp.newJob i name false
  | .mcNotify i =>
    if isDunder name || multicallNotifyOwnAttrs.contains name then
      raise "Unmodelled" (.str "own attribute of MultiCallNotify")
    else hp.newJob i name true
  | .job k =>
    match hp.jobs[k]? with
    | Option.none => raise "Unmodelled" (.str "no such MultiCallMethod")
    | some j =>
      if isDunder name || multicallMethodOwnAttrs.contains name then
        raise "Unmodelled" (.str "own attribute of MultiCallMethod")
      else pure (.job k, { hp with jobs := hp.jobs.set k { j with method := j.method ++ "." ++ name } })

/-- `obj.<s1>.<s2>…` as one expression: every access is applied to the result of the previous one. -/
def getAttrs (hp : Heap) (r : Ref) : List String → PyM (Ref × Heap)
  | [] => pure (r, hp)
  | seg :: rest =>
    match getAttr hp r seg with
    | .error e => .error e
    | .ok (r', hp') => getAttrs hp' r' rest

/-- `_Method.__call__` on an object with these fields: `self.__send(self.__name, args | kwargs)`. -/
def sendVia (K : Codec) (c : Proxy) (p : Peer) (h : History) (fresh : String) (mo : MethodObj)
    (args : List PyVal) (kwargs : List (PyVal × PyVal)) : Run PyVal :=
  match methodParams args kwargs with
  | .error e => { value := .error e, history := h, effects := [] }
  | .ok params =>
    if mo.notify then requestNotify K c p h fresh mo.name params else request K c p h fresh mo.name params

/-- `m(*args, **kwargs)` on a `_Method`: no object changes. -/
def callMethod (K : Codec) (c : Proxy) (p : Peer) (h : History) (fresh : String) (hp : Heap) (i : Nat)
    (args : List PyVal) (kwargs : List (PyVal × PyVal)) : Run PyVal :=
  match hp.methods[i]? with
  | Option.none => { value := raise "Unmodelled" (.str "no such _Method"), history := h, effects := [] }
  | some mo => sendVia K c p h fresh mo args kwargs

/-- `job(*args, **kwargs)` on a `MultiCallMethod`: `self.params = kwargs` / `self.params = args`; returns `None`. -/
def callJob (hp : Heap) (k : Nat) (args : List PyVal) (kwargs : List (PyVal × PyVal)) : PyM Heap :=
  match hp.jobs[k]? with
  | Option.none => raise "Unmodelled" (.str "no such MultiCallMethod")
  | some j => do
    let params ← jobParams args kwargs
    pure { hp with jobs := hp.jobs.set k { j with params := params } }

/-- The jobs a `MultiCall` holds now: its `_job_list` dereferenced. -/
def Heap.jobsOf (hp : Heap) (i : Nat) : Option (List Job) :=
  match hp.lists[i]? with
  | Option.none => Option.none
  | some l => l.mapM (fun k => hp.jobs[k]?)

/-- Whether `MultiCall._request()` on these jobs reaches `del self._job_list[:]`: the list is not empty,
    every `job.request()` rendered and `_run_request` returned (it raises when the transport does or when
    `loads` refuses the reply). -/
def multicallClears (K : Codec) (c : Proxy) (m : McConfig) (p : Peer) (h : History) (fresh : Nat → String)
    (jobs : List Job) : Bool :=
  if jobs.length < 1 then false
  else
    match renderJobs K m fresh 0 jobs with
    | .error _ => false
    | .ok texts =>
      match (runRequest K c p h (batchBody texts)).value with
      | .ok _ => true
      | .error _ => false

/-- `mc()` on a kept `MultiCall`: the exchange is `multicall` on the jobs the object holds NOW; afterwards the
    object's list is empty if `del self._job_list[:]` was reached, unchanged otherwise.  (The
    `MultiCallMethod` objects themselves stay alive: a kept reference to one can still be extended or called,
    without effect on later batches.) -/
def callMulticall (K : Codec) (c : Proxy) (m : McConfig) (p : Peer) (h : History) (fresh : Nat → String)
    (hp : Heap) (i : Nat) : Run McResult × Heap :=
  match hp.jobsOf i with
  | Option.none => ({ value := raise "Unmodelled" (.str "no such MultiCall"), history := h, effects := [] }, hp)
  | some js =>
    (multicall K c m p h fresh js,
     if multicallClears K c m p h fresh js then { hp with lists := hp.lists.set i [] } else hp)

/-- A job description: notification?, attribute path, positional arguments, keywords. -/
abbrev JobCall := Bool × List String × List PyVal × List (PyVal × PyVal)

/-- `mc.<path>(*args, **kwargs)` / `mc._notify.<path>(*args, **kwargs)` on a kept `MultiCall`, as the object
    operations it consists of. -/
def addJob (hp : Heap) (i : Nat) (notify : Bool) (path : List String) (args : List PyVal)
    (kwargs : List (PyVal × PyVal)) : PyM Heap :=
  match (if notify then getAttr hp (.multicall i) "_notify" else pure (.multicall i, hp)) with
  | .error e => .error e
  | .ok (r0, hp0) =>
    match path with
    | [] => raise "Unmodelled" (.str "no attribute access")
    | _ :: _ =>
      match getAttrs hp0 r0 path with
      | .error e => .error e
      | .ok (.job k, hp1) => callJob hp1 k args kwargs
      | .ok _ => raise "Unmodelled" (.str "not a MultiCallMethod")

/-- Several such statements, one after the other. -/
def addJobs (hp : Heap) (i : Nat) : List JobCall → PyM Heap
  | [] => pure hp
  | (notify, path, args, kwargs) :: rest =>
    match addJob hp i notify path args kwargs with
    | .error e => .error e
    | .ok hp' => addJobs hp' i rest

/- ---------- the same exchange over HTTP: bytes, reads and chunks (JRV.Model.Wire) ---------- -/

/-- What the network and the two HTTP stacks are free to do with one exchange: how many bytes each
    `rfile.read` of `do_POST` returns at most, what follows the body on the connection, and how the reply bytes
    are cut into the pieces `JSONTarget.feed` receives (`Transport.parse_response` reads 1024 bytes at a time; a
    socket may deliver less). -/
structure WireSchedule where
  maxChunk : Nat := Wire.maxChunkSize
  rest : Wire.Bytes := []
  reads : List Nat
  chunks : Wire.Bytes → List Wire.Bytes

/-- The reads deliver the announced number of bytes (fault-free network: no short body). -/
def WireSchedule.complete (w : WireSchedule) (request : String) : Prop :=
  Wire.readTotal w.maxChunk (Wire.toBytes request).length (Wire.toBytes request ++ w.rest) w.reads =
    (Wire.toBytes request).length

/-- The pieces of a reply are its bytes, in order (fault-free network: nothing lost, nothing added). -/
def WireSchedule.faithful (w : WireSchedule) : Prop := ∀ b, (w.chunks b).flatten = b

/-- `ServerProxy._run_request` when the transport is HTTP: the request text goes out as its UTF-8 bytes with
    `Content-Length` = their number (`C17_content_length`), `do_POST` collects the body with the read loop and
    decodes it once (`Wire.serverBody`), hands the text to `_marshaled_dispatch` (`serve`), writes the reply text
    as its UTF-8 bytes (`C17_do_post_framing`), which reach `JSONTarget` in pieces and are decoded once at
    `close()` (`Wire.clientClose`).  A 500 reply / an undecodable reply are outside this model (declined). -/
def runRequestWire (K : Codec) (c : Proxy) (p : Peer) (h : History) (w : WireSchedule) (request : String) :
    Run PyVal :=
  let h1 := h.addRequest request
  match Wire.serverBody w.maxChunk (Wire.toBytes request).length (Wire.toBytes request ++ w.rest) w.reads with
  | .error _ => { value := raise "Unmodelled" (.str "500 reply"), history := h1, effects := [] }
  | .ok data =>
    match serve K p data with
    | (.error e, eff) => { value := .error e, history := h1, effects := eff }
    | (.ok reply, eff) =>
      match Wire.clientClose (w.chunks (Wire.toBytes reply)) with
      | .raw _ => { value := raise "Unmodelled" (.str "undecodable reply"), history := h1, effects := eff }
      | .text t =>
        { value := if t == "" then pure .none else loadsK K c.cfg c.unconv t,
          history := h1.addResponse t, effects := eff }

/- ---------- payloads the class translator leaves alone ---------- -/

mutual
  /-- No dictionary anywhere in the value has a `"__jsonclass__"` key (what the property calls
      "payloads free of '__jsonclass__'"). -/
  def jcFree : PyVal → Bool
    | .list xs => jcFreeList xs
    | .tuple xs => jcFreeList xs
    | .set xs => jcFreeList xs
    | .frozenset xs => jcFreeList xs
    | .dict kvs => jcFreeKVs kvs
    | .obj _ _ => false
    | _ => true
  def jcFreeList : List PyVal → Bool
    | [] => true
    | x :: xs => jcFree x && jcFreeList xs
  def jcFreeKVs : List (PyVal × PyVal) → Bool
    | [] => true
    | (k, v) :: rest => k != .str "__jsonclass__" && jcFree v && jcFreeKVs rest
end

/- ---------- structure of the modelled functions, compared with the source on every run ---------- -/

/-- `_Method.__call__`: the class raised for `args and kwargs`, what is sent with positional arguments,
    with keywords only, with neither (an empty container either way). -/
def methodCallShape : String × String × String × String := ("ProtocolError", "args", "kwargs", "empty")
/-- `ServerProxy._request`: `check_for_errors(response)` then `return response["result"]`. -/
def requestResultShape : String × String := ("check_for_errors", "result")
/-- `ServerProxy._run_request`: the request text is recorded before the transport call, the response text
    (the transport's result, not the parsed object) after it and before it is parsed. -/
def runRequestEvents : List String := ["add_request", "transport", "add_response", "loads"]
/-- `"[ {0} ]".format(",".join(job.request() for job in self._job_list))`. -/
def batchPrefix : String := "[ "
def batchSep : String := ","
def batchSuffix : String := " ]"
theorem batchBody_eq (texts : List String) :
    batchBody texts = batchPrefix ++ batchSep.intercalate texts ++ batchSuffix := rfl
/-- `MultiCallMethod.request`: `version=2.0`. -/
def multicallVersion : Nat := 20
theorem jobRequest_version (K : Codec) (m : McConfig) (fresh : String) (j : Job) :
    jobRequest K m fresh j =
      dumpsK K m.cfg m.conv fresh (.val j.params) (.str j.method) .none (.num multicallVersion) false j.notify := rfl

/-- The test under which `ServerProxy.__getattr__` refuses a name, as the extractor reports it: the class raised,
    the connective, the tests on the name. -/
def dunderTest : String × String × List (String × String) :=
  ("AttributeError", "and", [("startswith", "__"), ("endswith", "__")])

/-- `name.startswith(lit)` / `name.endswith(lit)`. -/
def evalNameAtom (name : String) (a : String × String) : Bool :=
  if a.1 == "startswith" then name.toList.take a.2.length == a.2.toList
  else if a.1 == "endswith" then name.toList.reverse.take a.2.length == a.2.toList.reverse
  else false

/-- A conjunction / disjunction of such tests. -/
def evalNameTest (conn : String) (atoms : List (String × String)) (name : String) : Bool :=
  if conn == "and" then atoms.all (evalNameAtom name) else atoms.any (evalNameAtom name)

/-- `ServerProxy.__getattr__` answers every other name with `_Method(self._request, name)`. -/
def proxyGetattrShape : String × String × String := ("_Method", "_request", "name")
/-- `_Method.__getattr__`: `"__name__"` is answered with the name; every other name with a NEW
    `_Method(self.__send, "{0}.{1}".format(self.__name, name))`; no attribute of `self` is assigned
    (`getAttr` on a `Ref.method`: a new cell, the heap otherwise unchanged). -/
def methodGetattrShape : List String × String × Bool × Bool := (["__name__"], "{0}.{1}", true, true)
/-- `MultiCallMethod.__getattr__`: `self.method = "{0}.{1}".format(self.method, method); return self`
    (`getAttr` on a `Ref.job`: the cell is overwritten, the same reference is returned). -/
def jobGetattrShape : String × Bool × Bool := ("{0}.{1}", true, true)
/-- `MultiCall._request`: `del self._job_list[:]` is the statement after the `_run_request` call (`multicallClears`). -/
def clearsJobsWhen : String := "after-run-request"
/-- `MultiCall._request`: the value `_run_request` returned is handed to `MultiCallIterator` as it is (`wrapResponses`:
    `[]` when falsy, `[value]` for a single object) — entry `i` of the iterator is entry `i` of the server's reply, for a
    batch of any size; nothing sorts, filters or rebuilds the list. -/
def responsesUntouched : Bool := true
/-- `job.request()` is called without arguments: every job draws a fresh id (`renderJobs`: job `i` draws `fresh i`). -/
def jobIds : String := "default"

end JRV.EndToEnd
