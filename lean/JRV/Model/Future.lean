/-
  JRV.Model.Future — labelled transition system for ONE `FutureResult` (jsonrpclib/threadpool.py)
  and its `EventData`, at source-line granularity (property C16).

  Mirrors the repaired code (commits 170dc26: `__lock` + `__completed`; defbf72: timed-out wait):

    set_callback(method, extra):            execute(method, args, kwargs):
      with self.__lock:          acq          result = method(*args, **kwargs)      call  (env: ret v | raise e)
        self.__callback = method storeCb      _done_event.set(result) | raise_exception(ex):
        self.__extra = extra     storeExtra       self.__data = ..                  sData
        completed = self.__completed  readCompleted    self.__exception = ..        sExc
      (exit of `with`)           rel              self.__event.set()                sEvt
      if completed:                          finally:
        self.__notify(method, extra)           with self.__lock:                    acq
                                                 self.__completed = True            setCompleted
    __notify(callback, extra):                   callback = self.__callback         readCb
      if callback is not None:                   extra = self.__extra               readExtra
        try: callback(                          (exit of `with`)                    rel
          self._done_event.data,   readData     self.__notify(callback, extra)      readData readExc invoke [logErr]
          self._done_event.exception, readExc  (re-raise of the task's exception)   fin
          extra)                   invoke
        except Exception as ex:
          self._logger.exception(..) logErr

    done():   return self.__event.is_set()                      readFlag
    result(timeout):
      wait:  result = self.__event.wait(timeout)                wait   (returns True iff set; the timeout branch is
                                                                        enabled only while the event is NOT set)
             if not result or self.__exception is None: return result   readExc1   (reads `__exception` only when
                                                                        the wait returned True — commit defbf72)
             else: raise self.__exception                       readExc2   (a second read)
      return self._done_event.data                              readData
      raise OSError("Timeout raised")

  Lines that touch no shared attribute (`if completed:`, `try:`, `if callback is not None:`, argument
  normalisation, the calls that only enter a method) are executed together with the next labelled line of
  the same thread: they read and write locals only, so they commute with every step of every other thread.

  Threads: one executor, registrars `reg i` and observers `obs j` for every natural number (a thread that
  has not called yet is `idle`), so "any number of threads" is built in.  The environment chooses the
  task's outcome (`execCall o`), each registration's callback behaviour and `extra` (`regCall`), and when a
  timed wait gives up (`obsTimeout`, enabled only while the event flag is clear).

  Python objects are abstract identities: `Obj = Option Nat`, `none` being `None`.  An identity carries no
  value and in particular no truth value: `0`, `""`, `[]`, `False`, `()`, an exception with empty `args` or a
  falsy `__bool__`/`__len__`, a callable instance whose `__bool__` is False are `some n` like any other object,
  because the code never asks for the truth value of a result, an exception, an `extra` or a callable: every
  test is an identity test against `None` (`callback is not None`, `self.__exception is None`; extracted facts
  `notifyGuard`, `waitGuard`).  The harness draws results / extras / exceptions / callables from those falsy
  families and numbers them by identity.  A task that raises a `BaseException` that is not an `Exception`
  (KeyboardInterrupt, SystemExit) is outside the domain of C16 ("tasks that return any object or raise any
  exception") and is not modelled.
-/

namespace JRV.Future

abbrev Obj := Option Nat

/-- What the registered callable does when called with three arguments. -/
inductive CbKind
  | returns      -- returns normally
  | raises       -- raises an `Exception`
  | wrongArity   -- cannot be called with three arguments: `TypeError` at the call
  deriving DecidableEq, Repr

/-- A callable as stored in `FutureResult.__callback`: tagged with the registration that supplied it. -/
structure Cb where
  rid : Nat
  kind : CbKind
  deriving DecidableEq, Repr

/-- Outcome of the task body (`Exception` subclasses only, see header). -/
inductive Outcome
  | ret (v : Obj)
  | raise (e : Nat)
  deriving DecidableEq, Repr

/-- What `EventData.set` / `raise_exception` store in `__data`. -/
def Outcome.data : Outcome → Obj
  | .ret v => v
  | .raise _ => none

/-- What `EventData.set` / `raise_exception` store in `__exception`. -/
def Outcome.exc : Outcome → Obj
  | .ret _ => none
  | .raise e => some e

inductive Tid
  | exec
  | reg (i : Nat)
  | obs (j : Nat)
  deriving DecidableEq, Repr

/-- Program counter of a registrar: the NEXT labelled line it will execute. -/
inductive RPc
  | idle | acq | storeCb | storeExtra | readCompleted | rel | readData | readExc | invoke | logErr | fin
  deriving DecidableEq, Repr

structure Reg where
  pc : RPc := .idle
  method : Option CbKind := none     -- argument `method` (`none` = Python `None`)
  extra : Obj := none                -- argument `extra`
  completed : Bool := false          -- local `completed`
  d : Obj := none                    -- value read from `_done_event.data`
  x : Obj := none                    -- value read from `_done_event.exception`

/-- The callable passed by registration i, as stored in `__callback` (`None` stays `None`). -/
def Reg.cb (r : Reg) (i : Nat) : Option Cb :=
  match r.method with
  | none => none
  | some k => some ⟨i, k⟩

inductive EPc
  | call | sData | sExc | sEvt | acq | setCompleted | readCb | readExtra | rel
  | readData | readExc | invoke | logErr | fin
  deriving DecidableEq, Repr

structure Exec where
  pc : EPc := .call
  outcome : Option Outcome := none   -- `result` / `ex` of `execute`
  cb : Option Cb := none             -- local `callback`
  extra : Obj := none                -- local `extra`
  d : Obj := none
  x : Obj := none
  capFrom : Option Nat := none       -- ghost: the last registrar that entered its critical section before ours

inductive OKind
  | done
  | result (timeout : Bool)          -- `result(timeout)`: `false` = `timeout=None` (waits for ever)
  deriving DecidableEq, Repr

inductive OPc
  | idle | readFlag | wait | readExc1 | readExc2 | readData | fin
  deriving DecidableEq, Repr

/-- Label of a program counter: the name the harness gives to the corresponding source line. -/
def RPc.label : RPc → String
  | .idle => "idle" | .acq => "acq" | .storeCb => "storeCb" | .storeExtra => "storeExtra"
  | .readCompleted => "readCompleted" | .rel => "rel" | .readData => "readData" | .readExc => "readExc"
  | .invoke => "invoke" | .logErr => "logErr" | .fin => "fin"

def EPc.label : EPc → String
  | .call => "call" | .sData => "sData" | .sExc => "sExc" | .sEvt => "sEvt" | .acq => "acq"
  | .setCompleted => "setCompleted" | .readCb => "readCb" | .readExtra => "readExtra" | .rel => "rel"
  | .readData => "readData" | .readExc => "readExc" | .invoke => "invoke" | .logErr => "logErr" | .fin => "fin"

def OPc.label : OPc → String
  | .idle => "idle" | .readFlag => "readFlag" | .wait => "wait" | .readExc1 => "readExc1"
  | .readExc2 => "readExc2" | .readData => "readData" | .fin => "fin"

/-- Order in which the model executes the lines of `set_callback` / `execute` (after the task call). -/
def regProgram : List RPc :=
  [.acq, .storeCb, .storeExtra, .readCompleted, .rel, .readData, .readExc, .invoke, .logErr]

def execProgram : List EPc :=
  [.call, .sData, .sExc, .sEvt, .acq, .setCompleted, .readCb, .readExtra, .rel, .readData, .readExc, .invoke, .logErr]

/-- What an observer's call returned or raised. -/
inductive ORes
  | pending
  | bool (b : Bool)        -- `done()` returned b
  | val (v : Obj)          -- `result()` returned v
  | raised (e : Nat)       -- `result()` raised the exception object e
  | osError                -- `result()` raised OSError("Timeout raised")
  | typeError              -- `raise None` (shown unreachable)
  deriving DecidableEq, Repr

structure Obs where
  pc : OPc := .idle
  kind : OKind := .done
  w : Bool := false                  -- local `result` of `EventData.wait`
  res : ORes := .pending

/-- One call of a registered callable (or the attempt, for `wrongArity`). -/
structure Attempt where
  rid : Nat            -- registration whose `method` was called
  kind : CbKind
  caller : Tid         -- the thread that made the call
  data : Obj           -- first argument
  exc : Obj            -- second argument
  extra : Obj          -- third argument
  deriving DecidableEq, Repr

structure State where
  callback : Option Cb := none       -- FutureResult.__callback
  extra : Obj := none                -- FutureResult.__extra
  completed : Bool := false          -- FutureResult.__completed
  lock : Option Tid := none          -- owner of FutureResult.__lock
  flag : Bool := false               -- EventData.__event
  data : Obj := none                 -- EventData.__data
  exc : Obj := none                  -- EventData.__exception
  regs : Nat → Reg := fun _ => {}
  ex : Exec := {}
  obs : Nat → Obs := fun _ => {}
  attempts : List Attempt := []      -- invocation log, in order
  errs : List (Nat × Bool) := []     -- `_logger.exception` records: (registration, is TypeError)
  lastReg : Option Nat := none       -- ghost: the last registrar that entered its critical section

def init : State := {}

inductive Action
  | regCall (i : Nat) (method : Option CbKind) (extra : Obj)  -- thread i calls set_callback(method, extra)
  | reg (i : Nat)                                             -- registrar i executes its next labelled line
  | execCall (o : Outcome)                                    -- the task body finishes with outcome o
  | exec                                                      -- the executor executes its next labelled line
  | obsCall (j : Nat) (k : OKind)                             -- thread j calls done() / result(timeout)
  | obs (j : Nat)
  | obsTimeout (j : Nat)                                      -- the timed wait of observer j gives up
  deriving Repr

def setReg (s : State) (i : Nat) (r : Reg) : State :=
  { s with regs := fun j => if j = i then r else s.regs j }

def setObs (s : State) (j : Nat) (o : Obs) : State :=
  { s with obs := fun k => if k = j then o else s.obs k }

def stepReg (s : State) (i : Nat) : Option State :=
  let r := s.regs i
  match r.pc with
  | .idle => none
  | .acq =>
    match s.lock with
    | none => some { setReg s i { r with pc := .storeCb } with lock := some (.reg i), lastReg := some i }
    | some _ => none
  | .storeCb =>
    some { setReg s i { r with pc := .storeExtra } with callback := r.cb i }
  | .storeExtra => some { setReg s i { r with pc := .readCompleted } with extra := r.extra }
  | .readCompleted => some (setReg s i { r with pc := .rel, completed := s.completed })
  | .rel =>
    some { setReg s i { r with pc := if r.completed = true ∧ r.method ≠ none then .readData else .fin } with lock := none }
  | .readData => some (setReg s i { r with pc := .readExc, d := s.data })
  | .readExc => some (setReg s i { r with pc := .invoke, x := s.exc })
  | .invoke =>
    match r.method with
    | none => none
    | some k =>
      some { setReg s i { r with pc := if k = .returns then .fin else .logErr } with
             attempts := s.attempts ++ [{ rid := i, kind := k, caller := .reg i, data := r.d, exc := r.x, extra := r.extra }] }
  | .logErr =>
    some { setReg s i { r with pc := .fin } with errs := s.errs ++ [(i, decide (r.method = some .wrongArity))] }
  | .fin => none

def stepExec (s : State) : Option State :=
  let e := s.ex
  match e.pc with
  | .call => none     -- the task is running: only `execCall` ends it
  | .sData => e.outcome.map fun o => { s with data := o.data, ex := { e with pc := .sExc } }
  | .sExc => e.outcome.map fun o => { s with exc := o.exc, ex := { e with pc := .sEvt } }
  | .sEvt => some { s with flag := true, ex := { e with pc := .acq } }
  | .acq =>
    match s.lock with
    | none => some { s with lock := some .exec, ex := { e with pc := .setCompleted, capFrom := s.lastReg } }
    | some _ => none
  | .setCompleted => some { s with completed := true, ex := { e with pc := .readCb } }
  | .readCb => some { s with ex := { e with pc := .readExtra, cb := s.callback } }
  | .readExtra => some { s with ex := { e with pc := .rel, extra := s.extra } }
  | .rel => some { s with lock := none, ex := { e with pc := if e.cb ≠ none then .readData else .fin } }
  | .readData => some { s with ex := { e with pc := .readExc, d := s.data } }
  | .readExc => some { s with ex := { e with pc := .invoke, x := s.exc } }
  | .invoke =>
    match e.cb with
    | none => none
    | some c =>
      some { s with ex := { e with pc := if c.kind = .returns then .fin else .logErr },
                    attempts := s.attempts ++ [{ rid := c.rid, kind := c.kind, caller := .exec, data := e.d, exc := e.x, extra := e.extra }] }
  | .logErr =>
    match e.cb with
    | none => none
    | some c => some { s with ex := { e with pc := .fin }, errs := s.errs ++ [(c.rid, decide (c.kind = .wrongArity))] }
  | .fin => none

def stepObs (s : State) (j : Nat) : Option State :=
  let o := s.obs j
  match o.pc with
  | .idle => none
  | .readFlag => some (setObs s j { o with pc := .fin, res := .bool s.flag })
  | .wait => if s.flag then some (setObs s j { o with pc := .readExc1, w := true }) else none
  | .readExc1 =>
    if o.w = false then
      -- `not result` short-circuits: `__exception` is NOT read after a timeout; result() raises OSError
      some (setObs s j { o with pc := .fin, res := .osError })
    else
      match s.exc with
      | none => some (setObs s j { o with pc := .readData })
      | some _ => some (setObs s j { o with pc := .readExc2 })
  | .readExc2 =>
    match s.exc with
    | some e => some (setObs s j { o with pc := .fin, res := .raised e })
    | none => some (setObs s j { o with pc := .fin, res := .typeError })
  | .readData => some (setObs s j { o with pc := .fin, res := .val s.data })
  | .fin => none

/-- The timed wait of `result(timeout)` gives up: only while the event flag is clear. -/
def stepObsTimeout (s : State) (j : Nat) : Option State :=
  let o := s.obs j
  if o.pc = .wait ∧ s.flag = false ∧ o.kind = .result true then
    some (setObs s j { o with pc := .readExc1, w := false })
  else none

def step? (s : State) : Action → Option State
  | .regCall i m x =>
    if (s.regs i).pc = .idle then some (setReg s i { pc := .acq, method := m, extra := x }) else none
  | .reg i => stepReg s i
  | .execCall o =>
    if s.ex.pc = .call then some { s with ex := { s.ex with pc := .sData, outcome := some o } } else none
  | .exec => stepExec s
  | .obsCall j k =>
    if (s.obs j).pc = .idle then
      some (setObs s j { pc := (match k with | .done => .readFlag | .result _ => .wait), kind := k })
    else none
  | .obs j => stepObs s j
  | .obsTimeout j => stepObsTimeout s j

/-! ### constants of the step table that the extracted facts are compared with (JRV.Properties.C16Gen) -/

/-- Lines the model executes while the registrar / executor holds the lock (strictly inside the critical
    section: after the acquisition, before the release), by label, sorted. -/
def regCsLabels : List String := ["readCompleted", "storeCb", "storeExtra"]
def execCsLabels : List String := ["readCb", "readExtra", "setCompleted"]

/-- Shape of the guard of `__notify`, as in the `rel` steps of `stepReg` / `stepExec` (`r.method ≠ none`,
    `e.cb ≠ none`): identity with `None` — NOT the truth value of the callable, of which the model has no notion
    (a callable instance with `__bool__` False or `__len__` 0 is called like any other). -/
def notifyGuardShape : String := "isNotNone"

/-- `result(timeout)` hands its `timeout` to `EventData.wait`, which hands it to `Event.wait`, both unchanged:
    the `timeout : Bool` of `OKind.result` ("a finite timeout was given", zero included) is what decides whether
    `stepObsTimeout` is enabled.  (result forwards, wait forwards) -/
def waitTimeoutForwarded : Bool × Bool := (true, true)

/-- Reachability: every finite schedule of every client program. -/
inductive Reach : State → Prop
  | init : Reach init
  | step {s s' : State} (a : Action) : Reach s → step? s a = some s' → Reach s'

/-- Runs a schedule; `none` as soon as an action is not enabled. -/
def run (s : State) : List Action → Option State
  | [] => some s
  | a :: as => (step? s a).bind fun s' => run s' as

theorem reach_run {s s' : State} (as : List Action) (h : Reach s) (hr : run s as = some s') : Reach s' := by
  induction as generalizing s with
  | nil => simp [run] at hr; exact hr ▸ h
  | cons a as ih =>
    simp only [run] at hr
    cases hs : step? s a with
    | none => simp [hs] at hr
    | some s1 => simp [hs] at hr; exact ih (Reach.step a h hs) hr

end JRV.Future
