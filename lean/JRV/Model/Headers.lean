/-
  JRV.Model.Headers — custom HTTP headers of the client transport (jsonrpclib/jsonrpc.py):
  `TransportMixIn.push_headers / pop_headers / emit_additional_headers / send_content`
  and `ServerProxy._additional_headers`, transcribed statement by statement.

  * A header dictionary is an insertion-ordered association list `List (String × PyVal)`; values
    are converted by `strOf : PyVal → String` (Python's `str()`), a parameter: the theorems hold
    for every conversion function.
  * Header names are ASCII (http.client rejects others), so `str.lower()` is `String.toLower`.
  * `putheader` appends to the list of emitted header lines.
  * The `User-Agent` of the configuration: `Config.__init__` (only `None` is replaced by the default), `Config.copy`
    (through the constructor again), attribute stores, `TransportMixIn.__init__` (verbatim) — jsonrpclib/config.py.
-/
import JRV.Model.Json

namespace JRV.Headers
open JRV

abbrev HDict := List (String × PyVal)

/-- `d[k] = v` on an insertion-ordered `str → str` dict (existing key keeps its position). -/
def assocSet (d : List (String × String)) (k v : String) : List (String × String) :=
  match d with
  | [] => [(k, v)]
  | (k', v') :: rest => if k' == k then (k', v) :: rest else (k', v') :: assocSet rest k v

def assocGet (d : List (String × String)) (k : String) : Option String :=
  match d with
  | [] => none
  | (k', v') :: rest => if k' == k then some v' else assocGet rest k

/-- `for key, value in headers.items(): additional_headers[str(key).lower()] = str(value)`. -/
def mergeInto (strOf : PyVal → String) (acc : List (String × String)) (items : HDict) : List (String × String) :=
  items.foldl (fun a kv => assocSet a kv.1.toLower (strOf kv.2)) acc

/-- The merged dictionary: `_extra_headers` first, then every pushed dictionary, oldest first. -/
def merged (strOf : PyVal → String) (extra : HDict) (stack : List HDict) : List (String × String) :=
  stack.foldl (mergeInto strOf) (mergeInto strOf [] extra)

/-- `readonly_headers`. -/
def readonly : List String := ["content-length", "content-type"]

/-- `for forbidden in self.readonly_headers: additional_headers.pop(forbidden, None)`. -/
def additional (strOf : PyVal → String) (extra : HDict) (stack : List HDict) : List (String × String) :=
  (merged strOf extra stack).filter fun kv => !readonly.contains kv.1

/-- The header lines `send_content` emits, in order. -/
def sendContent (strOf : PyVal → String) (contentType : String) (bodyLen : Nat) (userAgent : String)
    (extra : HDict) (stack : List HDict) : List (String × String) :=
  let add := additional strOf extra stack
  [("Content-Type", contentType), ("Content-Length", toString bodyLen)] ++ add ++
    (if (assocGet add "user-agent").isSome then [] else [("User-Agent", userAgent)])

/-- All pushed items, oldest first: the order in which the merge visits them. -/
def allItems (extra : HDict) (stack : List HDict) : HDict := extra ++ stack.flatten

/-- The value in force for lower-cased name `n`: the one of the most recently visited item whose
    key lower-cases to `n`. -/
def lastDef (items : HDict) (n : String) : Option PyVal :=
  (items.reverse.find? fun kv => kv.1.toLower == n).map (·.2)

/- ---------- the configured User-Agent: jsonrpclib/config.py `Config.__init__` / `Config.copy`,
     `TransportMixIn.__init__` (jsonrpclib/jsonrpc.py) ---------- -/

/-- `Config.__init__`: `if user_agent is None: user_agent = "jsonrpclib/… (Python …)"; self.user_agent = user_agent`.
    `dflt` is that constant of the process.  ONLY `None` is replaced: an empty string, `0`, `False` … are
    configured values and are stored as they are. -/
def configInit (dflt : PyVal) (arg : PyVal) : PyVal :=
  match arg with
  | .none => dflt
  | v => v

/-- What a program does with its configuration object between `Config(user_agent=arg)` and the moment it hands it to
    a transport or a `ServerProxy`. -/
inductive CfgStep where
  | copy                       -- `cfg = cfg.copy()`
  | store (v : PyVal)          -- `cfg.user_agent = v`
  deriving Repr

/-- One step on the `user_agent` attribute.  `copy()` is `Config(self.version, self.content_type, self.user_agent, …)`:
    the attribute goes through the constructor (and its `is None` test) again; an attribute store is verbatim. -/
def cfgStep (dflt : PyVal) (attr : PyVal) : CfgStep → PyVal
  | .copy => configInit dflt attr
  | .store v => v

/-- The `user_agent` attribute of the configuration object the program ends up with. -/
def configAgent (dflt arg : PyVal) (steps : List CfgStep) : PyVal :=
  steps.foldl (cfgStep dflt) (configInit dflt arg)

/-- `TransportMixIn.__init__(self, config, …)`: `self.user_agent = config.user_agent` (verbatim); `Transport`,
    `SafeTransport` and `UnixTransport` all start with this call, and `ServerProxy(uri, config=cfg)` builds each of
    them with `config=cfg`. -/
def transportAgent (cfgAgent : PyVal) : PyVal := cfgAgent

/-- `send_content` of a transport built from a configuration whose `user_agent` attribute is `cfgAgent`.
    The model describes string user agents (what `putheader` is meant to receive); any other object is handed to
    `putheader` as it is, which the model declines to describe (`none`, reported as `Unmodelled`). -/
def sendContentCfg (strOf : PyVal → String) (contentType : String) (bodyLen : Nat) (cfgAgent : PyVal)
    (extra : HDict) (stack : List HDict) : Option (List (String × String)) :=
  match transportAgent cfgAgent with
  | .str s => some (sendContent strOf contentType bodyLen s extra stack)
  | _ => none

/-- Meaning of the words with which the extractor (tools/extractors/headers2.py) describes what a piece of code does
    with the user agent it is given, `dflt` being what the code substitutes: `"verbatim"` — nothing; `"is-none"` —
    replaced exactly when it is `None`; `"falsy"` — replaced whenever it is falsy.  The companion theorems
    (JRV/Properties/C18Gen.lean) show that the word read from the source denotes the function the model uses. -/
def applyRule (rule : String) (dflt v : PyVal) : Option PyVal :=
  if rule = "verbatim" then some v
  else if rule = "is-none" then some (match v with | .none => dflt | x => x)
  else if rule = "falsy" then some (if v.truthy then v else dflt)
  else none

/-- The transports of jsonrpclib/jsonrpc.py (sorted); each must hand its `config` to `TransportMixIn.__init__`, and
    `ServerProxy.__init__` must build each with its own `config`, for `transportAgent` to describe them. -/
def transports : List String := ["SafeTransport", "Transport", "UnixTransport"]

/- ---------- header stack and `_additional_headers` blocks ---------- -/

/-- The class of the exception through which a block is left.  Python's `except Exception` catches
    only the first kind; `finally` (what `_additional_headers` uses) runs for every one of them, so
    the model below treats all kinds alike — the kind is carried along only to say *which* exception
    comes out of the block. -/
inductive ExcKind where
  | exception        -- an `Exception` subclass
  | baseException    -- a class deriving directly from `BaseException` (like `KeyboardInterrupt`)
  | generatorExit    -- `GeneratorExit`
  | systemExit       -- `SystemExit`
  | assertion        -- the `AssertionError` of `pop_headers`
  deriving DecidableEq, Repr

/-- What a `with proxy._additional_headers(h):` block contains: requests and nested blocks, and
    possibly a `raise` that leaves the block through an exception of some kind. -/
inductive Block where
  | call                                    -- a request: headers are emitted from the current stack
  | raise (kind : ExcKind)                  -- an exception of this kind is raised at this point
  | nest (headers : HDict) (body : List Block)

/-- Result of running a piece of client code: the stack afterwards, the stacks seen by each request,
    the exception that is propagating (if any), and whether `pop_headers`' assertion failed. -/
structure Run where
  stack : List HDict
  seen : List (List HDict) := []
  raised : Option ExcKind := none
  assertFailed : Bool := false

/-- `pop_headers(headers)`: `assert self.additional_headers[-1] == headers; pop()`.
    Dictionaries are compared entry-wise (the harness uses the same objects, so `==` holds iff it does here). -/
def popHeaders (stack : List HDict) (h : HDict) : Option (List HDict) :=
  match stack.reverse with
  | top :: rest =>
    if top.length == h.length && (top.zip h).all (fun p => p.1.1 == p.2.1 && p.1.2 == p.2.2) then some rest.reverse else none
  | [] => none

mutual
  /-- Run one block item on the stack. -/
  def runBlock (stack : List HDict) : Block → Run
    | .call => { stack := stack, seen := [stack] }
    | .raise k => { stack := stack, raised := some k }
    | .nest h body =>
      -- push_headers(h); try: <body> finally: pop_headers(h)      (`finally`: whatever `r.raised` is)
      let r := runBody (stack ++ [h]) body
      match popHeaders r.stack h with
      | some s => { r with stack := s }
      | none => { r with assertFailed := true, raised := some .assertion }
  /-- Run a statement list: stops at the first propagating exception. -/
  def runBody (stack : List HDict) : List Block → Run
    | [] => { stack := stack }
    | b :: rest =>
      let r := runBlock stack b
      if r.raised.isSome then r
      else
        let r' := runBody r.stack rest
        { r' with seen := r.seen ++ r'.seen }
end

end JRV.Headers
