/-
  JRV.Model.Json — the value universe shared by every model, and the Python
  primitives the library relies on (truthiness, `==`, `in`, isinstance tables).

  Core Lean only: no Mathlib import in model files.

  `PyVal` is what a Python program of the modelled fragment can hold: JSON values
  plus tuples, sets, frozensets, dicts with arbitrary keys and instances of classes
  of a class environment.  Finite floats are carried as the decimal value of their
  shortest repr (sign, mantissa without trailing zero, base-10 exponent): the library
  never does float arithmetic, only equality, truthiness and ordering against
  integer constants, and those agree between a binary64 and its shortest repr
  (the shortest repr round-trips, and the integer constants are exact).
-/
namespace JRV

/-- A finite float as `(-1)^neg * mant * 10^exp`; canonical when `mant % 10 ≠ 0 ∨ mant = 0 ∧ exp = 0`. -/
structure PyFloat where
  neg  : Bool
  mant : Nat
  exp  : Int
deriving DecidableEq, Repr, Inhabited

namespace PyFloat

/-- Three-way comparison with an integer, exact. -/
def cmpInt (f : PyFloat) (n : Int) : Ordering :=
  let m : Int := if f.neg then - (f.mant : Int) else (f.mant : Int)
  if f.exp ≥ 0 then compare (m * (10 : Int) ^ f.exp.toNat) n
  else compare m (n * (10 : Int) ^ (-f.exp).toNat)

def isZero (f : PyFloat) : Bool := f.mant == 0

/-- Does the float denote exactly the integer `n`? -/
def eqInt (f : PyFloat) (n : Int) : Bool := f.cmpInt n == .eq

def ofInt (i : Int) : PyFloat := { neg := i < 0, mant := i.natAbs, exp := 0 }

end PyFloat

inductive PyVal where
  | none
  | bool (b : Bool)
  | int (i : Int)
  | float (f : PyFloat)
  | str (s : String)
  | list (xs : List PyVal)
  | tuple (xs : List PyVal)
  | set (xs : List PyVal)
  | frozenset (xs : List PyVal)
  | dict (kvs : List (PyVal × PyVal))
  | obj (cls : String) (fields : List (String × PyVal))
deriving Repr, Inhabited

namespace PyVal

/- ---------- structural (decidable) equality, written by hand because PyVal is nested ---------- -/

mutual
  def beq : PyVal → PyVal → Bool
    | .none, .none => true
    | .bool a, .bool b => a == b
    | .int a, .int b => a == b
    | .float a, .float b => a == b
    | .str a, .str b => a == b
    | .list a, .list b => beqList a b
    | .tuple a, .tuple b => beqList a b
    | .set a, .set b => beqList a b
    | .frozenset a, .frozenset b => beqList a b
    | .dict a, .dict b => beqKVs a b
    | .obj c a, .obj d b => c == d && beqFields a b
    | _, _ => false
  def beqList : List PyVal → List PyVal → Bool
    | [], [] => true
    | x :: xs, y :: ys => beq x y && beqList xs ys
    | _, _ => false
  def beqKVs : List (PyVal × PyVal) → List (PyVal × PyVal) → Bool
    | [], [] => true
    | (k, v) :: xs, (k', v') :: ys => beq k k' && beq v v' && beqKVs xs ys
    | _, _ => false
  def beqFields : List (String × PyVal) → List (String × PyVal) → Bool
    | [], [] => true
    | (k, v) :: xs, (k', v') :: ys => k == k' && beq v v' && beqFields xs ys
    | _, _ => false
end

instance : BEq PyVal := ⟨beq⟩

mutual
  theorem eq_of_beq : ∀ (a b : PyVal), beq a b = true → a = b
    | .none, b, h => by cases b <;> simp_all [beq]
    | .bool x, b, h => by cases b <;> simp_all [beq]
    | .int x, b, h => by cases b <;> simp_all [beq]
    | .float x, b, h => by cases b <;> simp_all [beq]
    | .str x, b, h => by cases b <;> simp_all [beq]
    | .list xs, b, h => by
      cases b <;> simp only [beq, Bool.false_eq_true] at h
      rw [eq_of_beqList _ _ h]
    | .tuple xs, b, h => by
      cases b <;> simp only [beq, Bool.false_eq_true] at h
      rw [eq_of_beqList _ _ h]
    | .set xs, b, h => by
      cases b <;> simp only [beq, Bool.false_eq_true] at h
      rw [eq_of_beqList _ _ h]
    | .frozenset xs, b, h => by
      cases b <;> simp only [beq, Bool.false_eq_true] at h
      rw [eq_of_beqList _ _ h]
    | .dict xs, b, h => by
      cases b <;> simp only [beq, Bool.false_eq_true] at h
      rw [eq_of_beqKVs _ _ h]
    | .obj c xs, b, h => by
      cases b <;> simp only [beq, Bool.false_eq_true, Bool.and_eq_true, beq_iff_eq] at h
      rw [h.1, eq_of_beqFields _ _ h.2]
  theorem eq_of_beqList : ∀ (a b : List PyVal), beqList a b = true → a = b
    | [], b, h => by cases b <;> simp_all [beqList]
    | x :: xs, b, h => by
      cases b with
      | nil => simp [beqList] at h
      | cons y ys =>
        simp only [beqList, Bool.and_eq_true] at h
        rw [eq_of_beq x y h.1, eq_of_beqList xs ys h.2]
  theorem eq_of_beqKVs : ∀ (a b : List (PyVal × PyVal)), beqKVs a b = true → a = b
    | [], b, h => by cases b <;> simp_all [beqKVs]
    | (k, v) :: xs, b, h => by
      cases b with
      | nil => simp [beqKVs] at h
      | cons y ys =>
        obtain ⟨k', v'⟩ := y
        simp only [beqKVs, Bool.and_eq_true] at h
        rw [eq_of_beq k k' h.1.1, eq_of_beq v v' h.1.2, eq_of_beqKVs xs ys h.2]
  theorem eq_of_beqFields : ∀ (a b : List (String × PyVal)), beqFields a b = true → a = b
    | [], b, h => by cases b <;> simp_all [beqFields]
    | (k, v) :: xs, b, h => by
      cases b with
      | nil => simp [beqFields] at h
      | cons y ys =>
        obtain ⟨k', v'⟩ := y
        simp only [beqFields, Bool.and_eq_true, beq_iff_eq] at h
        rw [h.1.1, eq_of_beq v v' h.1.2, eq_of_beqFields xs ys h.2]
end

mutual
  theorem beq_refl : ∀ (a : PyVal), beq a a = true
    | .none => by simp [beq]
    | .bool _ => by simp [beq]
    | .int _ => by simp [beq]
    | .float _ => by simp [beq]
    | .str _ => by simp [beq]
    | .list xs => by simp [beq, beqList_refl xs]
    | .tuple xs => by simp [beq, beqList_refl xs]
    | .set xs => by simp [beq, beqList_refl xs]
    | .frozenset xs => by simp [beq, beqList_refl xs]
    | .dict xs => by simp [beq, beqKVs_refl xs]
    | .obj _ xs => by simp [beq, beqFields_refl xs]
  theorem beqList_refl : ∀ (a : List PyVal), beqList a a = true
    | [] => by simp [beqList]
    | x :: xs => by simp [beqList, beq_refl x, beqList_refl xs]
  theorem beqKVs_refl : ∀ (a : List (PyVal × PyVal)), beqKVs a a = true
    | [] => by simp [beqKVs]
    | (k, v) :: xs => by simp [beqKVs, beq_refl k, beq_refl v, beqKVs_refl xs]
  theorem beqFields_refl : ∀ (a : List (String × PyVal)), beqFields a a = true
    | [] => by simp [beqFields]
    | (_, v) :: xs => by simp [beqFields, beq_refl v, beqFields_refl xs]
end

instance : DecidableEq PyVal := fun a b =>
  if h : beq a b = true then isTrue (eq_of_beq a b h)
  else isFalse (fun e => h (e ▸ beq_refl a))

instance : LawfulBEq PyVal where
  eq_of_beq := fun {a b} h => eq_of_beq a b h
  rfl := fun {a} => beq_refl a

/- ---------- Python truthiness ---------- -/

/-- `bool(v)` for the modelled kinds (instances are truthy: the modelled classes define neither
    `__bool__` nor `__len__`). -/
def truthy : PyVal → Bool
  | .none => false
  | .bool b => b
  | .int i => i != 0
  | .float f => !f.isZero
  | .str s => s != ""
  | .list xs => !xs.isEmpty
  | .tuple xs => !xs.isEmpty
  | .set xs => !xs.isEmpty
  | .frozenset xs => !xs.isEmpty
  | .dict kvs => !kvs.isEmpty
  | .obj _ _ => true

/- ---------- type predicates following jsonrpclib.utils (Python 3 branch) ---------- -/

def isStr : PyVal → Bool | .str _ => true | _ => false
def isDict : PyVal → Bool | .dict _ => true | _ => false
def isList : PyVal → Bool | .list _ => true | _ => false
def isTuple : PyVal → Bool | .tuple _ => true | _ => false
/-- `isinstance(v, utils.NUMERIC_TYPES)`: int or float — and `bool` is an `int`. -/
def isNumeric : PyVal → Bool | .int _ => true | .float _ => true | .bool _ => true | _ => false
/-- `isinstance(v, utils.PRIMITIVE_TYPES)` (bytes are outside the modelled universe). -/
def isPrimitive : PyVal → Bool
  | .none => true | .bool _ => true | .int _ => true | .float _ => true | .str _ => true | _ => false
/-- `isinstance(v, utils.ITERABLE_TYPES)`. -/
def isIterable : PyVal → Bool
  | .list _ => true | .tuple _ => true | .set _ => true | .frozenset _ => true | _ => false

/-- The items of an iterable kind. -/
def items? : PyVal → Option (List PyVal)
  | .list xs => some xs | .tuple xs => some xs | .set xs => some xs | .frozenset xs => some xs
  | _ => Option.none

/-- Python's `type(v).__name__`. -/
def typeName : PyVal → String
  | .none => "NoneType" | .bool _ => "bool" | .int _ => "int" | .float _ => "float" | .str _ => "str"
  | .list _ => "list" | .tuple _ => "tuple" | .set _ => "set" | .frozenset _ => "frozenset"
  | .dict _ => "dict" | .obj c _ => c

/- ---------- numbers ---------- -/

/-- The numeric value of an int/bool as an integer (`True == 1`). -/
def asInt? : PyVal → Option Int
  | .int i => some i
  | .bool b => some (if b then 1 else 0)
  | _ => Option.none

/-- Three-way comparison of a Python number with an integer constant; `none` when Python's
    `<=` between the value and an int raises `TypeError`. -/
def cmpInt? : PyVal → Int → Option Ordering
  | .int i, n => some (compare i n)
  | .bool b, n => some (compare (if b then 1 else 0) n)
  | .float f, n => some (f.cmpInt n)
  | _, _ => Option.none

/- ---------- Python `==` on the modelled kinds ---------- -/

/-- Numeric equality across bool/int/float. -/
def numEq (a b : PyVal) : Option Bool :=
  match a, b with
  | .float f, .float g => some (f == g || (f.isZero && g.isZero))
  | .float f, y => (y.asInt?).map f.eqInt
  | x, .float g => (x.asInt?).map g.eqInt
  | x, y => match x.asInt?, y.asInt? with
    | some i, some j => some (i == j)
    | _, _ => Option.none

mutual
  /-- Python `a == b`: numbers compare by value across bool/int/float, lists with lists, tuples with
      tuples, `None` and strings only with themselves; instances by class and fields (the modelled
      classes define no `__eq__`, so this is only used where both sides denote the same object).
      Dicts are compared entry by entry *in order*: callers that need Python's order-insensitive
      dict equality compare canonically sorted dicts (the harness canonicalises the same way). -/
  def pyEq : PyVal → PyVal → Bool
    | .none, .none => true
    | .str a, .str b => a == b
    | .list a, .list b => pyEqList a b
    | .tuple a, .tuple b => pyEqList a b
    | .dict a, .dict b => pyEqKVs a b
    | .obj c a, .obj d b => c == d && pyEqFields a b
    | a, b => match numEq a b with
      | some r => r
      | Option.none => false
  def pyEqList : List PyVal → List PyVal → Bool
    | [], [] => true
    | x :: xs, y :: ys => pyEq x y && pyEqList xs ys
    | _, _ => false
  def pyEqKVs : List (PyVal × PyVal) → List (PyVal × PyVal) → Bool
    | [], [] => true
    | (k, v) :: xs, (k', v') :: ys => pyEq k k' && pyEq v v' && pyEqKVs xs ys
    | _, _ => false
  def pyEqFields : List (String × PyVal) → List (String × PyVal) → Bool
    | [], [] => true
    | (k, v) :: xs, (k', v') :: ys => k == k' && pyEq v v' && pyEqFields xs ys
    | _, _ => false
end

/- ---------- dictionaries as insertion-ordered association lists ---------- -/

/-- `d[k]` lookup with string key. -/
def lookupStr (k : String) : List (PyVal × PyVal) → Option PyVal
  | [] => Option.none
  | (.str k', v) :: rest => if k' == k then some v else lookupStr k rest
  | _ :: rest => lookupStr k rest

def hasKeyStr (k : String) (kvs : List (PyVal × PyVal)) : Bool := (lookupStr k kvs).isSome

/-- `d[k] = v` on an insertion-ordered dict: an existing key keeps its position. -/
def setStr (k : String) (v : PyVal) : List (PyVal × PyVal) → List (PyVal × PyVal)
  | [] => [(.str k, v)]
  | (.str k', v') :: rest => if k' == k then (.str k', v) :: rest else (.str k', v') :: setStr k v rest
  | e :: rest => e :: setStr k v rest

/-- `del d[k]` / `d.pop(k, None)`. -/
def delStr (k : String) : List (PyVal × PyVal) → List (PyVal × PyVal)
  | [] => []
  | (.str k', v') :: rest => if k' == k then rest else (.str k', v') :: delStr k rest
  | e :: rest => e :: delStr k rest

/-- `d.get(k, dflt)` on a value that must be a dict. -/
def getD (d : PyVal) (k : String) (dflt : PyVal) : PyVal :=
  match d with
  | .dict kvs => (lookupStr k kvs).getD dflt
  | _ => dflt

/-- Build a string-keyed dict. -/
def mkDict (kvs : List (String × PyVal)) : PyVal := .dict (kvs.map fun (k, v) => (.str k, v))

/- ---------- JSON normalisation ---------- -/

mutual
  /-- What a JSON round trip makes of a JSON-able value: tuples, sets and frozensets become lists. -/
  def normalise : PyVal → PyVal
    | .list xs => .list (normaliseList xs)
    | .tuple xs => .list (normaliseList xs)
    | .set xs => .list (normaliseList xs)
    | .frozenset xs => .list (normaliseList xs)
    | .dict kvs => .dict (normaliseKVs kvs)
    | .obj c fs => .obj c (normaliseFields fs)
    | v => v
  def normaliseList : List PyVal → List PyVal
    | [] => []
    | x :: xs => normalise x :: normaliseList xs
  def normaliseKVs : List (PyVal × PyVal) → List (PyVal × PyVal)
    | [] => []
    | (k, v) :: xs => (k, normalise v) :: normaliseKVs xs
  def normaliseFields : List (String × PyVal) → List (String × PyVal)
    | [] => []
    | (k, v) :: xs => (k, normalise v) :: normaliseFields xs
end

mutual
  /-- A value the JSON backend can serialise and parse back: null, bool, int, finite float, str,
      list/tuple of such, string-keyed dict with distinct keys of such. -/
  def isJson : PyVal → Bool
    | .none => true | .bool _ => true | .int _ => true | .float _ => true | .str _ => true
    | .list xs => isJsonList xs
    | .tuple xs => isJsonList xs
    | .dict kvs => isJsonKVs kvs
    | _ => false
  def isJsonList : List PyVal → Bool
    | [] => true
    | x :: xs => isJson x && isJsonList xs
  def isJsonKVs : List (PyVal × PyVal) → Bool
    | [] => true
    | (k, v) :: xs => k.isStr && isJson v && isJsonKVs xs
end

end PyVal

/-- Python exceptions, by class name, with the structured argument the properties talk about. -/
structure PyErr where
  cls : String
  arg : PyVal := .none
deriving Repr, Inhabited, DecidableEq

abbrev PyM := Except PyErr

def raise {α} (cls : String) (arg : PyVal := .none) : PyM α := .error { cls := cls, arg := arg }

instance {α} [DecidableEq α] : DecidableEq (PyM α) := fun a b =>
  match a, b with
  | .ok x, .ok y => if h : x = y then isTrue (h ▸ rfl) else isFalse (fun e => h (Except.ok.inj e))
  | .error x, .error y => if h : x = y then isTrue (h ▸ rfl) else isFalse (fun e => h (Except.error.inj e))
  | .ok _, .error _ => isFalse (fun e => nomatch e)
  | .error _, .ok _ => isFalse (fun e => nomatch e)

end JRV
