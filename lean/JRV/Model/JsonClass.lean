/-
  JRV.Model.JsonClass — jsonrpclib/jsonclass.py (`_slots_finder`, `_find_fields`, `dump`, `load`),
  transcribed statement by statement, over a *class environment* that stands for the Python classes the
  program defines (Python's attribute model — `__dict__`, `__slots__`, name mangling, `__import__`,
  `inspect.getmodule` — is modelled, not verified; see DESIGN.md section 4).

  Conventions
  * A class environment is a list `(class id, ClassDef)` ordered **children first**: the bases of a class
    are looked up in the *rest* of the list (Python guarantees that the hierarchy is acyclic, so such an order
    exists).  A base that is not listed behaves like `object` (no slots of its own, no instance `__dict__`).
  * An instance is `PyVal.obj cls fields`; `fields` are the *stored* attribute names (after Python's name
    mangling of `__x` written in the body of class `C` to `_C__x`), whether they live in slots or in `__dict__`.
    An enum member is `obj cls [("name", str), ("value", v)]`, a Decimal `obj cls [("str", str(d))]`.
  * `dump` is a function of the value: the code contains no statement that writes to its arguments (this is
    re-extracted from the source on every run: `Generated.dumpNonFreshWrites`).  `load` pops and restores the
    `__jsonclass__` entry of the caller's dict, so it returns the **final state of its argument** next to its
    result and its effect log, on success and on failure.
  * Python iterates a `set` of field names in an arbitrary order; the model iterates the stored field list.
    Results are dicts, compared up to entry order.
  * Inputs whose behaviour depends on parts of CPython the class environment does not describe (dunder
    attribute names, `Decimal` of a non-canonical literal, enum keyword construction, identity comparison of
    instances held in ignore lists, ...) yield the error class `"Unmodelled"`; the harness skips and counts them.
  * Association lists with duplicate keys denote no Python dict; the model's `pop("__jsonclass__")` skips
    every entry with that key (theorems carry the guard that the key occurs at most once per dict).
-/
import JRV.Model.Json

namespace JRV.JsonClass
open JRV JRV.PyVal

def jcKey : String := "__jsonclass__"

/- ---------- class environments ---------- -/

inductive Kind where
  /-- plain bean: a no-argument constructor that sets the given stored attributes -/
  | bean (init : List (String × PyVal))
  /-- bean with a custom serialisation method `method()` returning `(params, attrs)`: `params` are the values
      of the stored attributes `params` as a list (`byDict = false`) or as a keyword dict; `attrs` the values
      of the stored attributes `attrs`.  The constructor takes exactly `params`, first sets the attributes
      `base` (what the constructors of its base classes set) and then stores its parameters. -/
  | serial (method : String) (byDict : Bool) (params : List String) (attrs : List String)
      (base : List (String × PyVal))
  /-- enumeration not derived from a primitive type: member name ↦ value -/
  | enum (members : List (String × PyVal))
  /-- `decimal.Decimal` -/
  | decimal
  /-- a class whose constructor raises an exception of class `exc` whatever it is given (a `TypeError` is
      turned into `TranslationError` by `load`, every other class propagates): no instance of it exists -/
  | raising (exc : String)
deriving Repr, Inhabited

structure ClassDef where
  /-- `inspect.getmodule(cls).__name__` -/
  module : String
  /-- `cls.__name__` -/
  name : String
  /-- `cls.__bases__` (class ids; `object` is implicit) -/
  bases : List String := []
  /-- `vars(cls).get("__slots__")` as written in the class body; `none`: instances have a `__dict__` -/
  ownSlots : Option (List String) := none
  kind : Kind := .bean []
  /-- class-level data attributes as `getattr(instance, name)` sees them (inherited ones included),
      e.g. the ignore list -/
  classAttrs : List (String × PyVal) := []
  /-- How instances behave when an ignore-list entry is compared with them (`entry == instance`, which Python
      delegates to the instance's `__eq__` since the entries are primitives or tuples): `none` — `object.__eq__`
      (never equal); `some exc` — the comparison cannot be decided: `__eq__` raises `exc` when it is handed a value
      of another kind, or answers an object whose truth value raises `exc` (array-like classes).  `__hash__` and
      `__bool__` of a value are never consulted by `dump` (no construct of the model reads them). -/
  eqRaises : Option String := none
deriving Repr, Inhabited

abbrev ClassEnv := List (String × ClassDef)

def lstripUnderscores : List Char → List Char
  | '_' :: cs => lstripUnderscores cs
  | cs => cs

def startsDunder : List Char → Bool
  | '_' :: '_' :: _ => true
  | _ => false

/-- `slot.startswith("__") and not slot.endswith("__")` -/
def isPrivateName (s : String) : Bool :=
  startsDunder s.toList && !startsDunder s.toList.reverse

/-- `"_{0}{1}".format(clazz.__name__.lstrip("_"), slot)` for private slots, the slot itself otherwise. -/
def mangle (clsName slot : String) : String :=
  if isPrivateName slot then "_" ++ String.ofList (lstripUnderscores clsName.toList) ++ slot else slot

/-- `_slots_finder(clazz, fields_set)`: the slots declared by the class itself (`vars(clazz)`), mangled with
    the name of *that* class, then the same for every base class. -/
def slotsFinder : ClassEnv → String → List String
  | [], _ => []
  | (cid, d) :: rest, c =>
    if cid == c then
      (match d.ownSlots with
        | some ss => ss.map (mangle d.name)
        | Option.none => []) ++ d.bases.flatMap (fun b => slotsFinder rest b)
    else slotsFinder rest c

/-- Do instances have a `__dict__`?  Yes iff some class of the hierarchy declares no `__slots__`. -/
def hasDict : ClassEnv → String → Bool
  | [], _ => false
  | (cid, d) :: rest, c =>
    if cid == c then d.ownSlots.isNone || d.bases.any (fun b => hasDict rest b)
    else hasDict rest c

/-- `issubclass(c, t)` -/
def isSubclass : ClassEnv → String → String → Bool
  | [], c, t => c == t
  | (cid, d) :: rest, c, t =>
    if c == t then true
    else if cid == c then d.bases.any (fun b => isSubclass rest b t)
    else isSubclass rest c t

/-- `_find_fields(obj)`: the names in `obj.__dict__` (the stored names that are not slots, when instances have
    a `__dict__`), then the slots of the hierarchy. -/
def findFields (env : ClassEnv) (c : String) (stored : List String) : List String :=
  let slots := slotsFinder env c
  (if hasDict env c then stored.filter (fun n => !slots.contains n) else []) ++ slots

/-- What `dump` writes as the class name. -/
def emitName (d : ClassDef) : String :=
  if d.module == "" || d.module == "__main__" then d.name else d.module ++ "." ++ d.name

/- ---------- dump ---------- -/

/-- A serialisation handler `handler(obj, serialize_method, ignore_attribute, ignore, config)`. -/
abbrev HandlerFn := PyVal → String → String → List PyVal → PyM PyVal

structure DumpCfg where
  serializeMethod : String := "_serialize"
  ignoreAttribute : String := "_ignore"
  /-- `config.serialize_handlers`: exact type tag (`PyVal.typeName`) ↦ handler id, `none` for a `None` entry -/
  handlers : List (String × Option Nat) := []
deriving Repr, Inhabited

structure DumpCtx where
  env : ClassEnv
  cfg : DumpCfg
  /-- interpretation of the handler ids: any functions -/
  H : Nat → HandlerFn

/-- `x or dflt` for an optional string argument. -/
def orStr (a : Option String) (dflt : String) : String :=
  match a with
  | some s => if s != "" then s else dflt
  | Option.none => dflt

/-- `config.serialize_handlers[type(obj)]`, `None` entries and missing keys falling through. -/
def handlerFor (cfg : DumpCfg) (v : PyVal) : Option Nat :=
  match cfg.handlers.lookup v.typeName with
  | some (some h) => some h
  | _ => none

/-- `isinstance(attr_value, SUPPORTED_TYPES + tuple(config.serialize_handlers))`: every built-in kind of the
    universe is supported; an instance is known when its class is a subclass of a handled type. -/
def isKnown (X : DumpCtx) : PyVal → Bool
  | .obj c _ => X.cfg.handlers.any (fun h => isSubclass X.env c h.1)
  | _ => true

/-- `getattr(obj, name, dflt)` on an instance: stored attribute, else class attribute. -/
def getAttrD (d : ClassDef) (fs : List (String × PyVal)) (name : String) (dflt : PyVal) : PyVal :=
  match fs.lookup name with
  | some v => v
  | Option.none => (d.classAttrs.lookup name).getD dflt

def allPrim : List PyVal → Bool
  | [] => true
  | x :: xs => x.isPrimitive && allPrim xs

/-- Classification of an ignore-list entry: 0 = hashable and compared by value (primitives, tuples of
    primitives); 1 = unhashable (`set.difference_update` raises TypeError); 2 = outside the model. -/
def ignoreEntryClass : PyVal → Nat
  | .none => 0 | .bool _ => 0 | .int _ => 0 | .float _ => 0 | .str _ => 0
  | .tuple xs => if allPrim xs then 0 else 2
  | .list _ => 1 | .set _ => 1 | .dict _ => 1
  | _ => 2

def isDecimalObj (env : ClassEnv) : PyVal → Bool
  | .obj c _ => match env.lookup c with
    | some d => (match d.kind with | .decimal => true | _ => false)
    | Option.none => false
  | _ => false

/-- The exception class `entry == v` raises for an instance of a class with a hostile `__eq__`. -/
def eqRaisesOf (env : ClassEnv) : PyVal → Option String
  | .obj c _ => match env.lookup c with
    | some d => d.eqRaises
    | Option.none => Option.none
  | _ => Option.none

def isNonEmptyTuple : PyVal → Bool
  | .tuple (_ :: _) => true
  | _ => false

/-- Comparisons `entry == value` the model does not describe: a `Decimal` with anything, and a *tuple* value that
    holds an instance with a hostile `__eq__` directly with a tuple entry (Python compares tuples item by item up
    to the first difference, which may or may not reach the hostile item). -/
def inUndescribed (env : ClassEnv) (v : PyVal) (ignoreList : List PyVal) : Bool :=
  (isDecimalObj env v && !ignoreList.isEmpty) ||
  (match v with
    | .tuple xs => xs.any (fun x => (eqRaisesOf env x).isSome) && ignoreList.any isNonEmptyTuple
    | _ => false)

/-- Nothing is compared with the entries of an empty list. -/
@[simp] theorem inUndescribed_nil (env : ClassEnv) (v : PyVal) : inUndescribed env v [] = false := by
  cases v <;> simp [inUndescribed]

/-- `attr_value in ignore_list` (Python `==` on each entry: the first entry already raises when the value's
    `__eq__` is hostile; an empty list compares nothing). -/
def valueIn (env : ClassEnv) (v : PyVal) (ignoreList : List PyVal) : PyM Bool :=
  if inUndescribed env v ignoreList then raise "Unmodelled" (.str "comparison outside the model")
  else if !ignoreList.isEmpty && (eqRaisesOf env v).isSome then raise ((eqRaisesOf env v).getD "")
  else pure (ignoreList.any (fun e => pyEq e v))

/-- `key in ignore_list` for an attribute name: Python `==` of each entry with the string. -/
def nameIgnored (ignoreList : List PyVal) (n : String) : Bool := ignoreList.any (fun e => pyEq e (.str n))

def namesDistinct : List String → Bool
  | [] => true
  | n :: ns => !ns.contains n && namesDistinct ns

def lookupAll (fs : List (String × PyVal)) : List String → Option (List PyVal)
  | [] => some []
  | n :: ns => match fs.lookup n, lookupAll fs ns with
    | some v, some vs => some (v :: vs)
    | _, _ => none

mutual
  /-- `jsonclass.dump(obj, serialize_method, ignore_attribute, ignore, config)` after the normalisation of
      its arguments (`dumpTop`); the recursive calls pass the normalised values, on which the normalisation
      is the identity. -/
  def dump (X : DumpCtx) (sm ia : String) (ig : List PyVal) (v : PyVal) : PyM PyVal :=
    -- try: serializer = config.serialize_handlers[type(obj)] … if serializer is not None: return serializer(…)
    match handlerFor X.cfg v with
    | some h => X.H h v sm ia ig
    | Option.none =>
      match v with
      -- if isinstance(obj, utils.PRIMITIVE_TYPES): return obj
      | .none => pure .none
      | .bool b => pure (.bool b)
      | .int i => pure (.int i)
      | .float f => pure (.float f)
      | .str s => pure (.str s)
      -- elif isinstance(obj, utils.ITERABLE_TYPES): return [dump(item, …) for item in obj]
      | .list xs => do let ys ← dumpList X sm ia ig xs; pure (.list ys)
      | .tuple xs => do let ys ← dumpList X sm ia ig xs; pure (.list ys)
      | .set xs => do let ys ← dumpList X sm ia ig xs; pure (.list ys)
      | .frozenset xs => do let ys ← dumpList X sm ia ig xs; pure (.list ys)
      -- elif isinstance(obj, utils.DictType): return {key: dump(value, …) for key, value in obj.items()}
      | .dict kvs => do let ys ← dumpKVs X sm ia ig kvs; pure (.dict ys)
      -- It's not a standard type, so it needs __jsonclass__
      | .obj c fs =>
        match X.env.lookup c with
        | Option.none => raise "Unmodelled" (.str "unknown class")
        | some d =>
          if !namesDistinct (fs.map (·.1)) then raise "Unmodelled" (.str "duplicate attribute") else
          let jsonClass := emitName d
          -- if hasattr(obj, serialize_method):
          if (fs.lookup sm).isSome || (d.classAttrs.lookup sm).isSome then
            raise "Unmodelled" (.str "serialize_method names a data attribute")
          else
          match d.kind with
          | .serial m byDict ps as _ =>
            if m == sm then
              -- params, attrs = serialize(); append(params); return_obj.update(attrs)
              match lookupAll fs ps, lookupAll fs as with
              | some pvs, some avs =>
                if as.contains jcKey || !namesDistinct as then raise "Unmodelled" (.str "attrs overwrite __jsonclass__")
                else
                  let params := if byDict then PyVal.dict ((ps.zip pvs).map fun (k, x) => (.str k, x)) else .list pvs
                  -- ignore_list = getattr(obj, ignore_attribute, []) + ignore
                  match getAttrD d fs ia (.list []) with
                  | .list own =>
                    -- return_obj.update((key, value) for key, value in attrs.items() if key not in ignore_list):
                    -- the values are emitted as the method returned them (no recursive dump, no handler, no test
                    -- of the value against the ignore list)
                    pure (.dict ((.str jcKey, .list [.str jsonClass, params]) ::
                                  ((as.zip avs).filter fun (k, _) => !nameIgnored (own ++ ig) k).map
                                    fun (k, x) => (PyVal.str k, x)))
                  | _ => raise "TypeError" (.str "ignore attribute is not a list")
              | _, _ => raise "AttributeError"
            else dumpBean X sm ia ig d c jsonClass fs
          | .decimal =>
            -- elif utils.is_decimal(obj): append([str(obj)])
            match fs.lookup "str" with
            | some s => pure (.dict [(.str jcKey, .list [.str jsonClass, .list [s]])])
            | Option.none => raise "Unmodelled" (.str "Decimal without str")
          | .enum _ =>
            -- elif utils.is_enum(obj): append([obj.value])
            match fs.lookup "value" with
            | some x => pure (.dict [(.str jcKey, .list [.str jsonClass, .list [x]])])
            | Option.none => raise "Unmodelled" (.str "enum member without value")
          | .bean _ => dumpBean X sm ia ig d c jsonClass fs
          | .raising _ => raise "Unmodelled" (.str "instance of a class that cannot be instantiated")
  /-- The `else:` branch of `dump`: `[]` as constructor arguments plus the filtered fields. -/
  def dumpBean (X : DumpCtx) (sm ia : String) (ig : List PyVal) (d : ClassDef) (c jsonClass : String)
      (fs : List (String × PyVal)) : PyM PyVal :=
    -- known_types = SUPPORTED_TYPES + tuple(config.serialize_handlers): see `isKnown`
    -- ignore_list = getattr(obj, ignore_attribute, []) + ignore
    match getAttrD d fs ia (.list []) with
    | .list own =>
      let ignoreList := own ++ ig
      -- fields = _find_fields(obj); fields.difference_update(ignore_list)
      let fields := findFields X.env c (fs.map (·.1))
      if ignoreList.any (fun e => ignoreEntryClass e == 1) then raise "TypeError" (.str "unhashable")
      else if ignoreList.any (fun e => ignoreEntryClass e == 2) then raise "Unmodelled" (.str "ignore entry")
      else
        let keep := fields.filter (fun n => !ignoreList.any (fun e => pyEq e (.str n)))
        -- attr_value = getattr(obj, attr_name): a declared slot that was never assigned raises
        if keep.any (fun n => (fs.lookup n).isNone) then raise "AttributeError"
        else if keep.contains jcKey then raise "Unmodelled" (.str "attribute named __jsonclass__")
        else do
          let attrs ← dumpFields X sm ia ig keep ignoreList fs
          pure (.dict ((.str jcKey, .list [.str jsonClass, .list []]) :: attrs))
    | _ => raise "TypeError" (.str "ignore attribute is not a list")
  def dumpList (X : DumpCtx) (sm ia : String) (ig : List PyVal) : List PyVal → PyM (List PyVal)
    | [] => pure []
    | x :: xs => do
      let y ← dump X sm ia ig x
      let ys ← dumpList X sm ia ig xs
      pure (y :: ys)
  def dumpKVs (X : DumpCtx) (sm ia : String) (ig : List PyVal) : List (PyVal × PyVal) → PyM (List (PyVal × PyVal))
    | [] => pure []
    | (k, x) :: xs => do
      let y ← dump X sm ia ig x
      let ys ← dumpKVs X sm ia ig xs
      pure ((k, y) :: ys)
  /-- `for attr_name in fields: … if isinstance(attr_value, known_types) and attr_value not in ignore_list:
      attrs[attr_name] = dump(attr_value, …)`, iterating the stored fields that are in `keep`. -/
  def dumpFields (X : DumpCtx) (sm ia : String) (ig : List PyVal) (keep : List String) (ignoreList : List PyVal) :
      List (String × PyVal) → PyM (List (PyVal × PyVal))
    | [] => pure []
    | (n, x) :: rest =>
      if keep.contains n && isKnown X x then
        match valueIn X.env x ignoreList with
        | .error e => .error e
        | .ok true => dumpFields X sm ia ig keep ignoreList rest
        | .ok false => do
          let y ← dump X sm ia ig x
          let ys ← dumpFields X sm ia ig keep ignoreList rest
          pure ((.str n, y) :: ys)
      else dumpFields X sm ia ig keep ignoreList rest
end

/-- `jsonclass.dump(obj, serialize_method=None, ignore_attribute=None, ignore=None, config)`:
    `serialize_method = serialize_method or config.serialize_method` etc., then the body. -/
def dumpTop (X : DumpCtx) (sm ia : Option String) (ig : Option (List PyVal)) (v : PyVal) : PyM PyVal :=
  dump X (orStr sm X.cfg.serializeMethod) (orStr ia X.cfg.ignoreAttribute) (ig.getD []) v

/-- The in-place writes of `dump` whose target is not a local bound to a fresh container: none, which is why
    `dump` is modelled as a function of the value. -/
def dumpNonFreshWrites : List String := []

/- ---------- load ---------- -/

inductive Effect where
  | imp (module : String)
  | construct (cls : String) (args : PyVal)
  | setattr (cls : String) (name : String)
deriving Repr, DecidableEq

/-- What `__import__` can see: the class environment plus importable modules that define none of its classes. -/
structure World where
  env : ClassEnv
  mods : List String := []

/-- `[a-zA-Z0-9_.]`, as ASCII ranges. -/
def allowedChar (c : Char) : Bool :=
  ('a'.toNat ≤ c.toNat && c.toNat ≤ 'z'.toNat) || ('A'.toNat ≤ c.toNat && c.toNat ≤ 'Z'.toNat) ||
  ('0'.toNat ≤ c.toNat && c.toNat ≤ '9'.toNat) || c.toNat == '_'.toNat || c.toNat == '.'.toNat

/-- `re.sub(INVALID_MODULE_CHARS, "", name) == name` -/
def validName (s : String) : Bool := s.toList.all allowedChar

/-- Splits at the last dot: `(module tree, class name)`; `none` when there is no dot. -/
def splitLastDot : List Char → Option (List Char × List Char)
  | [] => Option.none
  | c :: cs =>
    match splitLastDot cs with
    | some (a, b) => some (c :: a, b)
    | Option.none => if c == '.' then some ([], cs) else Option.none

/-- The module the *receiving* process runs as `__main__`.  The classes of the environment whose module is
    `__main__` are the classes "not importable by module path" of the property: `dump` names them without a
    module and only the local class table (`Config.classes`) resolves them — the receiver's own `__main__`
    module exists (it always does) but does not define them. -/
def mainModule : String := "__main__"

def moduleExists (W : World) (m : String) : Bool :=
  m == mainModule || W.mods.contains m || W.env.any (fun e => e.2.module == m)

def findInModule (env : ClassEnv) (m n : String) : Option String :=
  if m == mainModule then Option.none else
  match env.find? (fun e => e.2.module == m && e.2.name == n) with
  | some e => some e.1
  | Option.none => Option.none

/-- Class resolution of `load`: the local table only when it is non-empty and the name has no dot,
    otherwise `__import__(module, fromlist=[name])` and `getattr`. -/
def resolveClass (W : World) (classes : List (String × String)) (name : String) : PyM String × List Effect :=
  match splitLastDot name.toList with
  | Option.none =>
    if !classes.isEmpty then
      match classes.lookup name with
      | some c => (.ok c, [])
      | Option.none => (raise "TranslationError" (.str "unknown class"), [])
    else
      -- json_module_tree = "": __import__("") raises ValueError("Empty module name")
      (raise "ValueError" (.str "Empty module name"), [.imp ""])
  | some (mcs, ncs) =>
    let m := String.ofList mcs
    let n := String.ofList ncs
    if m == "" then (raise "ValueError" (.str "Empty module name"), [.imp ""])
    else if moduleExists W m then
      match findInModule W.env m n with
      | some c => (.ok c, [.imp m])
      | Option.none => (raise "TranslationError" (.str "unknown class"), [.imp m])
    else (raise "TranslationError" (.str "import"), [.imp m])

/- `str(Decimal(s)) == s`: the image of `Decimal.__str__` (the "to-scientific-string" of the General Decimal
   Arithmetic specification).  With the coefficient digits `D` (no leading zero, or exactly "0") and the exponent `e`:
   plain notation when `e ≤ 0` and `len(D) + e > -6`, otherwise one digit, the others after a point, and
   `E+x` / `E-x` with `x = len(D) + e - 1`; `Infinity`, `NaN<payload>`, `sNaN<payload>`; an optional `-` in front
   of each (`-0`, `-NaN` included). -/

def allDigits (cs : List Char) : Bool := cs.all Char.isDigit

/-- A natural number in decimal digits without a leading zero, or exactly "0". -/
def canonNat : List Char → Bool
  | [] => false
  | ['0'] => true
  | '0' :: _ => false
  | cs => allDigits cs

def countLeadingZeros : List Char → Nat
  | '0' :: r => countLeadingZeros r + 1
  | _ => 0

def decNat (cs : List Char) : Nat := cs.foldl (fun n c => 10 * n + (c.toNat - '0'.toNat)) 0

/-- `(0|[1-9][0-9]*)(\.[0-9]+)?`, and for `0.<fraction>`: at most five zeros between the point and the first
    significant digit (`0.000001` is written so, `0.0000001` is written `1E-7`; `0.000000` so, `0.0000000` is `0E-7`). -/
def canonPlain (cs : List Char) : Bool :=
  let (ip, rest) := cs.span Char.isDigit
  match rest with
  | [] => canonNat ip
  | '.' :: fr =>
    canonNat ip && !fr.isEmpty && allDigits fr &&
      (ip != ['0'] ||
        (let k := countLeadingZeros fr
         Nat.ble (if k == fr.length then k - 1 else k) 5))
  | _ => false

/-- `d(\.[0-9]+)?E[+-]x`: more than one coefficient digit ⇒ the first is not `0`; `E+x` needs `x ≥` the number of
    coefficient digits (a positive exponent `e`), `E-x` needs `x ≥ 7`; `x` has no leading zero. -/
def canonSci (cs : List Char) : Bool :=
  let (m, rest) := cs.span (fun c => c != 'E')
  match rest with
  | 'E' :: sgn :: ds =>
    let (d1, fr) := m.span Char.isDigit
    let mantOk := match d1, fr with
      | [_], [] => true
      | [d], '.' :: r => d != '0' && !r.isEmpty && allDigits r
      | _, _ => false
    let nd := match fr with
      | [] => 1
      | _ :: r => 1 + r.length
    mantOk && canonNat ds &&
      (if sgn == '+' then Nat.ble nd (decNat ds) else sgn == '-' && Nat.ble 7 (decNat ds))
  | _ => false

/-- `Infinity`, `NaN`, `sNaN`, the last two with an optional diagnostic payload (digits, no leading zero). -/
def canonSpecial (cs : List Char) : Bool :=
  let payloadOk (p : List Char) : Bool := p.isEmpty || (canonNat p && p != ['0'])
  match cs with
  | ['I', 'n', 'f', 'i', 'n', 'i', 't', 'y'] => true
  | 'N' :: 'a' :: 'N' :: p => payloadOk p
  | 's' :: 'N' :: 'a' :: 'N' :: p => payloadOk p
  | _ => false

/-- The literals `s` with `str(Decimal(s)) == s`: what `str` of a Decimal can be. -/
def canonDecimal (s : String) : Bool :=
  let cs := match s.toList with | '-' :: r => r | r => r
  canonPlain cs || canonSci cs || canonSpecial cs

/-- `fs[n] = v` keeping the position of an existing name. -/
def setField (n : String) (v : PyVal) : List (String × PyVal) → List (String × PyVal)
  | [] => [(n, v)]
  | (m, x) :: rest => if m == n then (m, v) :: rest else (m, x) :: setField n v rest

def setFields (fs : List (String × PyVal)) : List (String × PyVal) → List (String × PyVal)
  | [] => fs
  | (n, v) :: rest => setFields (setField n v fs) rest

def enumLookup (members : List (String × PyVal)) (v : PyVal) : Option (String × PyVal) :=
  members.find? (fun m => pyEq m.2 v)

/-- Can `setattr(instance of c, n, …)` store the attribute? -/
def canSet (env : ClassEnv) (c n : String) : Bool := hasDict env c || (slotsFinder env c).contains n

def isDunder (s : String) : Bool := startsDunder s.toList && startsDunder s.toList.reverse

def allStr : List (PyVal × PyVal) → Bool
  | [] => true
  | (k, _) :: r => k.isStr && allStr r

/-- `json_class(*params)` / `json_class(**params)`; a `TypeError` from the call becomes `TranslationError`. -/
def construct (env : ClassEnv) (c : String) (d : ClassDef) (params : PyVal) : PyM PyVal :=
  let te : PyM PyVal := raise "TranslationError" (.str "instantiating")
  match d.kind with
  | .bean init =>
    match params with
    | .list [] => pure (.obj c init)
    | .dict [] => pure (.obj c init)
    | _ => te
  | .serial _ _ ps _ base =>
    let mk (vals : List PyVal) : PyM PyVal :=
      if ps.all (canSet env c) then pure (.obj c (setFields base (ps.zip vals))) else raise "AttributeError"
    match params with
    | .list xs => if xs.length == ps.length then mk xs else te
    | .dict kw =>
      if !allStr kw then te
      else match lookupAll (kw.map fun (k, x) => ((match k with | .str s => s | _ => ""), x)) ps with
        | some vals => if kw.length == ps.length && namesDistinct ps then mk vals else te
        | Option.none => te
    | _ => te
  | .enum members =>
    let byValue (v : PyVal) : PyM PyVal :=
      match enumLookup members v with
      | some (n, x) => pure (.obj c [("name", .str n), ("value", x)])
      | Option.none => raise "ValueError" (.str "not a valid member")
    match params with
    | .list [] => te
    | .list [v] => byValue v
    | .list vs => byValue (.tuple vs)
    | .dict [] => te
    | _ => raise "Unmodelled" (.str "enum keyword construction")
  | .decimal =>
    match params with
    | .list [] => pure (.obj c [("str", .str "0")])
    | .dict [] => pure (.obj c [("str", .str "0")])
    | .list [.str s] => if canonDecimal s then pure (.obj c [("str", .str s)]) else raise "Unmodelled" (.str "Decimal literal")
    | _ => raise "Unmodelled" (.str "Decimal arguments")
  | .raising exc =>
    -- `except TypeError as ex: raise TranslationError(…)`; anything else propagates
    if exc == "TypeError" then te else raise exc

/-- `d[k]` on a dict for a hashable key: the entry whose key is `==` to `k`. -/
def lookupKey (k : PyVal) : List (PyVal × PyVal) → Option PyVal
  | [] => Option.none
  | (k', v) :: rest => if pyEq k' k then some v else lookupKey k rest

/-- `x[0]`, `x[1]` as Python evaluates `obj["__jsonclass__"][0]` then `[1]`. -/
def index01 (d : PyVal) : PyM (PyVal × PyVal) :=
  match d with
  | .list (a :: b :: _) => pure (a, b)
  | .list _ => raise "IndexError"
  | .tuple (a :: b :: _) => pure (a, b)
  | .tuple _ => raise "IndexError"
  | .str s => match s.toList with
    | a :: b :: _ => pure (.str (String.singleton a), .str (String.singleton b))
    | _ => raise "IndexError"
  | .dict kvs =>
    -- `d[0]` then `d[1]` on a dict: keys equal to the integers (`0 == False == 0.0`); a dict decoded from JSON
    -- has string keys only and raises KeyError
    match lookupKey (.int 0) kvs with
    | Option.none => raise "KeyError"
    | some a => match lookupKey (.int 1) kvs with
      | Option.none => raise "KeyError"
      | some b => pure (a, b)
  | _ => raise "TypeError" (.str "not subscriptable")

/-- From `orig_module_name = obj["__jsonclass__"][0]` to the instantiation: result and effects. -/
def instantiate (W : World) (classes : List (String × String)) (d : PyVal) : PyM PyVal × List Effect :=
  match index01 d with
  | .error e => (.error e, [])
  | .ok (name, params) =>
    -- if not orig_module_name: raise TranslationError("Module name empty.")
    if !name.truthy then (raise "TranslationError" (.str "empty"), [])
    else match name with
      | .str s =>
        -- if json_module_clean != orig_module_name: raise TranslationError(…)
        if !validName s then (raise "TranslationError" (.str "invalid characters"), [])
        else
          match resolveClass W classes s with
          | (.error e, lg) => (.error e, lg)
          | (.ok c, lg) =>
            match W.env.lookup c with
            | Option.none => (raise "Unmodelled" (.str "class table names an unknown class"), lg)
            | some cd =>
              match params with
              | .list _ => (construct W.env c cd params, lg ++ [.construct c params])
              | .dict _ => (construct W.env c cd params, lg ++ [.construct c params])
              | _ => (raise "TranslationError" (.str "constructor args"), lg)
      | _ => (raise "TypeError" (.str "re.sub on a non-string"), [])

/-- `setattr(new_obj, key, value)` -/
def setAttr (env : ClassEnv) (o : PyVal) (k v : PyVal) : PyM PyVal :=
  match o, k with
  | .obj c fs, .str n =>
    if isDunder n then raise "Unmodelled" (.str "dunder attribute")
    else match env.lookup c with
      | some d =>
        match d.kind with
        | .enum _ => raise "Unmodelled" (.str "setattr on an enum member")
        | .decimal => raise "Unmodelled" (.str "setattr on a Decimal")
        | .raising _ => raise "Unmodelled" (.str "instance of a class that cannot be instantiated")
        | _ => if canSet env c n then pure (.obj c (setField n v fs)) else raise "AttributeError"
      | Option.none => raise "Unmodelled" (.str "unknown class")
  | .obj _ _, _ => raise "TypeError" (.str "attribute name must be string")
  | _, _ => raise "Unmodelled" (.str "setattr on a non-instance")

/-- Result, effect log and final state of the argument. -/
structure Out where
  res : PyM PyVal
  log : List Effect
  arg : PyVal

structure OutL where
  res : PyM (List PyVal)
  log : List Effect
  args : List PyVal

structure OutKV where
  res : PyM (List (PyVal × PyVal))
  log : List Effect
  args : List (PyVal × PyVal)

structure OutA where
  res : PyM PyVal
  log : List Effect
  args : List (PyVal × PyVal)

/-- Is this dict key the string `"__jsonclass__"`? -/
def isJcKey : PyVal → Bool
  | .str s => s == jcKey
  | _ => false

def className : PyVal → String
  | .obj c _ => c
  | _ => ""

/-- The three recursive `load(…)` call sites of the code and whether each forwards `classes`
    (the model forwards at each; compared with the source by `C07_gen_loadCalls`). -/
def loadCallSites : List (String × Bool) := [("list", true), ("dict", true), ("setattr", true)]

mutual
  /-- `jsonclass.load(obj, classes)` -/
  def load (W : World) (classes : List (String × String)) : PyVal → Out
    -- if isinstance(obj, utils.PRIMITIVE_TYPES): return obj
    | .none => ⟨.ok .none, [], .none⟩
    | .bool b => ⟨.ok (.bool b), [], .bool b⟩
    | .int i => ⟨.ok (.int i), [], .int i⟩
    | .float f => ⟨.ok (.float f), [], .float f⟩
    | .str s => ⟨.ok (.str s), [], .str s⟩
    -- elif isinstance(obj, utils.ITERABLE_TYPES): return [load(entry, classes) for entry in obj]
    | .list xs => let r := loadList W classes xs; ⟨r.res.map .list, r.log, .list r.args⟩
    | .tuple xs => let r := loadList W classes xs; ⟨r.res.map .list, r.log, .tuple r.args⟩
    | .set xs => let r := loadList W classes xs; ⟨r.res.map .list, r.log, .set r.args⟩
    | .frozenset xs => let r := loadList W classes xs; ⟨r.res.map .list, r.log, .frozenset r.args⟩
    | .dict kvs =>
      match lookupStr jcKey kvs with
      -- elif "__jsonclass__" not in obj: return {key: load(value, classes) for key, value in obj.items()}
      | Option.none => let r := loadKVs W classes kvs; ⟨r.res.map .dict, r.log, .dict r.args⟩
      | some d =>
        match instantiate W classes d with
        | (.error e, lg) => ⟨.error e, lg, .dict kvs⟩
        | (.ok newObj, lg) =>
          -- raw_jsonclass = obj.pop("__jsonclass__"); try: for key, value in obj.items(): setattr(…)
          -- finally: obj["__jsonclass__"] = raw_jsonclass
          let r := loadAttrs W classes newObj kvs
          ⟨r.res, lg ++ r.log, .dict (r.args ++ [(.str jcKey, d)])⟩
    -- `"__jsonclass__" not in obj` on an instance
    | .obj c fs => ⟨raise "TypeError" (.str "not iterable"), [], .obj c fs⟩
  def loadList (W : World) (classes : List (String × String)) : List PyVal → OutL
    | [] => ⟨.ok [], [], []⟩
    | x :: xs =>
      let r := load W classes x
      match r.res with
      | .error e => ⟨.error e, r.log, r.arg :: xs⟩
      | .ok y =>
        let rs := loadList W classes xs
        ⟨rs.res.map (y :: ·), r.log ++ rs.log, r.arg :: rs.args⟩
  def loadKVs (W : World) (classes : List (String × String)) : List (PyVal × PyVal) → OutKV
    | [] => ⟨.ok [], [], []⟩
    | (k, x) :: xs =>
      let r := load W classes x
      match r.res with
      | .error e => ⟨.error e, r.log, (k, r.arg) :: xs⟩
      | .ok y =>
        let rs := loadKVs W classes xs
        ⟨rs.res.map ((k, y) :: ·), r.log ++ rs.log, (k, r.arg) :: rs.args⟩
  /-- The `setattr` loop over the dict from which `__jsonclass__` was popped; `args` is the final state of
      those entries. -/
  def loadAttrs (W : World) (classes : List (String × String)) (o : PyVal) : List (PyVal × PyVal) → OutA
    | [] => ⟨.ok o, [], []⟩
    | (k, x) :: xs =>
      if isJcKey k then loadAttrs W classes o xs
      else
        -- setattr(new_obj, key, load(value, classes)): the value is loaded first
        let r := load W classes x
        match r.res with
        | .error e => ⟨.error e, r.log, (k, r.arg) :: xs.filter (fun e => !isJcKey e.1)⟩
        | .ok y =>
          match setAttr W.env o k y with
          | .error e => ⟨.error e, r.log, (k, r.arg) :: xs.filter (fun e => !isJcKey e.1)⟩
          | .ok o' =>
            let rs := loadAttrs W classes o' xs
            ⟨rs.res, r.log ++ [.setattr (className o) (match k with | .str n => n | _ => "")] ++ rs.log,
             (k, r.arg) :: rs.args⟩
end

/- ---------- constants compared with the source on every run (JRV.Generated) ---------- -/

/-- `utils.ITERABLE_TYPES`, `utils.PRIMITIVE_TYPES` (Python 3) and `jsonclass.SUPPORTED_TYPES` as the models
    `isIterable`, `isPrimitive` and `isKnown` encode them (`bytes` is outside the value universe). -/
def iterableTypeNames : List String := ["list", "set", "frozenset", "tuple"]
def primitiveTypeNames : List String := ["bytes", "str", "int", "float", "bool", "NoneType"]
def supportedTypeNames : List String := "dict" :: iterableTypeNames ++ primitiveTypeNames

/-- The complement of `INVALID_MODULE_CHARS` as code point ranges (`allowedChar`). -/
def moduleCharRanges : List (Nat × Nat) := [(46, 46), (48, 57), (65, 90), (95, 95), (97, 122)]

/-- `_slots_finder` as modelled by `slotsFinder`: own slots only, mangled with the class's own name, bases visited. -/
def slotsFinderShape : Bool × Bool × Bool := (true, true, true)

/-- `load` restores "__jsonclass__" on every path out of the `setattr` loop (`try/finally`). -/
def restoresInFinally : Bool := true

/- ---------- constants for C20 / C08 compared with the source on every run ---------- -/

/-- The recursive `dump(…)` call sites of the code (list comprehension, dict comprehension, field loop) and
    whether each forwards `serialize_method, ignore_attribute, ignore, config` unchanged: the model's
    `dumpList`, `dumpKVs` and `dumpFields` call `dump X sm ia ig` with the arguments they were given. -/
def dumpCallSites : List (String × Bool) := [("list", true), ("dict", true), ("field", true)]

/-- `dump` looks `type(obj)` up in `config.serialize_handlers` as its first statement after the normalisation of
    its arguments and returns a non-`None` handler's result as it is: the outer `match handlerFor …` of the model's
    `dump`. -/
def handlerLookupFirst : Bool := true

/-- What the handler is called with: `X.H h v sm ia ig` (the configuration is the context `X`). -/
def handlerCallArgs : List String := ["obj", "serialize_method", "ignore_attribute", "ignore", "config"]

/-- `known_types = SUPPORTED_TYPES + tuple(config.serialize_handlers)`: `isKnown` consults the handler table. -/
def knownTypesIncludeHandlers : Bool := true

/-- `dumpBean`: (`ignore_list = getattr(obj, ignore_attribute, []) + ignore`, names removed from the discovered
    fields by `difference_update` before the loop, `attr_value not in ignore_list` in the field test). -/
def ignoreAssembly : Bool × Bool × Bool := (true, true, true)

/-- The `if hasattr(obj, serialize_method):` branch: `ignore_list = getattr(obj, ignore_attribute, []) + ignore`
    and only the returned attributes with `key not in ignore_list` are emitted (the `filter` of the model's
    serial branch). -/
def serialIgnoreFilter : Bool := true

/-- The field test of `dumpFields`, in evaluation order: the type test comes first, so that a value of neither a
    supported nor a handled type is never compared with the ignore-list entries (`keep.contains n && isKnown X x`
    guards `valueIn`). -/
def fieldFilterOrder : List String := ["isinstance-known", "not-in-ignore"]

/-- `dumpTop`: `x or config.x` for the two names, `ignore or []`. -/
def dumpDefaults : Bool × Bool × Bool := (true, true, true)

/-- The attribute names `dump` reads from the object (as a sorted set): `hasattr/getattr(obj, serialize_method)`,
    `getattr(obj, ignore_attribute, [])` (both the serialisation-method branch and the field-wise branch),
    `getattr(obj, attr_name)` — variables, never a literal name. -/
def attributeNamesConsulted : List String :=
  ["getattr:<var>", "getattr:ignore_attribute", "getattr:serialize_method", "hasattr:serialize_method"]

/-- `load`: the empty-name and invalid-character tests precede `__import__` (`instantiate` tests `truthy` and
    `validName` before `resolveClass`). -/
def validationPrecedesImport : Bool := true

end JRV.JsonClass
