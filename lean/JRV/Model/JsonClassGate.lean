/-
  JRV.Model.JsonClassGate — the `use_jsonclass` gates of jsonrpclib/jsonrpc.py (`load`, `dump`) composed with
  the class translator of JRV.Model.JsonClass, *with the effect log*, and the front of the server's
  `_marshaled_dispatch` (`jsonrpclib.loads` inside `try/except Exception`).

  `JRV.Payload.load cfg unconv` (shared model) abstracts the translator as a function; `rpcLoad` instantiates it
  with `JsonClass.load W cfg.classes` and keeps what the translator logged (imports, constructions, setattr)
  and the final state of the argument — `rpcLoad_res` shows that the two agree on the result.
-/
import JRV.Model.Payload
import JRV.Model.JsonClass
import JRV.Model.Server

namespace JRV.JsonClass
open JRV JRV.PyVal

/-- `jsonrpc.load(data, config)`: `None` passes, the translator runs only `if config.use_jsonclass`. -/
def rpcLoad (cfg : Config) (W : World) (data : PyVal) : Out :=
  match data with
  | .none => ⟨.ok .none, [], .none⟩
  | d => if cfg.useJsonclass then load W cfg.classes d else ⟨.ok d, [], d⟩

/-- `jsonrpc.loads(text, config)` after the JSON backend (`parsed = none`: the text is not JSON; the empty
    text is `some none`, a notification reply), as the `try: … except Exception:` of `_marshaled_dispatch` sees
    it: a value, or "raised" — together with what the translator did before raising. -/
def serverParse (cfg : Config) (W : World) (parsed : Option PyVal) : Server.ParseOutcome × List Effect :=
  match parsed with
  | Option.none => (.parseError, [])
  | some v =>
    match (rpcLoad cfg W v).res with
    | .ok x => (.parsed x, (rpcLoad cfg W v).log)
    | .error _ => (.parseError, (rpcLoad cfg W v).log)

/-- (`jsonrpc.dump` gate, `jsonrpc.load` gate): both calls of the translator are inside `if config.use_jsonclass`
    (`Payload.dump`, `Payload.load`, `rpcLoad`). -/
def useJsonclassGates : Bool × Bool := (true, true)

/-- Which expression the call sites of `dump` / `dumps` / `load` / `loads` / `Fault(…)` of a (module, class) pass
    as `config`: the configuration of the proxy, of the batch, of the fault, of the server — never nothing (the
    default configuration has `use_jsonclass = True`).  In the models the configuration is an explicit argument of
    `Payload.dump`, `Payload.load`, `rpcLoad`, `serverParse`, `Server.marshaledDispatch`. -/
def configExprs : List (String × String × List String) := [
  ("jsonrpc", "ServerProxy", ["self._config"]), ("jsonrpc", "MultiCallMethod", ["self._config"]),
  ("jsonrpc", "Fault", ["self.config"]), ("jsonrpc", "", ["config"]),
  ("SimpleJSONRPCServer", "", ["json_config"]),
  ("SimpleJSONRPCServer", "SimpleJSONRPCDispatcher", ["config", "self.json_config"]),
  ("SimpleJSONRPCServer", "SimpleJSONRPCRequestHandler", ["config"])]

/-- Every extracted call site (module, class, function, callee, config expression) passes one of the expressions
    its class is allowed to pass. -/
def configForwarded (sites : List (String × String × String × String × String)) : Bool :=
  sites.all fun s =>
    match configExprs.find? (fun e => e.1 == s.1 && e.2.1 == s.2.1) with
    | some e => e.2.2.contains s.2.2.2.2
    | Option.none => false

/-- The call sites on the path of every remote call, of a batch, of a notification and of a reply. -/
def requiredConfigSites : List (String × String × String × String × String) := [
  ("jsonrpc", "ServerProxy", "_request", "dumps", "self._config"),
  ("jsonrpc", "ServerProxy", "_request_notify", "dumps", "self._config"),
  ("jsonrpc", "ServerProxy", "_run_request", "loads", "self._config"),
  ("jsonrpc", "MultiCallMethod", "request", "dumps", "self._config"),
  ("jsonrpc", "", "dumps", "dump", "config"), ("jsonrpc", "", "loads", "load", "config"),
  ("SimpleJSONRPCServer", "SimpleJSONRPCDispatcher", "_marshaled_dispatch", "loads", "self.json_config"),
  ("SimpleJSONRPCServer", "SimpleJSONRPCDispatcher", "_marshaled_single_dispatch", "dump", "config")]

end JRV.JsonClass
