/-
  JRV.Model.JsonClassGate — the `use_jsonclass` gates of jsonrpclib/jsonrpc.py (`load`, `dump`) composed with
  the class translator of JRV.Model.JsonClass, *with the effect log*, and the front of the server's
  `_marshaled_dispatch` (`jsonrpclib.loads` inside `try/except Exception`).

  `JRV.Payload.load cfg unconv` (shared model) abstracts the translator as a function; `rpcLoad` instantiates it
  with `JsonClass.load W cfg.classes` and keeps what the translator logged (imports, constructions, setattr)
  and the final state of the argument — `rpcLoad_res` shows that the two agree on the result.
-/
import JRV.Model.Payload
import JRV.Model.JsonClass
import JRV.Model.Server

namespace JRV.JsonClass
open JRV JRV.PyVal

/-- `jsonrpc.load(data, config)`: `None` passes, the translator runs only `if config.use_jsonclass`. -/
def rpcLoad (cfg : Config) (W : World) (data : PyVal) : Out :=
  match data with
  | .none => ⟨.ok .none, [], .none⟩
  | d => if cfg.useJsonclass then load W cfg.classes d else ⟨.ok d, [], d⟩

/-- `jsonrpc.loads(text, config)` after the JSON backend (`parsed = none`: the text is not JSON; the empty
    text is `some none`, a notification reply), as the `try: … except Exception:` of `_marshaled_dispatch` sees
    it: a value, or "raised" — together with what the translator did before raising. -/
def serverParse (cfg : Config) (W : World) (parsed : Option PyVal) : Server.ParseOutcome × List Effect :=
  match parsed with
  | Option.none => (.parseError, [])
  | some v =>
    match (rpcLoad cfg W v).res with
    | .ok x => (.parsed x, (rpcLoad cfg W v).log)
    | .error _ => (.parseError, (rpcLoad cfg W v).log)

/-- (`jsonrpc.dump` gate, `jsonrpc.load` gate): both calls of the translator are inside `if config.use_jsonclass`
    (`Payload.dump`, `Payload.load`, `rpcLoad`). -/
def useJsonclassGates : Bool × Bool := (true, true)

end JRV.JsonClass
