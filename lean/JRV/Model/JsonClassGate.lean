/-
  JRV.Model.JsonClassGate — the `use_jsonclass` gates of jsonrpclib/jsonrpc.py (`load`, `dump`) composed with
  the class translator of JRV.Model.JsonClass, *with the effect log*, and the front of the server's
  `_marshaled_dispatch` (`jsonrpclib.loads` inside `try/except Exception`).

  `JRV.Payload.load cfg unconv` (shared model) abstracts the translator as a function; `rpcLoad` instantiates it
  with `JsonClass.load W cfg.classes` and keeps what the translator logged (imports, constructions, setattr)
  and the final state of the argument — `rpcLoad_res` shows that the two agree on the result.
-/
import JRV.Model.Payload
import JRV.Model.JsonClass
import JRV.Model.Server

namespace JRV.JsonClass
open JRV JRV.PyVal

/-- `jsonrpc.load(data, config)`: `None` passes, the translator runs only `if config.use_jsonclass`. -/
def rpcLoad (cfg : Config) (W : World) (data : PyVal) : Out :=
  match data with
  | .none => ⟨.ok .none, [], .none⟩
  | d => if cfg.useJsonclass then load W cfg.classes d else ⟨.ok d, [], d⟩

/-- `jsonrpc.loads(text, config)` after the JSON backend (`parsed = none`: the text is not JSON; the empty
    text is `some none`, a notification reply), as the `try: … except Exception:` of `_marshaled_dispatch` sees
    it: a value, or "raised" — together with what the translator did before raising. -/
def serverParse (cfg : Config) (W : World) (parsed : Option PyVal) : Server.ParseOutcome × List Effect :=
  match parsed with
  | Option.none => (.parseError, [])
  | some v =>
    match (rpcLoad cfg W v).res with
    | .ok x => (.parsed x, (rpcLoad cfg W v).log)
    | .error _ => (.parseError, (rpcLoad cfg W v).log)

/-- (`jsonrpc.dump` gate, `jsonrpc.load` gate): both calls of the translator are inside `if config.use_jsonclass`
    (`Payload.dump`, `Payload.load`, `rpcLoad`). -/
def useJsonclassGates : Bool × Bool := (true, true)

/-- Every way out of `jsonrpc.loads(data, config)` by `return`, as (conditions on the path, returned expression): `None` for the
    empty text, `load(jloads(data), config)` for every other one — `Payload.loads`.  The raw text is read by the emptiness
    test and by the JSON backend, by nothing else: what is done with a text depends on the value it denotes only
    (compared with the source on every run: `Generated.loadsReturns`). -/
def loadsReturns : List (String × String) :=
  [("empty(data)", "None"), ("not empty(data)", "load(jloads(data), config)")]

/-- Which expression the call sites of `dump` / `dumps` / `load` / `loads` / `Fault(…)` of a (module, class) pass
    as `config`: the configuration of the proxy, of the batch, of the fault, of the server — never nothing (the
    default configuration has `use_jsonclass = True`).  In the models the configuration is an explicit argument of
    `Payload.dump`, `Payload.load`, `rpcLoad`, `serverParse`, `Server.marshaledDispatch`. -/
def configExprs : List (String × String × List String) := [
  ("jsonrpc", "ServerProxy", ["self._config"]), ("jsonrpc", "MultiCallMethod", ["self._config"]),
  ("jsonrpc", "Fault", ["self.config"]), ("jsonrpc", "", ["config"]),
  ("SimpleJSONRPCServer", "", ["json_config"]),
  ("SimpleJSONRPCServer", "SimpleJSONRPCDispatcher", ["config", "self.json_config"]),
  ("SimpleJSONRPCServer", "SimpleJSONRPCRequestHandler", ["config"])]

/-- Every extracted call site (module, class, function, callee, config expression) passes one of the expressions
    its class is allowed to pass. -/
def configForwarded (sites : List (String × String × String × String × String)) : Bool :=
  sites.all fun s =>
    match configExprs.find? (fun e => e.1 == s.1 && e.2.1 == s.2.1) with
    | some e => e.2.2.contains s.2.2.2.2
    | Option.none => false

/-- The call sites on the path of every remote call, of a batch, of a notification and of a reply. -/
def requiredConfigSites : List (String × String × String × String × String) := [
  ("jsonrpc", "ServerProxy", "_request", "dumps", "self._config"),
  ("jsonrpc", "ServerProxy", "_request_notify", "dumps", "self._config"),
  ("jsonrpc", "ServerProxy", "_run_request", "loads", "self._config"),
  ("jsonrpc", "MultiCallMethod", "request", "dumps", "self._config"),
  ("jsonrpc", "", "dumps", "dump", "config"), ("jsonrpc", "", "loads", "load", "config"),
  ("SimpleJSONRPCServer", "SimpleJSONRPCDispatcher", "_marshaled_dispatch", "loads", "self.json_config"),
  ("SimpleJSONRPCServer", "SimpleJSONRPCDispatcher", "_marshaled_single_dispatch", "dump", "config")]

/-- For every class of jsonrpc.py / SimpleJSONRPCServer.py whose constructor takes a configuration: the attribute of
    the new object that holds it afterwards — stored by the constructor itself or by the constructor of the base
    class it forwards the argument to.  In the models an entry point *is* its configuration argument
    (`Server.marshaledDispatch cfg …`, `rpcLoad cfg …`, `Payload.dump cfg …`): the table records that each real
    constructor keeps the object it is given, so that the methods reading `self.json_config` / `self._config` /
    `self.config` (`configExprs`) read that object and not the default configuration (whose `use_jsonclass` is on).
    `Payload` keeps nothing: it reads `config.version` in its constructor only. -/
def configSinks : List (String × String × String) := [
  ("SimpleJSONRPCServer", "CGIJSONRPCRequestHandler", "json_config"),
  ("SimpleJSONRPCServer", "PooledJSONRPCServer", "json_config"),
  ("SimpleJSONRPCServer", "SimpleJSONRPCDispatcher", "json_config"),
  ("SimpleJSONRPCServer", "SimpleJSONRPCServer", "json_config"),
  ("jsonrpc", "Fault", "config"), ("jsonrpc", "MultiCall", "_config"), ("jsonrpc", "MultiCallMethod", "_config"),
  ("jsonrpc", "MultiCallNotify", "_config"), ("jsonrpc", "Payload", ""), ("jsonrpc", "SafeTransport", "_config"),
  ("jsonrpc", "ServerProxy", "_config"), ("jsonrpc", "Transport", "_config"), ("jsonrpc", "TransportMixIn", "_config"),
  ("jsonrpc", "UnixTransport", "_config")]

/-- Every other call of something that has a configuration parameter (constructors of the transports and of the
    batch helpers, `validate_request`, `_dispatch`, `_method_exception_fault`) passes the configuration at hand —
    the parameter, or the attribute the constructor stored it in; `Payload(…)` alone may be built without one (its
    caller `dump` has resolved the version already, the only thing `Payload` reads). -/
def configPassed (sites : List (String × String × String × String × String)) : Bool :=
  sites.all fun s =>
    if s.2.2.2.1 == "Payload" then s.2.2.2.2 == "" || s.2.2.2.2 == "config"
    else ["config", "self._config", "self.json_config"].contains s.2.2.2.2

/-- The hand-overs on the path of a remote call, of a batch and of a served request. -/
def requiredPassing : List (String × String × String × String × String) := [
  ("jsonrpc", "ServerProxy", "__init__", "Transport", "config"),
  ("jsonrpc", "ServerProxy", "__init__", "SafeTransport", "config"),
  ("jsonrpc", "ServerProxy", "__init__", "UnixTransport", "config"),
  ("jsonrpc", "MultiCall", "__getattr__", "MultiCallMethod", "self._config"),
  ("jsonrpc", "MultiCall", "_notify", "MultiCallNotify", "self._config"),
  ("jsonrpc", "MultiCallNotify", "__getattr__", "MultiCallMethod", "self._config"),
  ("SimpleJSONRPCServer", "SimpleJSONRPCDispatcher", "_marshaled_single_dispatch", "_dispatch", "config"),
  ("SimpleJSONRPCServer", "SimpleJSONRPCDispatcher", "_marshaled_single_dispatch", "&_dispatch", "config"),
  ("SimpleJSONRPCServer", "SimpleJSONRPCDispatcher", "_unmarshaled_dispatch", "validate_request", "self.json_config")]

end JRV.JsonClass
