/-
  JRV.Model.JsonString — what a JSON string literal DENOTES (RFC 8259 section 7), and the ways one string can be spelt.

  `JRV.Model.JsonText` recognises which texts are JSON; the payload models (`Payload.loads`, `rpcLoad`) start from the
  decoded value (`Backend.parse`).  In between sits the fact the class translator's gate relies on: a member name or a
  class name is the *decoded* string, however the peer chose to write it.  `"__jsonclass__"`, `"__jsonclass__"`
  and `"__jsonclass__"` are the same member name.

      char = unescaped / "\" ( %x22 / %x5C / %x2F / b / f / n / r / t / u 4HEXDIG )

  * `decode body` — the string denoted by the text between the quotation marks; `none` when the body is not one (raw
    quotation mark, raw control character, unknown or truncated escape), and also for an unpaired surrogate escape
    (`\uD800` alone): Python keeps it as a lone surrogate, which Lean's `Char` cannot represent — the model declines,
    the harness counts these cases.
  * `spell` — a string written character by character, each one raw, with its short escape, or as `\uXXXX` (astral
    characters as a surrogate pair) with any mixture of upper- and lower-case hexadecimal digits.

  All character tests are on the code point, as in JsonText.
-/
namespace JRV.JsonString

/- ---------- decoding ---------- -/

def hexVal (c : Char) : Option Nat :=
  let n := c.toNat
  if 48 ≤ n && n ≤ 57 then some (n - 48)
  else if 65 ≤ n && n ≤ 70 then some (n - 55)
  else if 97 ≤ n && n ≤ 102 then some (n - 87)
  else none

def hex4 (a b c d : Char) : Option Nat :=
  match hexVal a, hexVal b, hexVal c, hexVal d with
  | some x, some y, some z, some w => some (x * 4096 + y * 256 + z * 16 + w)
  | _, _, _, _ => none

/-- The character a short escape stands for: `\" \\ \/ \b \f \n \r \t`. -/
def shortEscape (e : Char) : Option Char :=
  if e.toNat == 34 then some (Char.ofNat 34)
  else if e.toNat == 92 then some (Char.ofNat 92)
  else if e.toNat == 47 then some (Char.ofNat 47)
  else if e.toNat == 98 then some (Char.ofNat 8)
  else if e.toNat == 102 then some (Char.ofNat 12)
  else if e.toNat == 110 then some (Char.ofNat 10)
  else if e.toNat == 114 then some (Char.ofNat 13)
  else if e.toNat == 116 then some (Char.ofNat 9)
  else none

def isHigh (n : Nat) : Bool := 0xD800 ≤ n && n ≤ 0xDBFF
def isLow (n : Nat) : Bool := 0xDC00 ≤ n && n ≤ 0xDFFF

def cons? {α : Type} (c : α) : Option (List α) → Option (List α)
  | some r => some (c :: r)
  | none => none

/-- First pass: the UTF-16-style code units of the body — one per raw character (its code point), per short escape and per
    `\uXXXX` escape. -/
def units : List Char → Option (List Nat)
  | [] => some []
  | c :: rest =>
    if c.toNat == 92 then
      match rest with
      | [] => none
      | e :: rest1 =>
        if e.toNat == 117 then
          match rest1 with
          | h1 :: h2 :: h3 :: h4 :: rest2 =>
            match hex4 h1 h2 h3 h4 with
            | some n => cons? n (units rest2)
            | none => none
          | _ => none
        else
          match shortEscape e with
          | some ch => cons? ch.toNat (units rest1)
          | none => none
    else if c.toNat == 34 || c.toNat < 32 then none
    else cons? c.toNat (units rest)

/-- Second pass: a high surrogate followed by a low one is one character beyond U+FFFF; an unpaired surrogate is
    declined (Python keeps it as a lone surrogate, which `Char` cannot represent). -/
def join : List Nat → Option (List Char)
  | [] => some []
  | n :: rest =>
    if isHigh n then
      match rest with
      | m :: rest' =>
        if isLow m then cons? (Char.ofNat (0x10000 + (n - 0xD800) * 1024 + (m - 0xDC00))) (join rest') else none
      | [] => none
    else if isLow n then none
    else cons? (Char.ofNat n) (join rest)

/-- The string denoted by the body of a string literal (the text between the quotation marks). -/
def decode (body : List Char) : Option (List Char) :=
  match units body with
  | some us => join us
  | none => none

/- ---------- spelling ---------- -/

/-- The hexadecimal digit of `n < 16`, upper- or lower-case. -/
def hexDigit (upper : Bool) (n : Nat) : Char :=
  if n < 10 then Char.ofNat (48 + n) else if upper then Char.ofNat (55 + n) else Char.ofNat (87 + n)

/-- `\uXXXX` for a code unit `n < 65536`, the case of each digit chosen by `cs`. -/
def uEscape (cs : Bool × Bool × Bool × Bool) (n : Nat) : List Char :=
  [Char.ofNat 92, Char.ofNat 117, hexDigit cs.1 (n / 4096), hexDigit cs.2.1 (n / 256 % 16), hexDigit cs.2.2.1 (n / 16 % 16),
   hexDigit cs.2.2.2 (n % 16)]

/-- The short escape of a character, when it has one. -/
def shortOf (c : Char) : Option Char :=
  if c.toNat == 34 then some (Char.ofNat 34)
  else if c.toNat == 92 then some (Char.ofNat 92)
  else if c.toNat == 47 then some (Char.ofNat 47)
  else if c.toNat == 8 then some (Char.ofNat 98)
  else if c.toNat == 12 then some (Char.ofNat 102)
  else if c.toNat == 10 then some (Char.ofNat 110)
  else if c.toNat == 13 then some (Char.ofNat 114)
  else if c.toNat == 9 then some (Char.ofNat 116)
  else none

/-- How one character is written. -/
inductive How where
  /-- as it is -/
  | raw
  /-- with its short escape (`\n`, `\/`, …) -/
  | short
  /-- `\uXXXX` (two of them for a character beyond U+FFFF), with these letter cases -/
  | u (hi lo : Bool × Bool × Bool × Bool)
deriving Repr, DecidableEq

/-- May the character be written this way? -/
def allowed (c : Char) : How → Bool
  | .raw => !(c.toNat == 34 || c.toNat == 92 || c.toNat < 32)
  | .short => (shortOf c).isSome
  | .u _ _ => true

def spellChar (c : Char) : How → List Char
  | .raw => [c]
  | .short => match shortOf c with
    | some e => [Char.ofNat 92, e]
    | none => [c]
  | .u hi lo =>
    if c.toNat < 0x10000 then uEscape hi c.toNat
    else uEscape hi (0xD800 + (c.toNat - 0x10000) / 1024) ++ uEscape lo (0xDC00 + (c.toNat - 0x10000) % 1024)

/-- A string written character by character. -/
def spell : List (Char × How) → List Char
  | [] => []
  | (c, h) :: rest => spellChar c h ++ spell rest

def allAllowed : List (Char × How) → Bool
  | [] => true
  | (c, h) :: rest => allowed c h && allAllowed rest

/-- Does the raw text contain this run of characters? -/
def isInfix (needle : List Char) : List Char → Bool
  | [] => needle.isEmpty
  | c :: rest => needle.isPrefixOf (c :: rest) || isInfix needle rest

end JRV.JsonString
