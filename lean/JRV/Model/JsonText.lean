/-
  JRV.Model.JsonText — the text layer in front of the dispatcher: which request bodies the JSON parser
  of the standard-library handler (`jsonrpclib/jsonlib.py`, `JsonHandler.get_methods` → `json.loads`
  with its default, *strict* settings) accepts, as a recogniser of the RFC 8259 grammar.

      JSON-text = ws value ws                     ws = *( %x20 / %x09 / %x0A / %x0D )
      value     = false / null / true / object / array / number / string
      object    = "{" ws [ member *( "," ws member ) ] "}"      member = string ws ":" ws value ws
      array     = "[" ws [ value ws *( "," ws value ws ) ] "]"
      number    = [ "-" ] ( "0" / digit1-9 *DIGIT ) [ "." 1*DIGIT ] [ ("e"/"E") [ "-"/"+" ] 1*DIGIT ]
      string    = quotation-mark *char quotation-mark
      char      = unescaped (%x20-21 / %x23-5B / %x5D-10FFFF)
                / "\" ( %x22 / %x5C / %x2F / b / f / n / r / t / u 4HEXDIG )

  Every production the standard parser enforces is a place where this recogniser answers `none`:
  raw control characters U+0000–U+001F inside a string, unknown escapes, short or non-hexadecimal
  `\u` escapes, leading zeros, a bare or leading `+`, missing fraction / exponent digits, hexadecimal
  numbers, trailing / leading / doubled commas, single quotes, unquoted or non-string keys, comments,
  trailing text, a byte-order mark, white space other than the four characters above.  (The literals
  `NaN`, `Infinity`, `-Infinity`, which the standard parser tolerates, are outside the domain of the
  properties and are rejected here as RFC 8259 says.)

  All character tests are on the code point (`Char.toNat`), so that the lemmas are arithmetic.
  `value`, `elements`, `members` are structurally recursive on a fuel argument; `accepts` hands them
  `2 * length + 4`, more than any run can use (every call consumes a character before it recurses).

  The empty body is malformed like any other text the grammar rejects: the dispatcher raises on it inside
  its parse `try` before `jsonrpclib.loads` (which would return `None` for `""`) is called — fix e82f118.
-/
namespace JRV.JsonText

/- ---------- character classes ---------- -/

def isWs (c : Char) : Bool := c.toNat == 32 || c.toNat == 9 || c.toNat == 10 || c.toNat == 13

def isDigit (c : Char) : Bool := 48 ≤ c.toNat && c.toNat ≤ 57

def isDigit19 (c : Char) : Bool := 49 ≤ c.toNat && c.toNat ≤ 57

def isHex (c : Char) : Bool :=
  (48 ≤ c.toNat && c.toNat ≤ 57) || (65 ≤ c.toNat && c.toNat ≤ 70) || (97 ≤ c.toNat && c.toNat ≤ 102)

/-- The character after a backslash, other than `u`: `" \ / b f n r t`. -/
def isSimpleEscape (c : Char) : Bool :=
  c.toNat == 34 || c.toNat == 92 || c.toNat == 47 || c.toNat == 98 || c.toNat == 102 || c.toNat == 110
    || c.toNat == 114 || c.toNat == 116

/-- A raw control character U+0000–U+001F: not allowed inside a string literal. -/
def isControl (c : Char) : Bool := c.toNat < 32

/- ---------- tokens ---------- -/

def skipWs : List Char → List Char
  | [] => []
  | c :: rest => if isWs c then skipWs rest else c :: rest

/-- The rest of a string literal, *after* its opening quotation mark: the text after the closing
    quotation mark, or `none`. -/
def scanString : List Char → Option (List Char)
  | [] => none
  | c :: rest =>
    if c.toNat == 34 then some rest
    else if c.toNat == 92 then
      match rest with
      | [] => none
      | e :: rest1 =>
        if e.toNat == 117 then
          match rest1 with
          | h1 :: h2 :: h3 :: h4 :: rest2 =>
            if isHex h1 && isHex h2 && isHex h3 && isHex h4 then scanString rest2 else none
          | _ => none
        else if isSimpleEscape e then scanString rest1
        else none
    else if isControl c then none
    else scanString rest

def skipDigits : List Char → List Char
  | [] => []
  | c :: rest => if isDigit c then skipDigits rest else c :: rest

/-- `1*DIGIT`. -/
def digits1 : List Char → Option (List Char)
  | [] => none
  | c :: rest => if isDigit c then some (skipDigits rest) else none

/-- `"0" / digit1-9 *DIGIT`. -/
def scanInt : List Char → Option (List Char)
  | [] => none
  | c :: rest =>
    if c.toNat == 48 then some rest
    else if isDigit19 c then some (skipDigits rest)
    else none

/-- `[ "." 1*DIGIT ]`. -/
def scanFrac : List Char → Option (List Char)
  | [] => some []
  | c :: rest => if c.toNat == 46 then digits1 rest else some (c :: rest)

/-- `[ ("e"/"E") [ "-"/"+" ] 1*DIGIT ]`. -/
def scanExp : List Char → Option (List Char)
  | [] => some []
  | c :: rest =>
    if c.toNat == 101 || c.toNat == 69 then
      match rest with
      | [] => none
      | s :: rest1 => if s.toNat == 43 || s.toNat == 45 then digits1 rest1 else digits1 (s :: rest1)
    else some (c :: rest)

def scanNumber (cs : List Char) : Option (List Char) :=
  let body := match cs with
    | [] => []
    | c :: rest => if c.toNat == 45 then rest else c :: rest
  match scanInt body with
  | none => none
  | some r1 =>
    match scanFrac r1 with
    | none => none
    | some r2 => scanExp r2

/-- `cs` starts with the characters `lit`: the rest. -/
def scanLiteral : List Char → List Char → Option (List Char)
  | [], cs => some cs
  | _ :: _, [] => none
  | l :: lit, c :: cs => if l == c then scanLiteral lit cs else none

/- ---------- values ---------- -/

mutual
  /-- One value at the head of the text (no leading white space): the rest, or `none`. -/
  def value : Nat → List Char → Option (List Char)
    | 0, _ => none
    | _ + 1, [] => none
    | fuel + 1, c :: rest =>
      if c.toNat == 34 then scanString rest
      else if c.toNat == 91 then
        match skipWs rest with
        | [] => none
        | d :: rest1 => if d.toNat == 93 then some rest1 else elements fuel (d :: rest1)
      else if c.toNat == 123 then
        match skipWs rest with
        | [] => none
        | d :: rest1 => if d.toNat == 125 then some rest1 else members fuel (d :: rest1)
      else if c.toNat == 116 then scanLiteral ['r', 'u', 'e'] rest
      else if c.toNat == 102 then scanLiteral ['a', 'l', 's', 'e'] rest
      else if c.toNat == 110 then scanLiteral ['u', 'l', 'l'] rest
      else if c.toNat == 45 || isDigit c then scanNumber (c :: rest)
      else none
  /-- `value ws *( "," ws value ws ) "]"`. -/
  def elements : Nat → List Char → Option (List Char)
    | 0, _ => none
    | fuel + 1, cs =>
      match value fuel cs with
      | none => none
      | some r =>
        match skipWs r with
        | [] => none
        | d :: rest => if d.toNat == 44 then elements fuel (skipWs rest) else if d.toNat == 93 then some rest else none
  /-- `member *( "," ws member ) "}"` with `member = string ws ":" ws value ws`. -/
  def members : Nat → List Char → Option (List Char)
    | 0, _ => none
    | _ + 1, [] => none
    | fuel + 1, q :: cs =>
      if q.toNat == 34 then
        match scanString cs with
        | none => none
        | some r =>
          match skipWs r with
          | [] => none
          | colon :: r1 =>
            if colon.toNat == 58 then
              match value fuel (skipWs r1) with
              | none => none
              | some r2 =>
                match skipWs r2 with
                | [] => none
                | d :: rest => if d.toNat == 44 then members fuel (skipWs rest) else if d.toNat == 125 then some rest else none
            else none
      else none
end

/-- `JSON-text = ws value ws`. -/
def accepts (cs : List Char) : Bool :=
  match value (2 * cs.length + 4) (skipWs cs) with
  | none => false
  | some rest => (skipWs rest).isEmpty

/-- What the parse `try` of the dispatcher makes of a body, as far as the text layer decides it. -/
inductive Verdict where
  /-- The parser returns a value. -/
  | wellFormed
  /-- An exception is raised: by the parser, or — for the empty body, which is not a JSON text either
      (`accepts [] = false`) — by the dispatcher's own `if not data: raise ValueError`. -/
  | malformed
deriving Repr, DecidableEq, Inhabited

def verdict (cs : List Char) : Verdict :=
  if accepts cs then .wellFormed else .malformed

end JRV.JsonText
