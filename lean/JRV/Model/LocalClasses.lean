/-
  JRV.Model.LocalClasses — jsonrpclib/config.py `LocalClasses` (a `dict` subclass with `add(cls, name=None)`):
  the local class table of a configuration (`Config.classes`) as a *program* builds it, by a sequence of
  registrations, re-registrations under the same name, direct stores and removals.

  The table is an association list in dict order (a store to an existing key keeps its position, a new key goes
  to the end); `List.lookup` on it is `classes[name]` (keys are unique: `setKey` never duplicates one).
  A class is represented by its class id (the key of the class environment of JRV.Model.JsonClass) together
  with its `__name__`, which `add` reads when no name is given.
-/
namespace JRV.LocalClasses

abbrev Table := List (String × String)

/-- `d[k] = v` -/
def setKey (k v : String) : Table → Table
  | [] => [(k, v)]
  | (k', v') :: r => if k' == k then (k', v) :: r else (k', v') :: setKey k v r

/-- `d.pop(k, None)` / `del d[k]` for a key that may be absent -/
def delKey (k : String) (t : Table) : Table := t.filter (fun e => !(e.1 == k))

inductive Op where
  /-- `classes.add(cls, name)`; `clsName` is `cls.__name__` -/
  | add (cls clsName : String) (name : Option String)
  /-- `classes[key] = cls` -/
  | set (key cls : String)
  /-- `classes.pop(key, None)` -/
  | del (key : String)
  /-- `classes.clear()` -/
  | clear
deriving Repr, DecidableEq

/-- `name or cls.__name__` -/
def keyOf (clsName : String) (name : Option String) : String :=
  match name with
  | some n => if n != "" then n else clsName
  | none => clsName

/-- One statement of the program.  `add` is `self[name or cls.__name__] = cls`: a plain store — the class given
    *replaces* whatever was registered under that name. -/
def step (t : Table) : Op → Table
  | .add c cn name => setKey (keyOf cn name) c t
  | .set k c => setKey k c t
  | .del k => delKey k t
  | .clear => []

def run (t : Table) (ops : List Op) : Table := ops.foldl step t

/- ---------- specification, independent of the representation ---------- -/

/-- What one statement does to the name `k`: `none` — nothing; `some none` — unbinds it; `some (some c)` — binds
    it to `c`. -/
def effect (k : String) : Op → Option (Option String)
  | .add c cn name => if keyOf cn name == k then some (some c) else none
  | .set k' c => if k' == k then some (some c) else none
  | .del k' => if k' == k then some none else none
  | .clear => some none

/-- The binding of `k` after the statements, given its binding before: the last statement that concerns `k`
    decides. -/
def lastBinding (k : String) (before : Option String) : List Op → Option String
  | [] => before
  | op :: ops => lastBinding k (match effect k op with | some b => b | none => before) ops

theorem lookup_setKey (k v a : String) (t : Table) :
    (setKey k v t).lookup a = if k == a then some v else t.lookup a := by
  induction t with
  | nil =>
    simp only [setKey, List.lookup]
    by_cases h : a = k
    · subst h; simp
    · have h1 : (a == k) = false := by simpa using h
      have h2 : (k == a) = false := by simpa using fun e : k = a => h e.symm
      simp [h1, h2]
  | cons e r ih =>
    obtain ⟨k', v'⟩ := e
    simp only [setKey]
    by_cases hk : k' = k
    · subst hk
      simp only [beq_self_eq_true, ↓reduceIte, List.lookup]
      by_cases h : a = k'
      · subst h; simp
      · have h1 : (a == k') = false := by simpa using h
        have h2 : (k' == a) = false := by simpa using fun e : k' = a => h e.symm
        simp [h1, h2]
    · have hk1 : (k' == k) = false := by simpa using hk
      simp only [hk1, Bool.false_eq_true, ↓reduceIte, List.lookup]
      by_cases h : a = k'
      · subst h
        have : (k == a) = false := by simpa using fun e : k = a => hk e.symm
        simp [this]
      · have h1 : (a == k') = false := by simpa using h
        simp only [h1, ih]

theorem lookup_delKey (k a : String) (t : Table) :
    (delKey k t).lookup a = if k == a then none else t.lookup a := by
  induction t with
  | nil => simp [delKey, List.lookup]
  | cons e r ih =>
    obtain ⟨k', v'⟩ := e
    unfold delKey at ih ⊢
    simp only [List.filter]
    by_cases hk : k' = k
    · subst hk
      simp only [beq_self_eq_true, Bool.not_true, List.lookup]
      by_cases h : a = k'
      · subst h; simpa using ih
      · have h1 : (a == k') = false := by simpa using h
        simp only [h1]; exact ih
    · have hk1 : (k' == k) = false := by simpa using hk
      simp only [hk1, Bool.not_false, List.lookup]
      by_cases h : a = k'
      · subst h
        have : (k == a) = false := by simpa using fun e : k = a => hk e.symm
        simp [this]
      · have h1 : (a == k') = false := by simpa using h
        simp only [h1]; exact ih

/-- One statement changes the binding of `k` exactly as its `effect` says. -/
theorem lookup_step (t : Table) (op : Op) (k : String) :
    (step t op).lookup k = (match effect k op with | some b => b | none => t.lookup k) := by
  cases op with
  | add c cn name =>
    simp only [step, effect, lookup_setKey]
    by_cases h : keyOf cn name = k <;> simp [h]
  | set k' c =>
    simp only [step, effect, lookup_setKey]
    by_cases h : k' = k <;> simp [h]
  | del k' =>
    simp only [step, effect, lookup_delKey]
    by_cases h : k' = k <;> simp [h]
  | clear => simp [step, effect]

/-- **The class table after a program**: each name resolves to what the last statement concerning it bound
    it to (`classes[name]` after any sequence of `add`, re-`add`, store, removal). -/
theorem lookup_run (ops : List Op) : ∀ (t : Table) (k : String),
    (run t ops).lookup k = lastBinding k (t.lookup k) ops := by
  induction ops with
  | nil => intro t k; rfl
  | cons op ops ih =>
    intro t k
    show (run (step t op) ops).lookup k = _
    rw [ih (step t op) k, lookup_step]
    rfl

/-- Statements that do not concern `k` leave its binding alone. -/
theorem lastBinding_untouched (k : String) (b : Option String) (ops : List Op)
    (h : ∀ op ∈ ops, effect k op = none) : lastBinding k b ops = b := by
  induction ops generalizing b with
  | nil => rfl
  | cons op ops ih =>
    have h1 : effect k op = none := h op (by simp)
    simp only [lastBinding, h1]
    exact ih b (fun o ho => h o (by simp [ho]))

theorem lastBinding_append (k : String) (b : Option String) (xs ys : List Op) :
    lastBinding k b (xs ++ ys) = lastBinding k (lastBinding k b xs) ys := by
  induction xs generalizing b with
  | nil => rfl
  | cons op xs ih => simp only [List.cons_append, lastBinding]; exact ih _

end JRV.LocalClasses
