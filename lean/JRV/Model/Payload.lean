/-
  JRV.Model.Payload — the message construction API of jsonrpclib/jsonrpc.py:
  `Config` (the fields the modelled code reads), `Payload.request/notify/response/error`,
  `dump`, `Fault.dump`, transcribed statement by statement.

  * Versions are carried in tenths (`10` = 1.0, `20` = 2.0, `11` = 1.1 …), which is exact for
    every comparison the code makes (`< 1.1`, `>= 2`) and for `str(version)` on one-decimal floats.
  * A freshly generated id (`str(uuid.uuid4())`) is the parameter `fresh`; uniqueness of uuid4 is
    an assumption recorded in the trusted base.
  * `jsonclass.dump(params, config=config)` is the parameter `conv : PyVal → PyM PyVal`, so the
    theorems hold for every converter (identity when `use_jsonclass` is off; the JsonClass model
    otherwise).
-/
import JRV.Model.Json
import JRV.Model.Backend

namespace JRV

/-- The configuration fields read by the modelled code (jsonrpclib/config.py). -/
structure Config where
  version : Nat := 20                 -- tenths
  contentType : String := "application/json-rpc"
  userAgent : String := "jsonrpclib"
  useJsonclass : Bool := true
  serializeMethod : String := "_serialize"
  ignoreAttribute : String := "_ignore"
  classes : List (String × String) := []     -- LocalClasses: name -> class identity
  handlers : List (String × Nat) := []       -- serialize_handlers: type tag -> handler identity
deriving Repr, DecidableEq, Inhabited

namespace Payload
open PyVal

/-- `str(float)` for a version in tenths: `20 ↦ "2.0"`. -/
def verStr (v : Nat) : String := toString (v / 10) ++ "." ++ toString (v % 10)

/-- A `version` argument as the API accepts it. -/
inductive VerArg where
  | none                 -- None (or any falsy value): use the configuration's version
  | num (tenths : Nat)   -- 1.0, 2.0, 2 …
  | str (tenths : Nat)   -- "1.0", "2.0": `float()` parses it
deriving Repr, DecidableEq

/-- `if not version: version = config.version` then `float(version)`. -/
def resolveVersion (cfg : Config) : VerArg → Nat
  | .none => cfg.version
  | .num t => if t == 0 then cfg.version else t
  | .str t => t

/-- `if self.id is None or self.id == "": self.id = str(uuid.uuid4())`. -/
def chooseId (rpcid : PyVal) (fresh : String) : PyVal :=
  match rpcid with
  | .none => .str fresh
  | .str s => if s == "" then .str fresh else .str s
  | v => v

/-- `Payload.request(method, params)`; `rpcid` is `self.id`, `fresh` the id `uuid4` would give. -/
def request (ver : Nat) (rpcid : PyVal) (fresh : String) (method : PyVal) (params : PyVal) : PyM PyVal :=
  if !method.isStr then raise "ValueError" (.str "Method name must be a string.")
  else
    let id := chooseId rpcid fresh
    let base : List (PyVal × PyVal) := [(.str "id", id), (.str "method", method)]
    -- `if params or self.version < 1.1: request["params"] = params or []`
    let withParams :=
      if params.truthy || ver < 11 then base ++ [(.str "params", if params.truthy then params else .list [])]
      else base
    -- `if self.version >= 2: request["jsonrpc"] = str(self.version)`
    let withVer := if ver ≥ 20 then withParams ++ [(.str "jsonrpc", .str (verStr ver))] else withParams
    pure (.dict withVer)

/-- `Payload.notify(method, params)`. -/
def notify (ver : Nat) (rpcid : PyVal) (fresh : String) (method : PyVal) (params : PyVal) : PyM PyVal := do
  let r ← request ver rpcid fresh method params
  match r with
  | .dict kvs =>
    if ver ≥ 20 then pure (.dict (delStr "id" kvs))
    else pure (.dict (setStr "id" .none kvs))
  | v => pure v

/-- `Payload.response(result)`. -/
def response (ver : Nat) (rpcid : PyVal) (result : PyVal) : PyVal :=
  let base : List (PyVal × PyVal) := [(.str "result", result), (.str "id", rpcid)]
  if ver ≥ 20 then .dict (base ++ [(.str "jsonrpc", .str (verStr ver))])
  else .dict (base ++ [(.str "error", .none)])

/-- `if data is not None: error["error"]["data"] = data`. -/
def dataEntry (data : PyVal) : List (PyVal × PyVal) :=
  match data with
  | .none => []
  | d => [(.str "data", d)]

/-- `Payload.error(code, message, data)`. -/
def error (ver : Nat) (rpcid : PyVal) (code message data : PyVal) : PyVal :=
  let errObj : List (PyVal × PyVal) :=
    [(.str "code", code), (.str "message", message)] ++ dataEntry data
  match response ver rpcid .none with
  | .dict kvs =>
    let kvs' := if ver ≥ 20 then delStr "result" kvs else setStr "result" .none kvs
    .dict (setStr "error" (.dict errObj) kvs')
  | v => v

/-- The `params` argument of `dump`: a Python value or a `Fault` instance. -/
inductive Params where
  | val (v : PyVal)
  | fault (code message data : PyVal)
deriving Repr

/-- `isinstance(params, (tuple, list, dict, Fault))` (+ `NoneType` for responses). -/
def validParams (isResponse : Bool) : Params → Bool
  | .fault _ _ _ => true
  | .val v => v.isList || v.isTuple || v.isDict || (isResponse && v == .none)

/-- `jsonrpclib.dump(params, methodname, rpcid, version, is_response, is_notify, config)`.
    `conv` stands for `jsonclass.dump(params, config=config)`. -/
def dump (cfg : Config) (conv : PyVal → PyM PyVal) (fresh : String)
    (params : Params) (methodname : PyVal) (rpcid : PyVal) (version : VerArg)
    (isResponse isNotify : Bool) : PyM PyVal := do
  let ver := resolveVersion cfg version
  -- `if not is_response and params is None: params = []`
  let params := match params with
    | .val .none => if !isResponse then Params.val (.list []) else params
    | p => p
  if methodname.isStr && !validParams isResponse params then
    raise "TypeError" (.str "Params must be a dict, list, tuple or Fault instance.")
  match params with
  | .fault code message data => pure (error ver rpcid code message data)
  | .val p =>
    if !methodname.isStr && !isResponse then
      raise "ValueError" (.str "Method name must be a string, or is_response must be set to True.")
    let p ← if cfg.useJsonclass then conv p else pure p
    if isResponse then
      match rpcid with
      | .none => raise "ValueError" (.str "A method response must have an rpcid.")
      | _ => pure (response ver rpcid p)
    else if isNotify then notify ver rpcid fresh methodname p
    else request ver rpcid fresh methodname p

/-- A `Fault` object: code, message, data and the id it was built with. -/
structure Fault where
  code : PyVal
  message : PyVal
  rpcid : PyVal := .none
  data : PyVal := .none
deriving Repr

/-- `Fault.dump()` with no forced id or version: `dump(self, is_response=True, rpcid=self.rpcid,
    version=self.config.version, config=self.config)`. -/
def faultDump (cfg : Config) (f : Fault) : PyVal :=
  error cfg.version f.rpcid f.code f.message f.data

/-- `Fault.response()`: the same dictionary rendered by the JSON backend. -/
def faultResponse (B : Backend) (cfg : Config) (f : Fault) : PyM String :=
  B.render (faultDump cfg f)

/-- `Fault.dump(rpcid=…, version=…)` / the dictionary part of `Fault.response(rpcid=…, version=…)`:

        if not version: version = self.config.version
        if rpcid: self.rpcid = rpcid                       # a falsy forced id (None, 0, 0.0, "", False, [], {}) is IGNORED
        return dump(self, is_response=True, rpcid=self.rpcid, version=version, config=self.config)

    Returns the dictionary and the Fault as it is afterwards (the forced id is stored on the object: a later
    `dump()` without arguments uses it too). -/
def faultDumpWith (cfg : Config) (f : Fault) (rpcid : PyVal) (version : VerArg) : PyVal × Fault :=
  let f' : Fault := match rpcid with | .none => f | r => { f with rpcid := r }
  (error (resolveVersion cfg version) f'.rpcid f'.code f'.message f'.data, f')

/-- `Fault.response(rpcid=…, version=…)`: the same dictionary rendered by the JSON backend. -/
def faultResponseWith (B : Backend) (cfg : Config) (f : Fault) (rpcid : PyVal) (version : VerArg) : PyM String × Fault :=
  let (d, f') := faultDumpWith cfg f rpcid version
  (B.render d, f')

/-- `jsonrpclib.dumps(...)`: `dump` then `jdumps`. -/
def dumps (B : Backend) (cfg : Config) (conv : PyVal → PyM PyVal) (fresh : String)
    (params : Params) (methodname : PyVal) (rpcid : PyVal) (version : VerArg)
    (isResponse isNotify : Bool) : PyM String := do
  let d ← dump cfg conv fresh params methodname rpcid version isResponse isNotify
  B.render d

/-- `jsonrpclib.load(data, config)`; `unconv` stands for `jsonclass.load(data, config.classes)`. -/
def load (cfg : Config) (unconv : PyVal → PyM PyVal) (data : PyVal) : PyM PyVal :=
  match data with
  | .none => pure .none
  | d => if cfg.useJsonclass then unconv d else pure d

/-- `jsonrpclib.loads(text, config)`: `""` is a notification reply (`None`), a text the backend
    rejects raises (ValueError for the standard backend). -/
def loads (B : Backend) (cfg : Config) (unconv : PyVal → PyM PyVal) (text : String) : PyM PyVal :=
  if text == "" then pure .none
  else match B.parse text with
    | some v => load cfg unconv v
    | Option.none => raise "ValueError" (.str "JSON decoding error")

end Payload
end JRV
