/-
  JRV.Model.Pool — `jsonrpclib.threadpool.ThreadPool` as an executable labelled transition system
  (DESIGN.md 3.6, C09–C11, Appendix C — updated for the repaired code: retirement on the pending
  count with exact accounting, `join` without the empty-queue shortcut).

  Granularity: one step per synchronisation operation, exactly the yield points of
  `harness/sched.py`; the plain statements that follow an operation (up to the next one) are executed
  in the step of that operation.  The step table (operation labels of the shim in brackets):

  start            [event.is_set] (not set → return) · [event.clear] · [queue.qsize] k := clamp(qsize, min, max)
                   · k × __start_thread
  __start_thread   [lock.acquire] (nb_threads ≥ max → [lock.release], False) · [event.is_set] (set → nothing;
                   else nb_threads += 1, Thread.start, _threads.append) · [lock.release]
  enqueue          [lock.acquire] · [queue.put] (Full on time-out → [lock.release], raise) pending += 1;
                   pending > nb_threads → __start_thread (re-entrant) · [lock.release]
  worker loop      [event.is_set] (set → exit) · [queue.get] (time-out → retirement test; sentinel →
                   [queue.task_done], exit) · [lock.acquire] active += 1 [lock.release] · [task.begin] ·
                   [task.end] (environment: returns / raises) · [fut.set] · [queue.task_done] ·
                   [lock.acquire] pending −= 1; active −= 1 [lock.release] ·
                   [lock.acquire] nb_threads > min ∧ nb_threads > pending → nb_threads −= 1; cleaned;
                   [lock.release]; exit — else [lock.release]; loop
  worker exit      [lock.acquire] _threads.remove(self); not cleaned → nb_threads −= 1 · [lock.release]
  stop             [event.is_set] (set → return) · [event.set] · [lock.acquire] · per listed thread
                   [queue.put] sentinel (Full → stop putting) · copy list · [lock.release] · per copied thread:
                   [thread.is_alive] (while) → [thread.join] → [thread.is_alive] (if) → … ·
                   `del _threads[:]` (unlocked, with the last of these) · clear
  clear            [lock.acquire] · ([queue.get_nowait] · [queue.task_done]; task → pending −= 1)* ·
                   [queue.join] · [lock.release]
  join()           [queue.join] → True
  join(t)          [cond.acquire] (unfinished = 0 → True) · [cond.wait] → unfinished = 0
  result(t)        [fut.wait]
  done()           [fut.is_set] → the future's flag

  The queue's own mutex is a leaf lock (no operation inside its critical sections), so queue operations —
  and the `with all_tasks_done:` block of `join(t)` up to its `wait` — are atomic steps.
  Time is abstracted: a time-out branch (`timeout := true`) may be taken at any moment (a superset of
  "expiry at quiescence"), so every theorem holds for every timing — a zero time-out (`join(0)`, `result(0)`) is the
  time-out branch taken at once.  The pool's own timed `queue.put` / `queue.get` have a time-out branch only when the
  constructor was given a finite `timeout` (`cfg.timeoutNone = false`).
  `__start_thread`: `Thread.start()` may raise (environment, `cfg.startMayFail`): the `except (RuntimeError, OSError)` arm
  undoes `nb_threads += 1` and returns False — the failure branch of the `event.is_set` step changes nothing but the
  caller's program counter.
  Counter decrements that would underflow and `task_done` on a zero count make the step undefined (`none`):
  the model declines, it never truncates silently.
-/
namespace JRV.Pool

inductive Item where
  | task (id : Nat)
  | sentinel
  deriving DecidableEq, Repr

inductive Phase where
  | created | queued | held | running | finished | dropped
  deriving DecidableEq, Repr

inductive Outcome where
  | ok | exc
  deriving DecidableEq, Repr

structure Task where
  phase : Phase := .created
  execCount : Nat := 0
  outcome : Option Outcome := none
  futDone : Bool := false
  futVal : Option Outcome := none
  creator : Nat := 0            -- ghost: the client whose enqueue call created the task
  owner : Option Nat := none    -- ghost: the worker that took the task from the queue
  deriving DecidableEq, Repr

inductive WPc where
  | loopHead | get | sentDone | actAcq | actRel | begin | body | futSet | taskDone
  | finAcq | finRel | retAcq | retRel | retRelExit | exitAcq | exitRel | dead
  deriving DecidableEq, Repr

structure Worker where
  pc : WPc := .loopHead
  held : Option Nat := none
  res : Option Outcome := none
  cleaned : Bool := false
  deriving DecidableEq, Repr

inductive Ret where
  | none | unit | bool (b : Bool) | fut | full | ok | exc | timeout
  deriving DecidableEq, Repr

inductive CPc where
  | idle
  | startIsSet | startClear | startQsize
  | stAcq (k : Nat) | stIsSet (k : Nat) | stRel (k : Nat)
  | enqAcq (t : Nat) | enqPut (t : Nat) | enqStAcq | enqStIsSet | enqStRel | enqRel | enqRelFail
  | stopIsSet | stopSet | stopAcq | stopPut (n : Nat)
  | stopRel (copy : List Nat) | stopAlive (copy : List Nat) | stopJoin (copy : List Nat) | stopAlive2 (copy : List Nat)
  | clrAcq | clrGet | clrDone (it : Item) | clrJoin | clrRel
  | joinQ
  | jtAcq | jtWait (notified : Bool)
  | futWait (t : Nat)
  | futPoll (t : Nat)
  deriving DecidableEq, Repr

structure Client where
  pc : CPc := .idle
  ret : Ret := .none
  deriving DecidableEq, Repr

inductive Tid where
  | client (i : Nat)
  | worker (i : Nat)
  deriving DecidableEq, Repr

structure Config where
  max : Nat
  min : Nat
  qbound : Nat            -- 0 = unbounded
  singleCtl : Bool := true -- start/stop/clear are issued by client 0 only ("the controlling thread")
  /-- Environment: `Thread.start()` may raise (RuntimeError "can't start new thread" / OSError).  `false` is the
      explicit assumption "thread creation never fails" under which the growth / floor / liveness theorems are stated. -/
  startMayFail : Bool := false
  /-- The pool was constructed with `timeout=None` (the constructor does not validate it): the pool's own timed
      `queue.put` / `queue.get` then block for ever — their time-out branches do not exist.  `false` = a finite time-out
      (the default 60 s): the explicit assumption of the `stop()` termination theorems. -/
  timeoutNone : Bool := false
  deriving DecidableEq, Repr

structure State where
  cfg : Config
  stop : Bool
  lockOwner : Option Tid
  lockDepth : Nat
  queue : List Item
  unfinished : Nat
  nbThreads : Nat
  nbActive : Nat
  nbPending : Nat
  threads : List Nat
  workers : List Worker
  tasks : List Task
  clients : List Client
  deriving Repr

inductive Op where
  | callStart | callStop | callClear | callJoin | callJoinT | callEnqueue | callWait (t : Nat)
  | eventIsSet | eventSet | eventClear | lockAcquire | lockRelease
  | queueQsize | queuePut | queueGet | queueGetNowait | queueTaskDone | queueJoin
  | threadIsAlive | threadJoin | condAcquire | condWait | futWait | futSet | taskBegin | taskEnd (o : Outcome)
  | callDone (t : Nat) | futIsSet
  deriving DecidableEq, Repr

structure Action where
  who : Tid
  op : Op
  /-- The environment's alternative branch of the operation: the time-out of a timed wait (`queue.put/get`,
      `thread.join`, `cond.wait`, `fut.wait`) — or, on the `event.is_set` of `__start_thread`, "the flag is clear and
      the `Thread.start()` that follows raises" (only when `cfg.startMayFail`). -/
  timeout : Bool := false
  deriving DecidableEq, Repr

def init (cfg : Config) (nclients : Nat) : State :=
  { cfg := cfg, stop := true, lockOwner := none, lockDepth := 0, queue := [], unfinished := 0,
    nbThreads := 0, nbActive := 0, nbPending := 0, threads := [], workers := [], tasks := [],
    clients := List.replicate nclients {} }

/-! ### helpers (guards are separate from the total state updates, so every step reads `if guard then some update else none`) -/

/-- `RLock.acquire` is enabled when the lock is free or already owned by the caller. -/
def canAcquire (s : State) (me : Tid) : Bool := s.lockOwner == none || s.lockOwner == some me

def acq (s : State) (me : Tid) : State :=
  { s with lockOwner := some me, lockDepth := if s.lockOwner == some me then s.lockDepth + 1 else 1 }

def canRelease (s : State) (me : Tid) : Bool := s.lockOwner == some me && s.lockDepth != 0

def rel (s : State) : State :=
  { s with lockOwner := if s.lockDepth ≤ 1 then none else s.lockOwner, lockDepth := s.lockDepth - 1 }

def setWorker (s : State) (i : Nat) (w : Worker) : State := { s with workers := s.workers.set i w }
def setClient (s : State) (i : Nat) (c : Client) : State := { s with clients := s.clients.set i c }
/-- Update of task `t` (callers guard `t < s.tasks.length`). -/
def updTask (s : State) (t : Nat) (f : Task → Task) : State := { s with tasks := s.tasks.modify t f }

def notifyClient (c : Client) : Client :=
  match c.pc with
  | .jtWait _ => { c with pc := .jtWait true }
  | _ => c

/-- `Queue.task_done` (callers guard `unfinished ≠ 0`: CPython raises otherwise); reaching zero notifies the
    waiters of `all_tasks_done`. -/
def notifyIf (b : Bool) (c : Client) : Client := if b then notifyClient c else c

def tdone (s : State) : State :=
  { s with unfinished := s.unfinished - 1, clients := s.clients.map (notifyIf (s.unfinished == 1)) }

def isFull (s : State) : Bool := s.cfg.qbound != 0 && s.queue.length ≥ s.cfg.qbound

def put (s : State) (it : Item) : State := { s with queue := s.queue ++ [it], unfinished := s.unfinished + 1 }

def clamp (q lo hi : Nat) : Nat := if q > hi then hi else if q < lo then lo else q

def workerAlive (s : State) (i : Nat) : Bool :=
  match s.workers[i]? with
  | some w => w.pc != .dead
  | none => false

/-- The body of `__start_thread` after its two tests: count, start and list a new worker. -/
def spawnWorker (s : State) : State :=
  { s with nbThreads := s.nbThreads + 1, threads := s.threads ++ [s.workers.length], workers := s.workers ++ [{}] }

/-- The retirement test of the worker loop. -/
def retires (s : State) : Bool := s.nbThreads > s.cfg.min && s.nbThreads > s.nbPending

/-! ### worker steps -/

def workerStep (s : State) (i : Nat) (w : Worker) (op : Op) (tmo : Bool) : Option State :=
  match w.pc, op, tmo with
  | .loopHead, .eventIsSet, false =>
    some (setWorker s i { w with pc := if s.stop then .exitAcq else .get })
  | .get, .queueGet, false =>
    match s.queue with
    | [] => none
    | .sentinel :: rest => some (setWorker { s with queue := rest } i { w with pc := .sentDone })
    | .task t :: rest =>
      if t < s.tasks.length then
        some (setWorker (updTask { s with queue := rest } t (fun x => { x with phase := .held, owner := some i }))
          i { w with pc := .actAcq, held := some t })
      else none
  | .get, .queueGet, true =>
    -- `queue.Empty` after `self._timeout` seconds: exists only when the time-out is finite
    if s.cfg.timeoutNone = false then some (setWorker s i { w with pc := .retAcq }) else none
  | .sentDone, .queueTaskDone, false =>
    if s.unfinished ≠ 0 then some (setWorker (tdone s) i { w with pc := .exitAcq }) else none
  | .actAcq, .lockAcquire, false =>
    if canAcquire s (.worker i) then
      some (setWorker { acq s (.worker i) with nbActive := s.nbActive + 1 } i { w with pc := .actRel })
    else none
  | .actRel, .lockRelease, false =>
    if canRelease s (.worker i) then some (setWorker (rel s) i { w with pc := .begin }) else none
  | .begin, .taskBegin, false =>
    match w.held with
    | some t =>
      if t < s.tasks.length then
        some (setWorker (updTask s t (fun x => { x with phase := .running, execCount := x.execCount + 1 }))
          i { w with pc := .body })
      else none
    | none => none
  | .body, .taskEnd o, false =>
    match w.held with
    | some t =>
      if t < s.tasks.length then
        some (setWorker (updTask s t (fun x => { x with phase := .finished, outcome := some o }))
          i { w with pc := .futSet, res := some o })
      else none
    | none => none
  | .futSet, .futSet, false =>
    match w.held with
    | some t =>
      if t < s.tasks.length then
        some (setWorker (updTask s t (fun x => { x with futDone := true, futVal := w.res })) i { w with pc := .taskDone })
      else none
    | none => none
  | .taskDone, .queueTaskDone, false =>
    if s.unfinished ≠ 0 then some (setWorker (tdone s) i { w with pc := .finAcq }) else none
  | .finAcq, .lockAcquire, false =>
    if canAcquire s (.worker i) ∧ s.nbPending ≠ 0 ∧ s.nbActive ≠ 0 then
      some (setWorker { acq s (.worker i) with nbPending := s.nbPending - 1, nbActive := s.nbActive - 1 }
        i { w with pc := .finRel, held := none })
    else none
  | .finRel, .lockRelease, false =>
    if canRelease s (.worker i) then some (setWorker (rel s) i { w with pc := .retAcq }) else none
  | .retAcq, .lockAcquire, false =>
    if canAcquire s (.worker i) then
      if retires s then
        some (setWorker { acq s (.worker i) with nbThreads := s.nbThreads - 1 } i { w with pc := .retRelExit, cleaned := true })
      else
        some (setWorker (acq s (.worker i)) i { w with pc := .retRel })
    else none
  | .retRel, .lockRelease, false =>
    if canRelease s (.worker i) then some (setWorker (rel s) i { w with pc := .loopHead }) else none
  | .retRelExit, .lockRelease, false =>
    if canRelease s (.worker i) then some (setWorker (rel s) i { w with pc := .exitAcq }) else none
  | .exitAcq, .lockAcquire, false =>
    if canAcquire s (.worker i) then
      if w.cleaned then
        some (setWorker { acq s (.worker i) with threads := s.threads.erase i } i { w with pc := .exitRel })
      else if s.nbThreads ≠ 0 then
        some (setWorker { acq s (.worker i) with threads := s.threads.erase i, nbThreads := s.nbThreads - 1 }
          i { w with pc := .exitRel })
      else none
    else none
  | .exitRel, .lockRelease, false =>
    if canRelease s (.worker i) then some (setWorker (rel s) i { w with pc := .dead }) else none
  | _, _, _ => none

/-! ### client steps -/

def retOfFuture (t : Task) : Ret :=
  match t.futVal with
  | some .exc => .exc
  | _ => .ok

/-- `start`/`stop`/`clear` may be called by client `i`. -/
def isCtl (s : State) (i : Nat) : Bool := !s.cfg.singleCtl || i == 0

def futReady (s : State) (t : Nat) : Bool :=
  match s.tasks[t]? with
  | some tk => tk.futDone
  | none => false

def futRet (s : State) (t : Nat) : Ret :=
  match s.tasks[t]? with
  | some tk => retOfFuture tk
  | none => .none

def waitable (s : State) (t : Nat) : Bool :=
  match s.tasks[t]? with
  | some tk => tk.phase != .created
  | none => false

def clientStep (s : State) (i : Nat) (c : Client) (op : Op) (tmo : Bool) : Option State :=
  let me := Tid.client i
  match c.pc, op, tmo with
  -- the environment: a client begins an API call
  | .idle, .callStart, false => if isCtl s i then some (setClient s i { pc := .startIsSet, ret := .none }) else none
  | .idle, .callStop, false => if isCtl s i then some (setClient s i { pc := .stopIsSet, ret := .none }) else none
  | .idle, .callClear, false => if isCtl s i then some (setClient s i { pc := .clrAcq, ret := .none }) else none
  | .idle, .callJoin, false => some (setClient s i { pc := .joinQ, ret := .none })
  | .idle, .callJoinT, false => some (setClient s i { pc := .jtAcq, ret := .none })
  | .idle, .callEnqueue, false =>
    some (setClient { s with tasks := s.tasks ++ [{ creator := i }] } i { pc := .enqAcq s.tasks.length, ret := .none })
  | .idle, .callWait t, false =>
    if waitable s t then some (setClient s i { pc := .futWait t, ret := .none }) else none
  | .idle, .callDone t, false =>
    if waitable s t then some (setClient s i { pc := .futPoll t, ret := .none }) else none
  -- start
  | .startIsSet, .eventIsSet, false =>
    some (setClient s i (if s.stop then { c with pc := .startClear } else { pc := .idle, ret := .unit }))
  | .startClear, .eventClear, false => some (setClient { s with stop := false } i { c with pc := .startQsize })
  | .startQsize, .queueQsize, false =>
    some (setClient s i (if clamp s.queue.length s.cfg.min s.cfg.max = 0 then { pc := .idle, ret := .unit }
                         else { c with pc := .stAcq (clamp s.queue.length s.cfg.min s.cfg.max) }))
  | .stAcq k, .lockAcquire, false =>
    if canAcquire s me then
      some (setClient (acq s me) i { c with pc := if s.nbThreads ≥ s.cfg.max then .stRel k else .stIsSet k })
    else none
  | .stIsSet k, .eventIsSet, false =>
    some (setClient (if s.stop then s else spawnWorker s) i { c with pc := .stRel k })
  | .stIsSet k, .eventIsSet, true =>
    -- environment: the flag is clear and `Thread.start()` raises — `nb_threads += 1` is undone by the `except` arm
    -- (`nb_threads -= 1; return False`, fact `poolStartRollback`), the thread is not listed: nothing changes
    if s.cfg.startMayFail = true ∧ s.stop = false then some (setClient s i { c with pc := .stRel k }) else none
  | .stRel k, .lockRelease, false =>
    if canRelease s me then
      some (setClient (rel s) i (if k ≤ 1 then { pc := .idle, ret := .unit } else { c with pc := .stAcq (k - 1) }))
    else none
  -- enqueue
  | .enqAcq t, .lockAcquire, false =>
    if canAcquire s me then some (setClient (acq s me) i { c with pc := .enqPut t }) else none
  | .enqPut t, .queuePut, false =>
    if !isFull s ∧ t < s.tasks.length then
      some (setClient { updTask (put s (.task t)) t (fun x => { x with phase := .queued }) with nbPending := s.nbPending + 1 }
        i { c with pc := if s.nbPending + 1 > s.nbThreads then .enqStAcq else .enqRel })
    else none
  | .enqPut _, .queuePut, true =>
    if s.cfg.timeoutNone = false then some (setClient s i { c with pc := .enqRelFail }) else none
  | .enqStAcq, .lockAcquire, false =>
    if canAcquire s me then
      some (setClient (acq s me) i { c with pc := if s.nbThreads ≥ s.cfg.max then .enqStRel else .enqStIsSet })
    else none
  | .enqStIsSet, .eventIsSet, false =>
    some (setClient (if s.stop then s else spawnWorker s) i { c with pc := .enqStRel })
  | .enqStIsSet, .eventIsSet, true =>
    if s.cfg.startMayFail = true ∧ s.stop = false then some (setClient s i { c with pc := .enqStRel }) else none
  | .enqStRel, .lockRelease, false =>
    if canRelease s me then some (setClient (rel s) i { c with pc := .enqRel }) else none
  | .enqRel, .lockRelease, false =>
    if canRelease s me then some (setClient (rel s) i { pc := .idle, ret := .fut }) else none
  | .enqRelFail, .lockRelease, false =>
    if canRelease s me then some (setClient (rel s) i { pc := .idle, ret := .full }) else none
  -- stop
  | .stopIsSet, .eventIsSet, false =>
    some (setClient s i (if s.stop then { pc := .idle, ret := .unit } else { c with pc := .stopSet }))
  | .stopSet, .eventSet, false => some (setClient { s with stop := true } i { c with pc := .stopAcq })
  | .stopAcq, .lockAcquire, false =>
    if canAcquire s me then
      some (setClient (acq s me) i { c with pc := if s.threads.length = 0 then .stopRel [] else .stopPut s.threads.length })
    else none
  | .stopPut n, .queuePut, false =>
    if !isFull s then
      some (setClient (put s .sentinel) i { c with pc := if n ≤ 1 then .stopRel s.threads else .stopPut (n - 1) })
    else none
  | .stopPut _, .queuePut, true =>
    if s.cfg.timeoutNone = false then some (setClient s i { c with pc := .stopRel s.threads }) else none
  | .stopRel [], .lockRelease, false =>
    if canRelease s me then some (setClient { rel s with threads := [] } i { c with pc := .clrAcq }) else none
  | .stopRel (w :: rest), .lockRelease, false =>
    if canRelease s me then some (setClient (rel s) i { c with pc := .stopAlive (w :: rest) }) else none
  | .stopAlive [w], .threadIsAlive, false =>
    if workerAlive s w then some (setClient s i { c with pc := .stopJoin [w] })
    else some (setClient { s with threads := [] } i { c with pc := .clrAcq })
  | .stopAlive (w :: w' :: rest), .threadIsAlive, false =>
    some (setClient s i { c with pc := if workerAlive s w then .stopJoin (w :: w' :: rest) else .stopAlive (w' :: rest) })
  | .stopJoin (w :: rest), .threadJoin, false =>
    if !workerAlive s w then some (setClient s i { c with pc := .stopAlive2 (w :: rest) }) else none
  | .stopJoin (w :: rest), .threadJoin, true => some (setClient s i { c with pc := .stopAlive2 (w :: rest) })
  | .stopAlive2 copy, .threadIsAlive, false => some (setClient s i { c with pc := .stopAlive copy })
  -- clear
  | .clrAcq, .lockAcquire, false =>
    if canAcquire s me then some (setClient (acq s me) i { c with pc := .clrGet }) else none
  | .clrGet, .queueGetNowait, false =>
    match s.queue with
    | [] => some (setClient s i { c with pc := .clrJoin })
    | .sentinel :: rest => some (setClient { s with queue := rest } i { c with pc := .clrDone .sentinel })
    | .task t :: rest =>
      if t < s.tasks.length then
        some (setClient (updTask { s with queue := rest } t (fun x => { x with phase := .dropped })) i { c with pc := .clrDone (.task t) })
      else none
  | .clrDone .sentinel, .queueTaskDone, false =>
    if s.unfinished ≠ 0 then some (setClient (tdone s) i { c with pc := .clrGet }) else none
  | .clrDone (.task _), .queueTaskDone, false =>
    if s.unfinished ≠ 0 ∧ s.nbPending ≠ 0 then
      some (setClient { tdone s with nbPending := s.nbPending - 1 } i { c with pc := .clrGet })
    else none
  | .clrJoin, .queueJoin, false => if s.unfinished = 0 then some (setClient s i { c with pc := .clrRel }) else none
  | .clrRel, .lockRelease, false =>
    if canRelease s me then some (setClient (rel s) i { pc := .idle, ret := .unit }) else none
  -- join() / join(t)
  | .joinQ, .queueJoin, false => if s.unfinished = 0 then some (setClient s i { pc := .idle, ret := .bool true }) else none
  | .jtAcq, .condAcquire, false =>
    some (setClient s i (if s.unfinished = 0 then { pc := .idle, ret := .bool true } else { c with pc := .jtWait false }))
  | .jtWait n, .condWait, false =>
    if n then some (setClient s i { pc := .idle, ret := .bool (s.unfinished == 0) }) else none
  | .jtWait _, .condWait, true => some (setClient s i { pc := .idle, ret := .bool (s.unfinished == 0) })
  -- FutureResult.result(t)
  | .futWait t, .futWait, false =>
    if futReady s t then some (setClient s i { pc := .idle, ret := futRet s t }) else none
  | .futWait _, .futWait, true => some (setClient s i { pc := .idle, ret := .timeout })
  -- FutureResult.done(): one read of the future's event flag, never blocks
  | .futPoll t, .futIsSet, false => some (setClient s i { pc := .idle, ret := .bool (futReady s t) })
  | _, _, _ => none

/-- The transition function. -/
def step? (s : State) (a : Action) : Option State :=
  match a.who with
  | .worker i =>
    match s.workers[i]? with
    | some w => workerStep s i w a.op a.timeout
    | none => none
  | .client i =>
    match s.clients[i]? with
    | some c => clientStep s i c a.op a.timeout
    | none => none

/-- Inductive reachability: any number of steps, any interleaving, any client behaviour. -/
inductive Reach (s0 : State) : State → Prop where
  | refl : Reach s0 s0
  | step {s s' : State} (a : Action) : Reach s0 s → step? s a = some s' → Reach s0 s'

def run (s : State) : List Action → Option State
  | [] => some s
  | a :: rest => match step? s a with
    | some s' => run s' rest
    | none => none

/-! ### constructor argument handling (`ThreadPool.__init__`) over a small model of `int()` -/

inductive Arg where
  | int (i : Int)
  | float (trunc : Int)        -- a finite float, given by its truncation toward zero (what `int()` returns)
  | floatInf (neg : Bool)      -- `float('inf')` / `float('-inf')` (also what the literal `1e400` is): `int()` raises OverflowError
  | floatNan                   -- `float('nan')`: `int()` raises ValueError
  | str (parsed : Option Int)  -- a string, given by whether `int()` accepts it and with which value
  | none
  | other                      -- any object without `__int__`/`__index__`/`__trunc__` (list, dict, …)
  deriving DecidableEq, Repr

inductive IntErr where
  | typeError | valueError | overflowError
  deriving DecidableEq, Repr

def pyInt : Arg → Except IntErr Int
  | .int i => .ok i
  | .float t => .ok t
  | .floatInf _ => .error .overflowError
  | .floatNan => .error .valueError
  | .str (some i) => .ok i
  | .str none => .error .valueError
  | .none => .error .typeError
  | .other => .error .typeError

/-- `ThreadPool(max_threads, min_threads, queue_size)`: `error` stands for `ValueError`.  Every error of `int()`
    (TypeError, ValueError, OverflowError — fact `poolCtorCatches`) is caught: turned into `ValueError` for the two sizes,
    into "unbounded" for the queue size. -/
def mkPool? (mx mn qs : Arg) : Except String Config :=
  match pyInt mx with
  | .error _ => .error "ValueError"
  | .ok m =>
    if m < 1 then .error "ValueError"
    else match pyInt mn with
      | .error _ => .error "ValueError"
      | .ok n =>
        let n' : Int := if n < 0 then 0 else if n > m then m else n
        let q : Int := match pyInt qs with
          | .ok q => q
          | .error _ => 0
        .ok { max := m.toNat, min := n'.toNat, qbound := if q ≤ 0 then 0 else q.toNat }

/-! ### the source-level rules the steps above encode (compared with the extracted facts in the property files) -/

/-- Accesses to the shared counters / `_threads` outside `with self.__lock`: `del self._threads[:]` in `stop`
    (the `threads := []` of the `stopRel` / `stopAlive` steps, executed without the lock). -/
def unlockedAccessesSpec : List (String × String × String) := [("stop", "threads", "del")]
/-- Stores to the pending counter: `enqPut` (+1), `clrDone` on a task (−1), `finAcq` (−1); none in `start`. -/
def pendingStoresSpec : List (String × String) := [("clear", "Sub"), ("enqueue", "Add"), ("run", "Sub")]
/-- `enqPut`: `nbPending > nbThreads` leads to `enqStAcq`. -/
def growthRuleSpec : String × String × String := ("Gt", "nb_pending_task", "nb_threads")
/-- `stAcq` / `enqStAcq`: `nbThreads ≥ max` refuses. -/
def spawnRefusalSpec : String × String × String := ("GtE", "nb_threads", "max_threads")
/-- `retAcq`: `nbThreads > min ∧ nbThreads > nbPending`. -/
def retireRuleSpec : List (String × String × String) :=
  [("Gt", "nb_threads", "min_threads"), ("Gt", "nb_threads", "nb_pending_task")]
/-- `joinQ` / `jtAcq` / `jtWait`: no empty-queue shortcut; `join()` = `Queue.join()` then `True`; the timed wait is
    entered only when `unfinished ≠ 0`; `join(t)` returns `unfinished = 0`. -/
def joinShapeSpec : Bool × Bool × Bool × Bool := (true, true, true, true)
/-- `clrDone`: the pending counter is decremented for tasks only. -/
def clearDecrementsTasksOnlySpec : Bool := true
/-- `ThreadPool.__init__` defaults (min_threads, queue_size, timeout). -/
def ctorDefaultsSpec : Nat × Nat × Nat := (1, 0, 60)
/-- Each of the three `try` blocks around `int(...)` in `__init__` (max_threads, min_threads, queue_size)
    catches TypeError, ValueError and OverflowError (sorted names, one list per block, in source order). -/
def ctorCatchesSpec : List (List String) :=
  [["OverflowError", "TypeError", "ValueError"], ["OverflowError", "TypeError", "ValueError"],
   ["OverflowError", "TypeError", "ValueError"]]
/-- The failure branch of `__start_thread` (`stIsSet` / `enqStIsSet` with the failure flag): `(increment, rollback,
    listed)` — `nb_threads += 1` sits inside the `try` before `thread.start()`, the handler of `(RuntimeError, OSError)`
    executes `nb_threads -= 1` and returns False, `_threads.append` comes after `start()` (a thread that failed to start
    is not listed). -/
def startRollbackSpec : Bool × Bool × Bool := (true, true, true)
/-- `__run`: the `except Exception` handler around `future.execute` logs the failing task without reading an attribute
    the task may lack (`getattr(method, "__name__", …)`, never `method.__name__`): the handler cannot raise, the worker
    goes on to `task_done` and its accounting (`futSet → taskDone → finAcq`) whatever the task object is. -/
def runHandlerSafeSpec : Bool := true
/-- `EventData.set` / `EventData.raise_exception` (the two calls `FutureResult.execute` makes at the end of a task):
    `(method, fields stored before the event's flag is raised, what is executed after it)`.  Both fields are in place
    when the flag goes up and nothing follows: the `fut.set` step may therefore raise `futDone` and publish `futVal`
    at once, and a client that reads the future at ANY moment after the flag (the harness schedules one between the
    flag and the return of `Event.set()`: `fut.published`) finds what `task.end` chose. -/
def futurePublishesLastSpec : List (String × List String × List String) :=
  [("set", ["__data", "__exception"], []), ("raise_exception", ["__data", "__exception"], [])]
/-- `enqPut` / `stopPut`: every put into the task queue is a BLOCKING put (the step is enabled only while the queue is not
    full) that gives up after the pool's `timeout` (the `timeout := true` branch, present when `cfg.timeoutNone = false`):
    `(method, blocking, timed by self._timeout)`.  A non-blocking put in `stop()` would raise Full at once on a bounded
    queue and leave idle workers without a stop marker. -/
def queuePutsSpec : List (String × Bool × Bool) := [("enqueue", true, true), ("stop", true, true)]
/-- A task is an opaque identity in this model: `task.begin` runs "the task that was enqueued", which stands for the call
    `method(*args, **kwargs)` with the very objects `enqueue(method, *args, **kwargs)` was given.  That reading is exact
    when `(enqueue has no named parameter besides `method`, it queues `(method, args, kwargs, future)` with both argument
    containers untouched, the worker hands exactly these three to `future.execute`, `execute` calls
    `method(*args, **kwargs)`)`. -/
def taskArgsForwardedSpec : Bool × Bool × Bool × Bool := (true, true, true, true)

end JRV.Pool
