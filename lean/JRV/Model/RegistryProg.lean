/-
  JRV.Model.RegistryProg — the dispatcher's registry as a MUTABLE object over a history.

  `SimpleXMLRPCDispatcher` keeps two fields the look-up of `SimpleJSONRPCDispatcher._dispatch` reads:

      self.funcs      a dict  name -> callable      register_function(f, name) / register_function(name=…)(f):
                                                      `self.funcs[name] = function`
                                                    register_introspection_functions():
                                                      `self.funcs.update({'system.listMethods': self.system_listMethods,
                                                                          'system.methodSignature': …, 'system.methodHelp': …})`
                                                    `del server.funcs[name]` (the dict is a public attribute)
      self.instance   an object or None             register_instance(obj[, allow_dotted_names]): `self.instance = instance`
                                                    (jsonrpclib's `_dispatch` resolves dotted names whatever the flag says:
                                                    `resolve_dotted_attribute(self.instance, method, True)`)

  and the registered instance is an ordinary Python object the program may go on changing (`a.echo = other`,
  `a.sub = Node()`, `del a.sub.echo`), registered or not at that moment, and register again later.

  A program is a sequence of such operations interleaved with requests.  The model keeps the two fields and the
  instance objects created so far (`DispState`); a request is served by the dispatcher model (JRV.Model.Server) on the
  registry these fields denote AT THAT MOMENT (`view`), and leaves them as they are: `_dispatch` and the functions
  around it write neither `self.funcs` nor `self.instance` nor an attribute of the instance (`requestWrites`, compared
  with the write footprint the extractors compute from the source on every run).  So what a name denotes is a function of
  the current state only — not of which names were called before (JRV.Properties.C01: `C01_registry_*`).

  The introspection functions are bound methods of the dispatcher: what they return is computed from the state at the
  time of the CALL (`system.listMethods` lists what is registered now), which `view` expresses by materialising them
  from the state it is given.  `system.methodHelp` goes through `pydoc`, which is outside the model: its behaviour is
  supplied with the operation, like that of every user callable.
-/
import JRV.Model.EndToEnd

namespace JRV.RegProg
open JRV PyVal Callable Server EndToEnd

/- ---------- dict operations (`self.funcs`, the attributes of an object) ---------- -/

/-- `d[k] = v`: the key denotes `v` afterwards, every other key what it denoted before. -/
def setKey {α : Type} (k : String) (v : α) (l : List (String × α)) : List (String × α) :=
  (k, v) :: l.filter (fun e => e.1 != k)

/-- `del d[k]` (the caller has checked that the key is there). -/
def delKey {α : Type} (k : String) (l : List (String × α)) : List (String × α) :=
  l.filter (fun e => e.1 != k)

def hasKey {α : Type} (k : String) (l : List (String × α)) : Bool := (l.lookup k).isSome

/- ---------- the state ---------- -/

/-- What `self.funcs[name]` holds. -/
inductive Entry where
  /-- a callable the program registered -/
  | user (c : Callable)
  /-- `self.system_listMethods` -/
  | listMethods
  /-- `self.system_methodSignature` -/
  | methodSignature
  /-- `self.system_methodHelp` (behaviour supplied: pydoc) -/
  | methodHelp (c : Callable)

/-- The fields of the dispatcher the look-up reads, and the instance objects of the program (identity = index). -/
structure DispState where
  funcs : List (String × Entry) := []
  objs : List Instance := []
  inst : Option Nat := Option.none

/-- `self.instance` dereferenced. -/
def DispState.instance (st : DispState) : Option Instance :=
  match st.inst with
  | Option.none => Option.none
  | some k => st.objs[k]?

/- ---------- changing an object: `setattr(walk(obj, path[:-1]), path[-1], value)` / `delattr(…)` ---------- -/

/-- `setattr` along a path of plain `getattr`s (the program's own access: no underscore rule).  A missing
    attribute on the way, or one bound to `None`, raises `AttributeError`. -/
def setPath : List (String × Attr) → List String → Attr → PyM (List (String × Attr))
  | _, [], _ => raise "Unmodelled" (.str "empty attribute path")
  | ch, [seg], a => pure (setKey seg a ch)
  | ch, seg :: seg2 :: rest, a =>
    match ch.lookup seg with
    | Option.none => raise "AttributeError" (.str seg)
    | some .noneValue => raise "AttributeError" (.str seg2)
    | some (.node c sub) =>
      match setPath sub (seg2 :: rest) a with
      | .error e => .error e
      | .ok sub' => pure (setKey seg (.node c sub') ch)

/-- `delattr` along a path; the last attribute must exist. -/
def delPath : List (String × Attr) → List String → PyM (List (String × Attr))
  | _, [] => raise "Unmodelled" (.str "empty attribute path")
  | ch, [seg] => if hasKey seg ch then pure (delKey seg ch) else raise "AttributeError" (.str seg)
  | ch, seg :: seg2 :: rest =>
    match ch.lookup seg with
    | Option.none => raise "AttributeError" (.str seg)
    | some .noneValue => raise "AttributeError" (.str seg2)
    | some (.node c sub) =>
      match delPath sub (seg2 :: rest) with
      | .error e => .error e
      | .ok sub' => pure (setKey seg (.node c sub') ch)

/- ---------- the operations of a program on the registry ---------- -/

inductive RegOp where
  /-- `register_function(f, name)` (also in decorator form, also under `f.__name__`): `self.funcs[name] = f` -/
  | registerFunction (name : String) (c : Callable)
  /-- `del self.funcs[name]` -/
  | deleteFunction (name : String)
  /-- `register_introspection_functions()` -/
  | registerIntrospection (help : Callable)
  /-- a new object `obj = Node(); obj.<…> = …` (not registered yet) -/
  | newInstance (i : Instance)
  /-- `register_instance(objs[k])` / `register_instance(None)` -/
  | registerInstance (k : Option Nat)
  /-- `setattr` on (an attribute of) the object `objs[k]`, registered or not -/
  | setAttr (k : Nat) (path : List String) (a : Attr)
  /-- `delattr` likewise -/
  | delAttr (k : Nat) (path : List String)

/-- One operation.  An operation that raises leaves the state as it was. -/
def applyOp (st : DispState) : RegOp → PyM DispState
  | .registerFunction name c => pure { st with funcs := setKey name (.user c) st.funcs }
  | .deleteFunction name =>
    if hasKey name st.funcs then pure { st with funcs := delKey name st.funcs }
    else raise "KeyError" (.str name)
  | .registerIntrospection help =>
    let f1 := setKey "system.listMethods" Entry.listMethods st.funcs
    let f2 := setKey "system.methodSignature" Entry.methodSignature f1
    pure { st with funcs := setKey "system.methodHelp" (Entry.methodHelp help) f2 }
  | .newInstance i => pure { st with objs := st.objs ++ [i] }
  | .registerInstance Option.none => pure { st with inst := Option.none }
  | .registerInstance (some k) =>
    if k < st.objs.length then pure { st with inst := some k } else raise "Unmodelled" (.str "no such object")
  | .setAttr k path a =>
    match st.objs[k]? with
    | Option.none => raise "Unmodelled" (.str "no such object")
    | some i =>
      match setPath i.attrs path a with
      | .error e => .error e
      | .ok attrs' => pure { st with objs := st.objs.set k { i with attrs := attrs' } }
  | .delAttr k path =>
    match st.objs[k]? with
    | Option.none => raise "Unmodelled" (.str "no such object")
    | some i =>
      match delPath i.attrs path with
      | .error e => .error e
      | .ok attrs' => pure { st with objs := st.objs.set k { i with attrs := attrs' } }

/-- The state after an operation, whether it raised or not. -/
def applyOp' (st : DispState) (op : RegOp) : DispState :=
  match applyOp st op with
  | .ok st' => st'
  | .error _ => st

/-- A sequence of operations. -/
def applyOps (st : DispState) : List RegOp → DispState
  | [] => st
  | op :: rest => applyOps (applyOp' st op) rest

/- ---------- the registry a state denotes ---------- -/

/-- `list_public_methods(instance)`: `[m for m in dir(obj) if not m.startswith('_') and callable(getattr(obj, m))]`. -/
def publicMethods (i : Instance) : List String :=
  (i.attrs.filter fun e => !e.1.startsWith "_" && e.2.callable.isSome).map (·.1)

/-- Insertion into a list sorted by `<` on strings (code points, as Python's `sorted` on `str`), without duplicates. -/
def insertSorted (s : String) : List String → List String
  | [] => [s]
  | x :: xs => if s < x then s :: x :: xs else if s == x then x :: xs else x :: insertSorted s xs

/-- `sorted(set(names))`. -/
def sortedSet (names : List String) : List String := names.foldr insertSorted []

/-- `system_listMethods()`: `sorted(set(self.funcs.keys()) | set(list_public_methods(self.instance)))` — the
    second part only for an instance without `_dispatch` (an instance with a `_listMethods` method is outside the
    model's `Instance`). -/
def listedNames (st : DispState) : List String :=
  let fromInst :=
    match st.instance with
    | Option.none => []
    | some i => if i.dispatch.isSome then [] else publicMethods i
  sortedSet (st.funcs.map (·.1) ++ fromInst)

/-- The value of `system.methodSignature`, whatever the method. -/
def signaturesNotSupported : String := "signatures not supported"

/-- The callable an entry is when it is called in state `st`. -/
def materialise (st : DispState) : Entry → Callable
  | .user c => c
  | .listMethods => { sig := { names := [] }, body := fun _ => .ret (.list ((listedNames st).map PyVal.str)) }
  | .methodSignature => { sig := { names := ["method_name"] }, body := fun _ => .ret (.str signaturesNotSupported) }
  | .methodHelp c => c

/-- `self.funcs` / `self.instance` as the look-up of `_dispatch` sees them now. -/
def view (st : DispState) : Registry :=
  { funcs := st.funcs.map fun e => (e.1, materialise st e.2), inst := st.instance }

/-- A registry given once and for all (the dispatcher of the other C01 theorems) as a state. -/
def DispState.ofRegistry (reg : Registry) : DispState :=
  { funcs := reg.funcs.map fun e => (e.1, .user e.2),
    objs := match reg.inst with | some i => [i] | Option.none => [],
    inst := reg.inst.map fun _ => 0 }

/- ---------- a live dispatcher: requests interleaved with registry operations ---------- -/

/-- The server end with the registry of the state: everything else (configuration, pool, class translators) from
    `base`. -/
def peerOf (base : Peer) (st : DispState) : Peer := { base with srv := { base.srv with reg := view st } }

/-- What the functions that serve a request (`_marshaled_dispatch`, `_unmarshaled_dispatch`,
    `_marshaled_single_dispatch`, `_dispatch`) store into state that outlives the request: nothing.  (Compared with
    the footprint computed from the source: `C01_gen_requestWrites`, `C01_gen_servePathSharedWrites`.) -/
def requestWrites : List String := []

/-- An event at the server: an operation on the registry, or a request body handed to `_marshaled_dispatch`. -/
inductive Ev where
  | reg (op : RegOp)
  | request (text : String)

/-- One event: the state afterwards and, for a request, the reply body and the invocations it caused.  A request
    leaves the state unchanged (`requestWrites = []`). -/
def stepEv (K : Codec) (base : Peer) (st : DispState) : Ev → DispState × Option (PyM String × List Effect)
  | .reg op => (applyOp' st op, Option.none)
  | .request text => (st, some (serve K (peerOf base st) text))

/-- A history of events: the state afterwards and the answers to the requests, in order. -/
def runEvs (K : Codec) (base : Peer) : DispState → List Ev → DispState × List (PyM String × List Effect)
  | st, [] => (st, [])
  | st, ev :: rest =>
    let (st1, out) := stepEv K base st ev
    let (st2, outs) := runEvs K base st1 rest
    (st2, match out with | some o => o :: outs | Option.none => outs)

/-- The registry operations of a history, in order. -/
def regOpsOf : List Ev → List RegOp
  | [] => []
  | .reg op :: rest => op :: regOpsOf rest
  | .request _ :: rest => regOpsOf rest

end JRV.RegProg
