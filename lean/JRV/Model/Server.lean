/-
  JRV.Model.Server — the dispatcher of jsonrpclib/SimpleJSONRPCServer.py, transcribed statement by
  statement: `get_version`, `validate_request`, `SimpleJSONRPCDispatcher._dispatch`,
  `_marshaled_single_dispatch`, `_unmarshaled_dispatch`, `_marshaled_dispatch`, `_safe_jdumps`.

  * The input of `marshaledDispatch` is the *outcome of `jsonrpclib.loads`* (`ParseOutcome`): the JSON
    text layer is abstract (DESIGN 3.4) and with class translation on `jsonclass.load` may turn any part
    of the request into any Python value, so every function here is total over `PyVal` and every place
    where the Python code can raise is an error of `PyM` (`"k" in 5` raises `TypeError`, `5.get(..)`
    raises `AttributeError`, `d["id"]` raises `KeyError`, `jdumps` raises `TypeError`, a full pool
    raises `Full`, an empty batch result raises `NoMulticallResult`, …).  The `try/except` blocks of the
    code are the only places where the model turns an error back into a value.
  * Every function that can cause something returns the effect log next to its value; the log is kept
    when the value is an error.
  * Error *messages* are template tags plus the arguments the properties talk about: the texts built
    from `repr(request)`, the request body or CPython's own wording are fixed tags (`msgNoVersion`,
    `msgParse`, `msgParams`, `msgSerialize`); the −32603 messages carry exception class and text in the
    same layout as the code (`"{0}:{1}"`, and `"Server error: <source line> | Cls: text\n"` without
    the source line and the newline).  harness/servercases.py maps real messages to these forms.
  * `conv` stands for `jsonclass.dump(result, config=config)` (used when `use_jsonclass` is on), so the
    theorems hold for every converter, raising ones included.
-/
import JRV.Model.Payload
import JRV.Model.Callable

namespace JRV.Server
open JRV PyVal Callable Payload

/- ---------- the server object ---------- -/

/-- `self.__notification_pool`: absent, or a pool whose `enqueue` accepts the task, or one whose
    bounded queue is full (`queue.put(.., True, timeout)` raises `queue.Full` — the call is not
    guarded in `_marshaled_single_dispatch`). -/
inductive Pool where
  | absent | accepting | full
deriving Repr, DecidableEq, Inhabited

structure Server where
  cfg : Config
  reg : Registry := {}
  /-- `dispatch_method` handed to `_marshaled_dispatch` (the request handler's `_dispatch`, if any). -/
  custom : Option DispatchFn := Option.none
  pool : Pool := .absent
  /-- `jsonclass.dump(·, config=config)`. -/
  conv : PyVal → PyM PyVal := pure

/- ---------- error codes and messages ---------- -/

def codeParse : Int := -32700
def codeInvalid : Int := -32600
def codeUnknown : Int := -32601
def codeParams : Int := -32602
def codeInternal : Int := -32603

/-- The `Fault(<code>, …)` sites of the code as a multiset of (enclosing function, code), listed in the
    canonical order of the extractor (function name, then code; a call of a local helper that builds the
    Fault counts as a site of the caller), with the constant the model uses at the corresponding place
    (compared with the extracted table on every run). -/
def faultSiteTable : List (String × Int) := [
  ("_dispatch", codeParams), ("_dispatch", codeUnknown),
  ("_marshaled_dispatch", codeParse),
  ("_marshaled_single_dispatch", codeInternal), ("_marshaled_single_dispatch", codeInternal),
  ("_method_exception_fault", codeInternal),
  ("_safe_jdumps", codeInternal),
  ("_unmarshaled_dispatch", codeInvalid),
  ("validate_request", codeInvalid), ("validate_request", codeInvalid), ("validate_request", codeInvalid)]

def msgParse : String := "Request <data> invalid. (<error>)"
def msgNoData : String := "Request invalid -- no request data."
def msgNotDict (typeName : String) : String := "Request must be a dict, not " ++ typeName
def msgNoVersion : String := "Request <request> invalid."
def msgBadMethodOrParams : String := "Invalid request parameters or method."
def msgUnknown (method : String) : String := "Method " ++ method ++ " not supported."
def msgParams : String := "Invalid parameters: <error>"
/-- `"{0}:{1}".format(type(ex).__name__, ex)` for the `TypeError` of `json.dumps` (CPython's wording is a tag). -/
def msgSerialize : String := "TypeError:<not JSON serializable>"
/-- `"{0}:{1}".format(type(ex).__name__, ex)`. -/
def msgExc (cls text : String) : String := cls ++ ":" ++ text
/-- `"Server error: {line} | {Cls: text}"` of `_method_exception_fault`, without the source line and
    the trailing newline (`traceback.format_exception_only` prints the bare class for an empty text). -/
def msgServerError (cls text : String) : String :=
  "Server error: " ++ cls ++ (if text.isEmpty then "" else ": " ++ text)

/-- `str(ex)` of a modelled exception. -/
def errText (e : PyErr) : String :=
  match e.arg with
  | .str s => s
  | _ => "<arg>"

/- ---------- Python primitives used by the dispatcher ---------- -/

/-- `"k" in v`.  Dicts test their keys, sequences and sets their members; `"k" in "text"` is a substring
    test, which the model declines to describe; anything else raises `TypeError`. -/
def containsStr (k : String) : PyVal → PyM Bool
  | .dict kvs => pure (hasKeyStr k kvs)
  | .list xs => pure (xs.any (pyEq (.str k)))
  | .tuple xs => pure (xs.any (pyEq (.str k)))
  | .set xs => pure (xs.any (pyEq (.str k)))
  | .frozenset xs => pure (xs.any (pyEq (.str k)))
  | .str _ => raise "Unmodelled" (.str "substring test")
  | v => raise "TypeError" (.str ("argument of type '" ++ v.typeName ++ "' is not iterable"))

/-- `v["k"]`. -/
def subscriptStr (v : PyVal) (k : String) : PyM PyVal :=
  match v with
  | .dict kvs =>
    match lookupStr k kvs with
    | some x => pure x
    | Option.none => raise "KeyError" (.str k)
  | v => raise "TypeError" (.str ("'" ++ v.typeName ++ "' object is not subscriptable with a str"))

/-- `v.get("k", dflt)`. -/
def dictGet (v : PyVal) (k : String) (dflt : PyVal) : PyM PyVal :=
  match v with
  | .dict kvs => pure ((lookupStr k kvs).getD dflt)
  | v => raise "AttributeError" (.str ("'" ++ v.typeName ++ "' object has no attribute 'get'"))

/-- `v.setdefault("k", dflt)`, returning the dict after the call (the code ignores the returned value
    and relies on the mutation). -/
def setDefault (v : PyVal) (k : String) (dflt : PyVal) : PyM PyVal :=
  match v with
  | .dict kvs => pure (if hasKeyStr k kvs then .dict kvs else .dict (kvs ++ [(.str k, dflt)]))
  | v => raise "AttributeError" (.str ("'" ++ v.typeName ++ "' object has no attribute 'setdefault'"))

/-- Keys `json.dumps` accepts (it converts them to strings). -/
def jsonKey : PyVal → Bool
  | .str _ => true | .int _ => true | .float _ => true | .bool _ => true | .none => true | _ => false

mutual
  /-- Can `json.dumps` render the value?  Sets, frozensets, instances and dicts with tuple/frozenset
      keys make it raise `TypeError` (floats are finite in this universe). -/
  def serialisable : PyVal → Bool
    | .none => true | .bool _ => true | .int _ => true | .float _ => true | .str _ => true
    | .list xs => serialisableList xs
    | .tuple xs => serialisableList xs
    | .dict kvs => serialisableKVs kvs
    | .set _ => false | .frozenset _ => false | .obj _ _ => false
  def serialisableList : List PyVal → Bool
    | [] => true
    | x :: xs => serialisable x && serialisableList xs
  def serialisableKVs : List (PyVal × PyVal) → Bool
    | [] => true
    | (k, v) :: rest => jsonKey k && serialisable v && serialisableKVs rest
end

/-- `jsonrpclib.jdumps(v)`: the document that is sent, or `TypeError`. -/
def jdumps (v : PyVal) : PyM PyVal :=
  if serialisable v then pure v else raise "TypeError" (.str "<not JSON serializable>")

/- ---------- get_version / validate_request ---------- -/

/-- `get_version(request)`: `2.0` (here 20), `1.0` (10) or `None`. -/
def getVersion (request : PyVal) : PyM (Option Nat) := do
  if (← containsStr "jsonrpc" request) then pure (some 20)
  else if (← containsStr "id" request) then pure (some 10)
  else pure Option.none

/-- `isinstance(params, (list, dict, tuple))`. -/
def isParamType (v : PyVal) : Bool := v.isList || v.isDict || v.isTuple

/-- What `validate_request` returns: a `Fault`, or `True` — and then the request dictionary has been
    given a `params` member if it had none. -/
inductive Validation where
  | fault (f : Fault)
  | valid (request : PyVal)

def invalidFault (message : String) (rpcid : PyVal := .none) : Fault :=
  { code := .int codeInvalid, message := .str message, rpcid := rpcid }

/-- The last test of `validate_request`:
    `not method or not isinstance(method, STRING_TYPES) or not isinstance(params, param_types)`
    (`bytes` method names are outside the value universe). -/
def checkMethodParams (request method params rpcid : PyVal) : Validation :=
  if !method.truthy || !method.isStr || !isParamType params then
    .fault (invalidFault msgBadMethodOrParams rpcid)
  else .valid request

/-- `validate_request(request, json_config)`. -/
def validateRequest (request : PyVal) : PyM Validation := do
  if !request.isDict then
    return .fault (invalidFault (msgNotDict request.typeName))
  let rpcid ← dictGet request "id" .none
  let version ← getVersion request
  -- `if not version` (2.0 and 1.0 are truthy)
  if version.isNone then
    return .fault (invalidFault msgNoVersion rpcid)
  let request ← setDefault request "params" (.list [])
  let method ← dictGet request "method" .none
  let params ← dictGet request "params" .none
  return checkMethodParams request method params rpcid

/- ---------- _dispatch ---------- -/

/-- What `_dispatch` returns: the method's result, or a `Fault` *object* (code, message). -/
inductive DispResult where
  | value (v : PyVal)
  | fault (code : Int) (message : String)
deriving DecidableEq

/-- The exception seen by the handlers around `func(*params)` / `func(**params)`; `inBody` is the test
    `sys.exc_info()[2].tb_next is not None`: the traceback has an entry below the frame of `_dispatch`.
    It is computed from the behaviour's `depth` (`CallOutcome.raised`), or `false` when the call
    expression itself fails in the frame of `_dispatch` (binding, non-callable object). -/
structure CallExc where
  cls : String
  text : String
  isTypeError : Bool
  inBody : Bool

/-- `_method_exception_fault(config)`. -/
def methodExceptionFault (cls text : String) : DispResult :=
  .fault codeInternal (msgServerError cls text)

/-- `except TypeError as ex: (tb_next test) … except: …`. -/
def handleCallExc (e : CallExc) : DispResult :=
  if e.isTypeError then
    if e.inBody then methodExceptionFault e.cls e.text
    else .fault codeParams msgParams
  else methodExceptionFault e.cls e.text

/-- The `try` block `func(*params)` / `func(**params)` with its handlers, for a resolved `func`
    (`none`: the resolved attribute is not callable — `TypeError` at the call). -/
def invoke (t : Target) (func : Option Callable) (method params : PyVal) : DispResult × List Effect :=
  match func with
  | Option.none => (handleCallExc ⟨"TypeError", "object is not callable", true, false⟩, [])
  | some c =>
    if binds c.sig params then
      match c.body params with
      | .ret v => (.value v, [.call t method params])
      | .raised cls text te _ depth => (handleCallExc ⟨cls, text, te, decide (depth ≠ 0)⟩, [.call t method params])
      -- not an instance of `Exception`, hence not a `TypeError`: the last handler is a bare `except:`, it takes
      -- `SystemExit`, `KeyboardInterrupt`, … like any other method exception (fact `dispatchCallCatchAll`)
      | .raisedBase cls text depth => (handleCallExc ⟨cls, text, false, decide (depth ≠ 0)⟩, [.call t method params])
    else (handleCallExc ⟨"TypeError", "arguments do not bind", true, false⟩, [])

def unknownMethod (m : String) : DispResult := .fault codeUnknown (msgUnknown m)

/-- `resolve_dotted_attribute(self.instance, method, True)` then the call, or "unknown method" — also
    when the name resolves to an attribute bound to `None` (`if func is not None: … else: unknown`). -/
def resolveAndInvoke (inst : Instance) (m : String) (method params : PyVal) : DispResult × List Effect :=
  match resolveDotted inst m with
  | some a =>
    match a.callable with
    | some c => invoke .attr (some c) method params
    | Option.none =>
      if a.isNoneValue then (unknownMethod m, []) else invoke .attr Option.none method params
  | Option.none => (unknownMethod m, [])

/-- `SimpleJSONRPCDispatcher._dispatch(method, params, config)` for a string method name (the only
    kind `validate_request` lets through).  An exception of the instance's own `_dispatch` other than
    `AttributeError` propagates. -/
def dispatch (reg : Registry) (m : String) (params : PyVal) : PyM DispResult × List Effect :=
  match reg.funcs.lookup m with
  | some c =>
    let (r, eff) := invoke .func (some c) (.str m) params
    (.ok r, eff)
  | Option.none =>
    match reg.inst with
    | Option.none => (.ok (unknownMethod m), [])
    | some inst =>
      match inst.dispatch with
      | some d =>
        let eff := [Effect.call .instDispatch (.str m) params]
        match d (.str m) params with
        | .ret v => (.ok (.value v), eff)
        | .raised cls text _ isAttr _ =>
          if isAttr then
            let (r, eff') := resolveAndInvoke inst m (.str m) params
            (.ok r, eff ++ eff')
          else (.error { cls := cls, arg := .str text }, eff)
        -- not an instance of `Exception`, hence not an `AttributeError`: it propagates out of `_dispatch` too
        | .raisedBase cls text _ => (.error { cls := cls, arg := .str text }, eff)
      | Option.none =>
        let (r, eff) := resolveAndInvoke inst m (.str m) params
        (.ok r, eff)

/- ---------- _marshaled_single_dispatch ---------- -/

/-- The ids that make a request a notification: `request["id"] in (None, "")`. -/
def notifIds : List PyVal := [.none, .str ""]

/-- `"id" not in request or request["id"] in (None, "")`. -/
def isNotification (request : PyVal) : PyM Bool := do
  if !(← containsStr "id" request) then pure true
  else
    let i ← subscriptStr request "id"
    pure (notifIds.any (pyEq i))

/-- The request-specific configuration: a request without `jsonrpc` on a ≥ 2.0 server is answered
    in 1.0 form. -/
def requestConfig (cfg : Config) (hasJsonrpc : Bool) : Config :=
  if hasJsonrpc = false ∧ cfg.version ≥ 20 then { cfg with version := 10 } else cfg

/-- `dispatch_method(method, params)` or `self._dispatch(method, params, config)`. -/
def runDispatcher (s : Server) (method params : PyVal) : PyM DispResult × List Effect :=
  match s.custom with
  | some d =>
    match d method params with
    | .ret v => (.ok (.value v), [.call .custom method params])
    | .raised cls text _ _ _ => (.error { cls := cls, arg := .str text }, [.call .custom method params])
    | .raisedBase cls text _ => (.error { cls := cls, arg := .str text }, [.call .custom method params])
  | Option.none =>
    match method with
    | .str m => dispatch s.reg m params
    | _ =>
      -- `self.funcs[method]` with a non-string method: `singleDispatch` declines before getting here
      (raise "Unmodelled" (.str "_dispatch with a non-string method"), [])

/-- `jsonrpclib.dump(response, rpcid=…, is_response=True, config=config)` for a result or a Fault object. -/
def buildResponse (s : Server) (config : Config) (rpcid : PyVal) : DispResult → PyM PyVal
  | .value v => Payload.dump config s.conv "" (.val v) .none rpcid .none true false
  | .fault c m => Payload.dump config s.conv "" (.fault (.int c) (.str m) .none) .none rpcid .none true false

def internalFault (e : PyErr) (rpcid : PyVal) : Fault :=
  { code := .int codeInternal, message := .str (msgExc e.cls (errText e)), rpcid := rpcid }

/-- `_marshaled_single_dispatch(request, dispatch_method)`: a response dictionary or `None`. -/
def singleDispatch (s : Server) (request : PyVal) : PyM (Option PyVal) × List Effect :=
  match dictGet request "method" .none with
  | .error e => (.error e, [])
  | .ok method =>
  match dictGet request "params" .none with
  | .error e => (.error e, [])
  | .ok params =>
  match containsStr "jsonrpc" request with
  | .error e => (.error e, [])
  | .ok hasJsonrpc =>
  let config := requestConfig s.cfg hasJsonrpc
  match isNotification request with
  | .error e => (.error e, [])
  | .ok notif =>
  match notif, s.pool with
  | true, .accepting =>
    (.ok Option.none, [.enqueue s.custom.isSome method params config.version])
  | true, .full => (raise "Full", [])
  | _, _ =>
    if s.custom.isNone && !method.isStr then
      -- never reached after validation; the model does not describe `self.funcs[<non-string>]`
      (raise "Unmodelled" (.str "_dispatch with a non-string method"), [])
    else
    -- synchronous call inside `try … except BaseException` (fix 43f3faa; fact `syncCallCatchAll`): whatever the
    -- dispatch function or `_dispatch` lets out — `SystemExit`, `KeyboardInterrupt`, … included — is caught here
    match runDispatcher s method params with
    | (.error ex, eff) =>
      match dictGet request "id" .none with
      | .error e => (.error e, eff)
      | .ok rid =>
        if notif then (.ok Option.none, eff)
        else (.ok (some (faultDump config (internalFault ex rid))), eff)
    | (.ok resp, eff) =>
      if notif then (.ok Option.none, eff)
      else
        -- `request["id"]` is evaluated in the `try` and again in its handler
        match subscriptStr request "id" with
        | .error e => (.error e, eff)
        | .ok rid =>
          match buildResponse s config rid resp with
          | .ok d => (.ok (some d), eff)
          | .error ex => (.ok (some (faultDump config (internalFault ex rid))), eff)

/- ---------- _unmarshaled_dispatch ---------- -/

/-- The batch loop: `responses` is the accumulator, entries are handled left to right. -/
def batchLoop (s : Server) (responses : List PyVal) : List PyVal → PyM (List PyVal) × List Effect
  | [] => (.ok responses, [])
  | entry :: rest =>
    match validateRequest entry with
    | .error e => (.error e, [])
    | .ok (.fault f) => batchLoop s (responses ++ [faultDump s.cfg f]) rest
    | .ok (.valid entry') =>
      match singleDispatch s entry' with
      | (.error e, eff) => (.error e, eff)
      | (.ok Option.none, eff) =>
        let (r, eff') := batchLoop s responses rest
        (r, eff ++ eff')
      | (.ok (some d), eff) =>
        let (r, eff') := batchLoop s (responses ++ [d]) rest
        (r, eff ++ eff')

/-- `_unmarshaled_dispatch(request, dispatch_method)`: a response dictionary, a list of them, or
    `None`; raises `NoMulticallResult` for a batch without response. -/
def unmarshaledDispatch (s : Server) (request : PyVal) : PyM (Option PyVal) × List Effect :=
  if !request.truthy then
    (.ok (some (faultDump s.cfg (invalidFault msgNoData))), [])
  else
    match request with
    | .list entries =>
      match batchLoop s [] entries with
      | (.error e, eff) => (.error e, eff)
      | (.ok responses, eff) =>
        if responses.isEmpty then (raise "NoMulticallResult" (.str "No result"), eff)
        else (.ok (some (.list responses)), eff)
    | _ =>
      match validateRequest request with
      | .error e => (.error e, [])
      | .ok (.fault f) => (.ok (some (faultDump s.cfg f)), [])
      | .ok (.valid request') => singleDispatch s request'

/- ---------- _marshaled_dispatch ---------- -/

/-- Outcome of the parse `try` of `_marshaled_dispatch`: the Python value `jsonrpclib.loads(data, config)`
    returns, or an exception (malformed JSON, a payload the class translator rejects, or — raised by the
    dispatcher itself before it calls `loads` — an empty body, see `marshaledDispatchBody`). -/
inductive ParseOutcome where
  | parsed (v : PyVal)
  | parseError

/-- What `_marshaled_dispatch` returns: `""`, or the JSON text of a document. -/
inductive Reply where
  | empty
  | doc (v : PyVal)
deriving Repr, DecidableEq, Inhabited

/-- `fault.response()`: `jdumps(dump(fault, is_response=True, rpcid=None, …))`. -/
def faultResponse (cfg : Config) (f : Fault) : PyM PyVal := jdumps (faultDump cfg f)

/-- `fault.response(version=v)` with `v` 1.0 or 2.0 (`10`/`20`): the error object in the form of that
    version, whatever the configuration says, then `jdumps`. -/
def faultResponseAs (ver : Nat) (f : Fault) : PyM PyVal :=
  jdumps (Payload.error ver f.rpcid f.code f.message f.data)

/-- `_safe_jdumps(response)`: the document sent for one response dictionary — the response itself, or,
    when `jdumps` rejects it, a −32603 error response that keeps the response's id if that id can be
    serialised on its own (else `null`), in the form (has `jsonrpc` → 2.0, else 1.0) of the response
    it replaces.  `response.get("id")` and `"jsonrpc" in response` raise on a non-dictionary. -/
def safeJdumps (response : PyVal) : PyM PyVal :=
  match jdumps response with
  | .ok d => pure d
  | .error ex =>
    match dictGet response "id" .none with
    | .error e => .error e
    | .ok rid =>
      -- `try: jdumps(rpcid) except Exception: rpcid = None`
      let rpcid := match jdumps rid with
        | .ok _ => rid
        | .error _ => PyVal.none
      match containsStr "jsonrpc" response with
      | .error e => .error e
      | .ok hasJsonrpc => faultResponseAs (if hasJsonrpc then 20 else 10) (internalFault ex rpcid)

/-- `", ".join(self._safe_jdumps(entry) for entry in response)` inside `"[{0}]"`: the documents of the
    array that is sent, left to right (the text layer is abstract: a bracketed, comma-separated list
    of JSON texts is the JSON text of the list of their documents — the law MultiCall relies on too). -/
def safeJdumpsAll : List PyVal → PyM (List PyVal)
  | [] => pure []
  | r :: rest =>
    match safeJdumps r with
    | .error e => .error e
    | .ok d =>
      match safeJdumpsAll rest with
      | .error e => .error e
      | .ok ds => pure (d :: ds)

/-- `_marshaled_dispatch(data, dispatch_method)`. -/
def marshaledDispatch (s : Server) (po : ParseOutcome) : PyM Reply × List Effect :=
  match po with
  | .parseError =>
    -- `except Exception` around `loads`
    ((faultResponse s.cfg { code := .int codeParse, message := .str msgParse }).map Reply.doc, [])
  | .parsed request =>
    match unmarshaledDispatch s request with
    | (.error e, eff) =>
      -- `except NoMulticallResult: return ""`
      if e.cls == "NoMulticallResult" then (.ok .empty, eff) else (.error e, eff)
    | (.ok Option.none, eff) => (.ok .empty, eff)
    | (.ok (some response), eff) =>
      match jdumps response with
      | .ok d => (.ok (.doc d), eff)
      | .error _ =>
        -- `except Exception` around `jdumps`: every response is serialised on its own
        match response with
        | .list responses => ((safeJdumpsAll responses).map (fun ds => Reply.doc (.list ds)), eff)
        | r => ((safeJdumps r).map Reply.doc, eff)

/-- `_marshaled_dispatch(data, …)` seen from the body: the first statement of the parse `try` is
    `if not data: raise ValueError("No request data")` (fix e82f118), so an empty body — `""`, `b""` —
    takes the handler of a parse failure whatever `loads` would have made of it (`jsonrpclib.loads("")`
    returns `None`: it is what a client receives in answer to a notification).  `empty` is `not data`,
    `po` the outcome of `loads` on a non-empty body. -/
def marshaledDispatchBody (s : Server) (empty : Bool) (po : ParseOutcome) : PyM Reply × List Effect :=
  marshaledDispatch s (if empty then .parseError else po)

end JRV.Server
