/-
  JRV.Model.ServerContend — a server and its ADDRESS (C12): life-cycle histories in which a second server is
  constructed on the address the first one listens on, in which the first one was constructed without binding, or in
  which the environment removes the socket file.

  `JRV.Model.ServerLife` describes one server `A` and the connections it has accepted.  Clients do not hold `A`'s
  listening socket: they connect to an *address* — a TCP port, or the path of a Unix socket file — which the kernel
  resolves to the socket bound to it.  This file adds that resolution and the one library code path that runs while
  `A` is serving and is not `A`'s own: the constructor of another server `B` given the same address.

  Environment (kernel), assumed and observed on real sockets:
    * `bind` of a socket to an address that already names a listening socket fails (`EADDRINUSE`): always for a Unix
      path whose file exists, and for a TCP port with an active listener even under `SO_REUSEADDR` (Linux);
    * `close` of a listening socket ends the resolution of its address to it (TCP: the port is free again; Unix: the
      file stays, connections are refused);
    * `close` of a socket whose `bind` failed affects nothing but that socket;
    * removing a Unix socket file (`unlink`) ends the resolution of the path; the listening socket, the connections
      already accepted and the ones queued in its backlog are untouched.
  Library code transcribed (`socketserver.TCPServer.__init__`, `SimpleJSONRPCServer`, `PooledJSONRPCServer`):
    __init__      : (pooled: create and start the default pool / take the user pool; `__serving = False`)
                    create the socket; if bind_and_activate: try: server_bind(); server_activate()
                                                             except: self.server_close(); raise
    server_close  : plain  — close the own listening socket            (`SimpleJSONRPCServer` does not override it)
                    pooled — `if self.__serving: shutdown()`; close the own listening socket; own pool `.stop()`
  so the failure path of `B`'s constructor is: close `B`'s socket, (pooled) stop `B`'s pool — which has no begun task,
  so `stop()` returns at once — and re-raise.  Nothing in it names the address or `A` (facts `pooledServerClose`,
  `plainServerCloseExtra`).

  The world is `A`'s state plus: whether `A` was bound at construction, whether the socket file has been removed, and
  the program counter of `B`'s constructor.
-/
import JRV.Model.ServerLife

namespace JRV.SL

/-- Program counter of the constructor of the second server `B` (its `bind` has failed: the address is busy). -/
inductive BPc where
  | notStarted
  | bindFailed      -- `server_bind()` raised; the handler of `TCPServer.__init__` is about to call `self.server_close()`
  | socketClosed    -- `server_close`: B's own socket is closed (pooled: `pool.stop()` is next)
  | raised          -- `server_close()` returned, the bind error is re-raised: the constructor is over
deriving Repr, DecidableEq

structure World where
  a : State := {}
  /-- `A` was constructed with `bind_and_activate=True` (the default): its socket is bound and listening. -/
  bound : Bool := true
  /-- (Unix) the socket file has been removed. -/
  unlinked : Bool := false
  bpc : BPc := .notStarted
  /-- `B` is a `SimpleJSONRPCServer` (no pool) / a `PooledJSONRPCServer`. -/
  bPlain : Bool := false
  bSocketOpen : Bool := false
  bPoolStopped : Bool := false
deriving Repr, DecidableEq

/-- A client that connects to the address reaches `A`'s listening socket. -/
def addrNamesA (w : World) : Bool := w.bound && !w.unlinked && w.a.socketOpen

inductive WAction where
  /-- a step of server `A`, its handlers, its clients or the threads stopping it (`JRV.SL.Action`) -/
  | srv (x : Action)
  /-- environment: the socket file is removed (Unix) -/
  | envUnlink
  /-- a thread constructs a second server on the address: socket created, `bind` fails -/
  | bConstruct (plain : Bool)
  /-- the next step of the failure path of `B`'s constructor -/
  | bStep
deriving Repr, DecidableEq

def WAction.isB : WAction → Bool
  | .bConstruct _ => true
  | .bStep => true
  | _ => false

def isAccept : Action → Bool
  | .accept _ _ _ => true
  | _ => false

/-- One step of the world.  `A`'s own steps are those of `JRV.SL.step?`; accepting a connection needs, in addition,
    a client that reached the listening socket through the address. -/
def stepW (cfg : Cfg) (f : Nat → Nat → Nat) (w : World) : WAction → Option World
  | .srv x =>
    if isAccept x && !addrNamesA w then none
    else (step? cfg f w.a x).map fun a' => { w with a := a' }
  | .envUnlink => some { w with unlinked := true }
  | .bConstruct plain =>
    -- the case of interest: the address is busy, `bind` fails.  (On a free address `B` simply becomes a second,
    -- independent server with an address of its own: not described here.)
    -- (one constructor at a time; a further contender may come once the previous one is over)
    if (w.bpc = .notStarted ∨ w.bpc = .raised) ∧ addrNamesA w = true then
      some { w with bpc := .bindFailed, bPlain := plain, bSocketOpen := true, bPoolStopped := false }
    else none
  | .bStep =>
    match w.bpc with
    | .bindFailed => some { w with bSocketOpen := false, bpc := if w.bPlain then .raised else .socketClosed }
    | .socketClosed => some { w with bPoolStopped := true, bpc := .raised }
    | _ => none

def initW (bound : Bool) : World := { bound := bound }

inductive ReachW (cfg : Cfg) (f : Nat → Nat → Nat) (bound : Bool) : World → Prop where
  | init : ReachW cfg f bound (initW bound)
  | step {w w' : World} (a : WAction) : ReachW cfg f bound w → stepW cfg f w a = some w' → ReachW cfg f bound w'

def runW (cfg : Cfg) (f : Nat → Nat → Nat) : World → List WAction → Option World
  | w, [] => some w
  | w, a :: rest => match stepW cfg f w a with
    | some w' => runW cfg f w' rest
    | none => none

/-- Steps the failure path of `B`'s constructor still has to make. -/
def bRemaining (w : World) : Nat :=
  match w.bpc with
  | .bindFailed => if w.bPlain then 1 else 2
  | .socketClosed => 1
  | _ => 0

end JRV.SL
