/-
  JRV.Model.ServerLife — life cycle of a plain or pooled JSON-RPC server (C12).

  Environment model of `socketserver.BaseServer` (CPython 3.12), assumed and observed on real sockets:
    serve_forever : is_shut_down.clear(); loop { select(poll); if shutdown_request: break; handle ready
                    connection }; finally: shutdown_request = False; is_shut_down.set()
    shutdown      : shutdown_request = True; is_shut_down.wait()        (the event starts *unset*)
  Library code transcribed (`PooledJSONRPCServer`, as repaired):
    serve_forever : self.__serving = True; try: BaseServer.serve_forever() finally: self.__serving = False
    process_request: pool.enqueue(handler task for that connection)
    server_close  : if self.__serving: shutdown(); close the listening socket; pool.stop()
  and `SimpleJSONRPCServer` (`Cfg.plain`): no pool — `process_request` runs the handler of the accepted connection
  on the serving thread itself (which therefore neither accepts nor looks at `shutdown_request` meanwhile);
  `server_close` only closes the listening socket.
  The request pool is abstracted to what C09–C11 establish about it: every accepted handler task runs at most
  once, and `stop()` returns once the begun tasks have ended (it joins the worker threads), after which no worker
  is alive; tasks that were still queued are dropped.

  A connection (HTTP/1.0 by default: one request, then the handler closes it; `keepAlive` = a request-handler class
  speaking HTTP/1.1, the handler reads on after replying) goes through
      queued    accepted, its handler task waits in the pool queue                       (pooled only)
      awaiting  a worker (plain: the serving thread) runs the handler, which is waiting for / reading the request:
                the exchange has begun and is IN FLIGHT (it completes when the client finishes sending and is
                answered, or disconnects) — a client that stays silent makes it an *idle connection*
      running   the request has been read and is being dispatched: IN FLIGHT
      closed    the handler has returned (reply written, or the client went away), the worker is free.
  A request is one of `Kind`: a call that returns, a notification, a method raising an ordinary exception, a method
  raising a `BaseException` outside `Exception` (SystemExit, KeyboardInterrupt, …), a malformed body (invalid
  UTF-8 / JSON, truncated).  The reply is computed by the dispatcher from the connection's own body and the
  server-wide dispatcher state (`State.disp`, the shared cell: registered functions, configuration, …) which the
  handlers read.  `Cfg.sharedWrites` says whether the serve path stores into that shared state (the extracted
  write-footprint of C13, `Generated.servePathSharedWrites`, is empty: `false`); `Cfg.catchAll` whether the
  `except` clauses around the method call and around the exchange catch every `BaseException` (they are bare).

  One serving thread at most (the property's life-cycle histories serve once); any number of connections; any
  interleaving of the serving thread, the closing thread, an optional external `shutdown()` caller, the handlers
  and the clients.
-/
import JRV.Model.Json

namespace JRV.SL

/-- Program counter of the serving thread. -/
inductive SPc where
  | notStarted | setServing | clearEvent | loop | exitResetReq | exitSetEvent | clearServing | finished
deriving Repr, DecidableEq

/-- Program counter of the thread calling `server_close()`. -/
inductive CPc where
  | idle | readServing | setReq | waitEvent | closeSocket | stopPool | returned
deriving Repr, DecidableEq

/-- Program counter of an external `shutdown()` caller (only legal while serving). -/
inductive DPc where
  | idle | setReq | waitEvent | returned
deriving Repr, DecidableEq

/-- What the request sent on a connection is. -/
inductive Kind where
  | good | notify | failing | fatal | malformed
deriving Repr, DecidableEq

inductive Phase where
  | queued | awaiting | running | closed
deriving Repr, DecidableEq

inductive Reply where
  | result (v : Nat)      -- the dispatcher's result for this request
  | empty                 -- notification: nothing to say
  | error (v : Nat)       -- error object for this request (method raised)
  | parseError            -- error object with id null (body not understood)
deriving Repr, DecidableEq

/-- Which server, and the two facts about the source the behaviour depends on. -/
structure Cfg where
  plain : Bool := false          -- SimpleJSONRPCServer (handlers on the serving thread) / PooledJSONRPCServer
  sharedWrites : Bool := false   -- the serve path stores into shared dispatcher state
  catchAll : Bool := true        -- the handlers around the method call and the exchange catch BaseException
deriving Repr, DecidableEq

structure Conn where
  body : Nat
  kind : Kind := .good
  keepAlive : Bool := false
  phase : Phase := .queued
  reply : Option Reply := none
  execs : Nat := 0               -- how many times the callable of the request was run
deriving Repr, DecidableEq

/-- The handler task of the connection has begun / has ended. -/
def Conn.started (c : Conn) : Bool := c.phase != .queued
def Conn.done (c : Conn) : Bool := c.phase == .closed

structure State where
  serving : Bool := false          -- PooledJSONRPCServer.__serving
  shutdownReq : Bool := false      -- BaseServer.__shutdown_request
  isShutDown : Bool := false       -- BaseServer.__is_shut_down (an Event, initially unset)
  socketOpen : Bool := true
  poolStopped : Bool := false
  spc : SPc := .notStarted
  cpc : CPc := .idle
  dpc : DPc := .idle
  conns : List Conn := []
  disp : Nat := 0                  -- shared dispatcher state read by every handler
  handling : Option Nat := none    -- plain server: the connection whose handler the serving thread is inside
deriving Repr, DecidableEq

inductive Action where
  | startServe                 -- environment: a thread begins serve_forever()
  | serveStep                  -- the serving thread executes its next step
  | accept (body : Nat) (kind : Kind) (keepAlive : Bool)
                               -- serving loop: a ready connection is accepted (pooled: handed to the pool)
  | handlerStart (i : Nat)     -- pooled: a pool worker begins connection i's handler task (it waits for the request)
  | request (i : Nat)          -- the request of connection i arrives and its handler reads it: in flight
  | handlerFinish (i : Nat)    -- the method returned or raised; the reply for that connection is written
  | clientClose (i : Nat)      -- the client drops a connection whose handler awaits a request; the handler returns
  | beginClose                 -- environment: a thread calls server_close()
  | closeStep                  -- the closing thread executes its next step
  | beginShutdown              -- environment: a thread calls shutdown() (only while serving)
  | shutdownStep
deriving Repr, DecidableEq

/-- Number of executions of the callable a completed request of this kind stands for. -/
def execOf : Kind → Nat
  | .malformed => 0
  | _ => 1

/-- The reply of the sequential dispatcher `f` (shared state, body ↦ value) to a request. -/
def replyOf (f : Nat → Nat → Nat) (d : Nat) (k : Kind) (body : Nat) : Reply :=
  match k with
  | .good => .result (f d body)
  | .notify => .empty
  | .failing => .error (f d body)
  | .fatal => .error (f d body)
  | .malformed => .parseError

/-- Plain server: the serving thread is inside a handler. -/
def busy (cfg : Cfg) (s : State) : Bool := cfg.plain && s.handling.isSome

/-- May the handler of connection `i` act?  (plain: only the one the serving thread is inside) -/
def mayRun (cfg : Cfg) (s : State) (i : Nat) : Bool := !cfg.plain || s.handling == some i

/-- One step; `f` is the sequential dispatcher. -/
def step? (cfg : Cfg) (f : Nat → Nat → Nat) (s : State) : Action → Option State
  | .startServe => if s.spc = .notStarted then some { s with spc := .setServing } else none
  | .serveStep =>
    match s.spc with
    | .setServing => some { s with serving := true, spc := .clearEvent }
    | .clearEvent =>
      -- selector.register(self) raises on a closed socket: straight to the `finally` clauses
      if s.socketOpen then some { s with isShutDown := false, spc := .loop }
      else some { s with isShutDown := false, spc := .exitResetReq }
    | .loop =>
      if busy cfg s then none                       -- plain: the thread is inside a handler
      else if s.shutdownReq then some { s with spc := .exitResetReq }
      else some s                                   -- select timed out
    | .exitResetReq => some { s with shutdownReq := false, spc := .exitSetEvent }
    | .exitSetEvent => some { s with isShutDown := true, spc := .clearServing }
    | .clearServing => some { s with serving := false, spc := .finished }
    | _ => none
  | .accept body kind ka =>
    if s.spc = .loop ∧ s.socketOpen = true ∧ s.poolStopped = false ∧ busy cfg s = false then
      some { s with conns := s.conns ++ [{ body := body, kind := kind, keepAlive := ka,
                                           phase := if cfg.plain then .awaiting else .queued }],
                    handling := if cfg.plain then some s.conns.length else s.handling }
    else none
  | .handlerStart i =>
    match s.conns[i]? with
    | some c =>
      if cfg.plain = false ∧ c.phase = .queued ∧ s.poolStopped = false then
        some { s with conns := s.conns.set i { c with phase := .awaiting } }
      else none
    | none => none
  | .request i =>
    match s.conns[i]? with
    | some c =>
      if mayRun cfg s i = true ∧ c.phase = .awaiting ∧ c.reply = none then
        some { s with conns := s.conns.set i { c with phase := .running },
                      disp := if cfg.sharedWrites then c.body else s.disp }
      else none
    | none => none
  | .handlerFinish i =>
    match s.conns[i]? with
    | some c =>
      if mayRun cfg s i = true ∧ c.phase = .running then
        if cfg.catchAll = true ∨ c.kind ≠ .fatal then
          -- result, or an error reply built by the `except` clauses; the loop of whoever ran the handler goes on
          some { s with conns := s.conns.set i { c with reply := some (replyOf f s.disp c.kind c.body),
                                                        execs := c.execs + execOf c.kind,
                                                        phase := if c.keepAlive then .awaiting else .closed },
                        handling := if c.keepAlive then s.handling else none }
        else
          -- (not the code as it is) the exception escapes: socketserver closes the connection without a reply and
          -- re-raises; on the plain server that is the serving thread, which leaves through its `finally` clauses
          some { s with conns := s.conns.set i { c with execs := c.execs + 1, phase := .closed },
                        handling := none,
                        spc := if cfg.plain then .exitResetReq else s.spc }
      else none
    | none => none
  | .clientClose i =>
    match s.conns[i]? with
    | some c =>
      if mayRun cfg s i = true ∧ c.phase = .awaiting then
        some { s with conns := s.conns.set i { c with phase := .closed }, handling := none }
      else none
    | none => none
  | .beginClose => if s.cpc = .idle then some { s with cpc := if cfg.plain then .closeSocket else .readServing } else none
  | .closeStep =>
    match s.cpc with
    | .readServing => some { s with cpc := if s.serving then .setReq else .closeSocket }
    | .setReq => some { s with shutdownReq := true, cpc := .waitEvent }
    | .waitEvent => if s.isShutDown then some { s with cpc := .closeSocket } else none
    | .closeSocket => some { s with socketOpen := false, cpc := if cfg.plain then .returned else .stopPool }
    | .stopPool =>
      -- ThreadPool.stop() joins the workers: it returns once every begun handler task has ended (C11); queued
      -- ones are dropped
      if s.conns.all (fun c => !c.started || c.done) then some { s with poolStopped := true, cpc := .returned } else none
    | _ => none
  | .beginShutdown =>
    -- legal use: the server is serving (the loop has been entered and not left)
    if s.dpc = .idle ∧ s.spc = .loop then some { s with dpc := .setReq } else none
  | .shutdownStep =>
    match s.dpc with
    | .setReq => some { s with shutdownReq := true, dpc := .waitEvent }
    | .waitEvent => if s.isShutDown then some { s with dpc := .returned } else none
    | _ => none

def init : State := {}

inductive Reach (cfg : Cfg) (f : Nat → Nat → Nat) : State → Prop where
  | init : Reach cfg f init
  | step {s s' : State} (a : Action) : Reach cfg f s → step? cfg f s a = some s' → Reach cfg f s'

/-- Run a list of actions from a state (for the driver and for examples). -/
def run (cfg : Cfg) (f : Nat → Nat → Nat) : State → List Action → Option State
  | s, [] => some s
  | s, a :: rest => match step? cfg f s a with
    | some s' => run cfg f s' rest
    | none => none

/-- **In flight** (the reading of the property adopted here): an accepted connection whose handler has begun counts
    as in flight until its request has been answered or the client has disconnected — whether the handler is still
    waiting for / reading the request (`awaiting`) or dispatching it (`running`).  Stop operations wait for it: that is
    stdlib `socketserver` semantics (the handler holds its thread until the exchange is over). -/
def inFlight (s : State) : Bool := s.conns.any fun c => c.phase == .awaiting || c.phase == .running

/-- A request is being dispatched (its method is executing). -/
def executing (s : State) : Bool := s.conns.any fun c => c.phase == .running

/-- An idle connection: its handler holds a worker while waiting for the client to send (or to go away). -/
def idleConn (s : State) : Bool := s.conns.any fun c => c.phase == .awaiting

end JRV.SL
