/-
  JRV.Model.ServerLife — life cycle of a (pooled) JSON-RPC server (C12).

  Environment model of `socketserver.BaseServer` (CPython 3.12), assumed and observed on real sockets:
    serve_forever : is_shut_down.clear(); loop { select(poll); if shutdown_request: break; handle ready
                    connection }; finally: shutdown_request = False; is_shut_down.set()
    shutdown      : shutdown_request = True; is_shut_down.wait()        (the event starts *unset*)
  Library code transcribed (`PooledJSONRPCServer`, as repaired):
    serve_forever : self.__serving = True; try: BaseServer.serve_forever() finally: self.__serving = False
    process_request: pool.enqueue(handler task for that connection)
    server_close  : if self.__serving: shutdown(); close the listening socket; pool.stop()
  The request pool is abstracted to what C09–C11 establish about it: every accepted handler task runs exactly
  once, and `stop()` returns once the running tasks have finished, after which no worker is alive.

  One serving thread at most (the property's life-cycle histories serve once); any number of connections; any
  interleaving of the serving thread, the closing thread, an optional external `shutdown()` caller and the
  handler tasks.  A handler task computes `f body` for its own connection only (`f` = the sequential dispatcher).
-/
import JRV.Model.Json

namespace JRV.SL

/-- Program counter of the serving thread. -/
inductive SPc where
  | notStarted | setServing | clearEvent | loop | exitResetReq | exitSetEvent | clearServing | finished
deriving Repr, DecidableEq

/-- Program counter of the thread calling `server_close()`. -/
inductive CPc where
  | idle | readServing | setReq | waitEvent | closeSocket | stopPool | returned
deriving Repr, DecidableEq

/-- Program counter of an external `shutdown()` caller (only legal while serving). -/
inductive DPc where
  | idle | setReq | waitEvent | returned
deriving Repr, DecidableEq

/-- A connection: its request body, whether its handler task is queued / running / done, the reply written. -/
structure Conn where
  body : Nat
  started : Bool := false
  reply : Option Nat := none
deriving Repr, DecidableEq

structure State where
  serving : Bool := false          -- PooledJSONRPCServer.__serving
  shutdownReq : Bool := false      -- BaseServer.__shutdown_request
  isShutDown : Bool := false       -- BaseServer.__is_shut_down (an Event, initially unset)
  socketOpen : Bool := true
  poolStopped : Bool := false
  spc : SPc := .notStarted
  cpc : CPc := .idle
  dpc : DPc := .idle
  conns : List Conn := []
deriving Repr, DecidableEq

inductive Action where
  | startServe                 -- environment: a thread begins serve_forever()
  | serveStep                  -- the serving thread executes its next step
  | accept (body : Nat)        -- serving loop: a ready connection is handed to the pool (process_request)
  | handlerStart (i : Nat)     -- a pool worker begins connection i's handler task
  | handlerFinish (i : Nat)    -- … and finishes it, writing the reply for that connection
  | beginClose                 -- environment: a thread calls server_close()
  | closeStep                  -- the closing thread executes its next step
  | beginShutdown              -- environment: a thread calls shutdown() (only while serving)
  | shutdownStep
deriving Repr, DecidableEq

def setConn (cs : List Conn) (i : Nat) (c : Conn) : List Conn := cs.set i c

/-- One step; `f` is the sequential dispatcher (reply as a function of the body). -/
def step? (f : Nat → Nat) (s : State) : Action → Option State
  | .startServe => if s.spc = .notStarted then some { s with spc := .setServing } else none
  | .serveStep =>
    match s.spc with
    | .setServing => some { s with serving := true, spc := .clearEvent }
    | .clearEvent =>
      -- selector.register(self) raises on a closed socket: straight to the `finally` clauses
      if s.socketOpen then some { s with isShutDown := false, spc := .loop }
      else some { s with isShutDown := false, spc := .exitResetReq }
    | .loop => if s.shutdownReq then some { s with spc := .exitResetReq } else some s   -- select timed out
    | .exitResetReq => some { s with shutdownReq := false, spc := .exitSetEvent }
    | .exitSetEvent => some { s with isShutDown := true, spc := .clearServing }
    | .clearServing => some { s with serving := false, spc := .finished }
    | _ => none
  | .accept body =>
    if s.spc = .loop ∧ s.socketOpen ∧ ¬ s.poolStopped then some { s with conns := s.conns ++ [{ body := body }] } else none
  | .handlerStart i =>
    match s.conns[i]? with
    | some c => if ¬ c.started ∧ ¬ s.poolStopped then some { s with conns := setConn s.conns i { c with started := true } } else none
    | none => none
  | .handlerFinish i =>
    match s.conns[i]? with
    | some c => if c.started ∧ c.reply = none then some { s with conns := setConn s.conns i { c with reply := some (f c.body) } } else none
    | none => none
  | .beginClose => if s.cpc = .idle then some { s with cpc := .readServing } else none
  | .closeStep =>
    match s.cpc with
    | .readServing => some { s with cpc := if s.serving then .setReq else .closeSocket }
    | .setReq => some { s with shutdownReq := true, cpc := .waitEvent }
    | .waitEvent => if s.isShutDown then some { s with cpc := .closeSocket } else none
    | .closeSocket => some { s with socketOpen := false, cpc := .stopPool }
    | .stopPool =>
      -- ThreadPool.stop() returns once every started handler has finished (C11); queued ones are dropped
      if s.conns.all (fun c => !c.started || c.reply.isSome) then some { s with poolStopped := true, cpc := .returned } else none
    | _ => none
  | .beginShutdown =>
    -- legal use: the server is serving (the loop has been entered and not left)
    if s.dpc = .idle ∧ s.spc = .loop then some { s with dpc := .setReq } else none
  | .shutdownStep =>
    match s.dpc with
    | .setReq => some { s with shutdownReq := true, dpc := .waitEvent }
    | .waitEvent => if s.isShutDown then some { s with dpc := .returned } else none
    | _ => none

def init : State := {}

inductive Reach (f : Nat → Nat) : State → Prop where
  | init : Reach f init
  | step {s s' : State} (a : Action) : Reach f s → step? f s a = some s' → Reach f s'

/-- Run a list of actions from a state (for the driver and for examples). -/
def run (f : Nat → Nat) : State → List Action → Option State
  | s, [] => some s
  | s, a :: rest => match step? f s a with
    | some s' => run f s' rest
    | none => none

/-- A handler task is inside its body. -/
def inFlight (s : State) : Bool := s.conns.any fun c => c.started && c.reply.isNone

end JRV.SL
