/-
  JRV.Model.Transport — the client transport under faults (C19): the cached connection of
  `xmlrpc.client.Transport` as used by `jsonrpclib.jsonrpc.TransportMixIn.single_request`.

  Library logic transcribed:
    * `Transport.request`: at most two attempts; the second only after a disconnect-class error
      (`RemoteDisconnected`, `ECONNRESET`, `ECONNABORTED`, `EPIPE`) of the first;
    * `single_request`: any exception ⇒ `self.close()` (cache dropped) and re-raise; status `== 200` ⇒ parse the
      body; any other status ⇒ raise `TransportError(url, status, …)` after draining the body *when a
      Content-Length is announced* (`Lib.drain`; `Lib.closeNoLen`: a variant of the code that closes the connection
      when none is announced — the theorems hold for every value of both switches, the harness passes the values
      extracted from the source);
    * `_run_request`: empty body ⇒ `None` (then `None["result"]` raises `TypeError` in `_request`);
      otherwise `loads` (non-JSON ⇒ `ValueError`) and `check_for_errors`.
  Environment model (http.client + peer + kernel), assumed and differentially tested against real sockets:
    * replies are framed by Content-Length; what a response's buffered reader has read ahead beyond its own
      reply is discarded when the response is closed (so surplus bytes that arrive *together with* a reply are
      harmless), while bytes that arrive *after* the response was consumed stay unread on the connection
      (`Conn.inbound`) and are what the next `getresponse` parses first;
    * a `stale` flag (the peer has closed its end: the next use fails with a disconnect-class error while
      sending) and a `pending` flag (http.client still holds an unread response and refuses the next
      `getresponse` with `ResponseNotReady`);
    * the peer consumes one behaviour of the call's script for every request it actually reads;
    * a reply may be delivered IN PIECES (`Beh.scripted`): informational 1xx responses first, pauses after the status
      line, after the header block, inside the body and before surplus bytes, each pause lasting until the client has
      acted (its call returned, or it blocks reading).  http.client skips `100 Continue`, hands every other 1xx to the
      caller as a bodiless response, blocks through pauses inside a head or inside the announced length; a response
      read to its announced length is closed (read-ahead discarded); a body that ends before the announced length
      because the peer closes raises `IncompleteRead` out of `response.read()` — in `single_request` that call sits
      OUTSIDE the close-on-error handler, the dead connection stays cached (found out and replaced by the next call).
-/
import JRV.Model.Json

namespace JRV.Transport

/-- The only status `single_request` treats as success: `if response.status == 200`. -/
def successStatus : Nat := 200

/-- Statuses whose reply may carry a body and is not a success: not 200, and not one of those for which
    http.client ignores the body (1xx, 204, 304). -/
def bodyStatus (n : Nat) : Bool := n != successStatus && n != 204 && n != 304 && decide (200 ≤ n)

/-- A non-200 status code of a reply with a body (201, 202, 206, 3xx, 4xx, 5xx, …). -/
structure ErrCode where
  n : Nat
  h : bodyStatus n = true
deriving DecidableEq, Repr

/-- What the body of a non-200 reply looks like.  The client must not care. -/
inductive Body where
  | text       -- not JSON
  | own        -- a well-formed JSON-RPC result for the token of this very call
  | foreign    -- a well-formed JSON-RPC result for another token
  | errObj     -- a JSON-RPC error object
  | httpReply  -- a complete HTTP 200 reply carrying a JSON-RPC result for another token
  -- what error pages of front-end servers, proxies and broken peers really hold:
  | empty        -- no byte at all (`Content-Length: 0`, an empty chunked body, an immediate close)
  | huge         -- tens of KiB of text
  | html         -- an HTML page in UTF-8 with non-ASCII characters
  | latin1       -- an HTML page in ISO-8859-1 with accented letters: not UTF-8
  | gzipDeclared -- gzip-compressed bytes announced by `Content-Encoding: gzip` (the client sends `Accept-Encoding: gzip`)
  | gzipBare     -- gzip-compressed bytes without the header
  | binary       -- arbitrary bytes (NUL, 0xFF, lone continuation bytes)
  | cutChar      -- UTF-8 text ending in the middle of a multi-byte character
  | utf16        -- UTF-16 text with a byte-order mark
deriving Repr, DecidableEq

/-- What the JSON text of a HEALTHY 200 reply looks like on the wire.  The client must return the same result for all
    of them: `Content-Length` counts bytes, `JSONTarget.close` joins the chunks and decodes them as UTF-8 once. -/
inductive OkText where
  | ascii        -- 7-bit only: what the bundled server (stdlib json, `ensure_ascii=True`, short strings) sends
  | rawUtf8      -- 2-, 3- and 4-byte characters sent raw (`ensure_ascii=False`, orjson, ujson, …): bytes ≠ characters
  | escaped      -- the same characters as `\uXXXX` escapes (surrogate pairs included)
  | mixed        -- raw and escaped characters in one document
  | spaced       -- indented, with line feeds and blanks around the document, raw characters
  | huge         -- tens of KiB of raw multi-byte text: many reads, characters straddling the read boundaries
  | gzip         -- the raw document gzip-compressed, announced by `Content-Encoding: gzip` (the client asks for it)
deriving Repr, DecidableEq

/-- A 200 reply whose body is NOT JSON text.  The JSON-shaped ones carry the damage inside the result: a client that
    returns anything for them has made the value up. -/
inductive BadText where
  | html         -- an HTML page (valid UTF-8, not JSON)
  | latin1       -- the document encoded in ISO-8859-1 (`caf\xe9`): not UTF-8
  | cutChar      -- a multi-byte character cut in half inside a string
  | loneCont     -- a lone continuation byte inside a string
  | overlong     -- an over-long encoding (`\xc0\xaf`)
  | binary       -- arbitrary bytes
  | gzipBare     -- gzip-compressed bytes without `Content-Encoding`
  | trailing     -- a complete document followed by bytes that are not UTF-8
deriving Repr, DecidableEq

/-- How a 200 reply is framed. -/
inductive Framing where
  | length       -- Content-Length (in bytes), keep-alive
  | noLength     -- no length header: the body ends when the peer closes
  | chunked      -- chunked transfer encoding, keep-alive
  | lengthClose  -- Content-Length and `Connection: close`: the peer closes afterwards
deriving Repr, DecidableEq

/-- Whether the connection survives the reply (otherwise http.client hands the socket to the response — `will_close` —
    and the cached HTTPConnection reconnects on its next use). -/
def Framing.keeps : Framing → Bool
  | .length => true
  | .chunked => true
  | .noLength => false
  | .lengthClose => false

/-- The two places where harmless variants of `single_request` differ (read from the source by the extractor). -/
structure Lib where
  drain : Bool        -- `if response.getheader("content-length", 0): response.read()`
  closeNoLen : Bool   -- `else: self.close()` (absent in the code as it stands)
deriving Repr, DecidableEq

/-- An informational response (no body, no length header: RFC 9110) sent before the final one.  `cut`: the peer pauses
    after it until the client has acted. -/
inductive Info where
  | continue100 (cut : Bool)            -- `100 Continue`: skipped by http.client
  | other (early : Bool) (cut : Bool)   -- `103 Early Hints` / `102 Processing`: http.client returns it as THE response
deriving Repr, DecidableEq

def infoCode (early : Bool) : Nat := if early then 103 else 102

/-- The status the client is shown when informational responses precede the final one: that of the first which is not
    `100 Continue`, if any. -/
def firstOther : List Info → Option Nat
  | [] => none
  | .continue100 _ :: r => firstOther r
  | .other early _ :: _ => some (infoCode early)

/-- The bytes sent after the header block, against the announced Content-Length. -/
inductive Delta where
  | exact
  | long (late : Bool)   -- surplus bytes behind the body; `late`: after a pause, otherwise in the segment of the last body byte
  | short                -- fewer bytes than announced, then the peer closes the connection
deriving Repr, DecidableEq

/-- The final response of a reply delivered in pieces. -/
inductive Final where
  | ok (d : Delta)                                                -- 200 + own result, Content-Length announced
  | status (code : ErrCode) (body : Body) (len : Option Delta)    -- `none`: no length header, the peer closes after the body
  | bodiless (notModified : Bool) (len : Bool)                    -- 204/304, `Content-Length: 0` or no length header
deriving Repr, DecidableEq

/-- Where the peer pauses inside the final response: after the status line, after the header block (before the
    first body byte), in the middle of the body. -/
structure Cuts where
  line : Bool
  head : Bool
  body : Bool
deriving Repr, DecidableEq

/-- Whether the peer closes the connection after the final response. -/
def Final.closes : Final → Bool
  | .ok .short => true
  | .status _ _ none => true
  | .status _ _ (some .short) => true
  | _ => false

structure Reply where
  infos : List Info
  final : Final
  cuts : Cuts
deriving Repr, DecidableEq

/-- The fault alphabet of the scripted peer. -/
inductive Beh where
  | okKeep                 -- 200 + own result, connection kept alive
  | okClose                -- 200 + own result, then the peer closes the connection silently
  | down                   -- peer not listening and all its connections closed: connect is refused
  | closeBeforeReply       -- request read, connection closed without a reply
  | reset                  -- request read, connection reset
  | status (code : ErrCode) (len : Bool) (body : Body)
                           -- non-200 status with a body; `len`: Content-Length announced and keep-alive,
                           -- otherwise no length header and the peer closes
  | bodiless (notModified : Bool) (len : Bool)
                           -- 204 (or 304) without a body, keep-alive; `len`: `Content-Length: 0` announced or no header
  | truncated              -- 200 with a Content-Length larger than the bytes sent, then close
  | empty200               -- 200 with an empty body
  | nonJson200             -- 200 with a body that is not JSON
  | okExtraNow (k : Nat)   -- 200 + own result and, in the same segment, an unsolicited complete reply carrying token k
  | okThenLate (k : Nat)   -- 200 + own result; an unsolicited complete reply (token k) arrives after the client
                           -- has consumed its own: NOT a fault of the property's alphabet (the peer breaks HTTP framing)
  | statusLongNow (code : ErrCode)
                           -- non-200, body longer than the announced Content-Length, all in one segment
  | statusLongLate (code : ErrCode) (reply : Option Nat)
                           -- the same, the surplus bytes arrive late; optionally followed by a complete reply (token)
  | scripted (r : Reply)   -- a reply delivered in pieces (every reply above without late bytes is one piece)
  | statusChunked (code : ErrCode) (body : Body)
                           -- non-200 status whose body travels in chunked transfer encoding (no Content-Length
                           -- header), connection kept alive
  | statusLenClose (code : ErrCode) (body : Body)
                           -- non-200 status with a Content-Length AND `Connection: close`: the peer closes afterwards
  | okBody (text : OkText) (fr : Framing)
                           -- HEALTHY: 200 + own result, the JSON text spelled / sized / coded as `text`, framed as `fr`
  | badBody200 (text : BadText) (fr : Framing)
                           -- 200 whose body is not JSON text (`nonJson200` is `badBody200 .html .length`)
deriving Repr, DecidableEq

/-- The status of a bodiless reply. -/
def bodilessCode (notModified : Bool) : Nat := if notModified then 304 else 204

/-- Unread data sitting on a connection when a call begins. -/
inductive Item where
  | junk                   -- bytes that do not start an HTTP status line
  | reply (tok : Nat)      -- a complete, well-formed 200 reply carrying the result `tok`
deriving Repr, DecidableEq

structure Conn where
  stale : Bool := false
  pending : Bool := false
  inbound : List Item := []     -- unread data, oldest first
  desync : Bool := false        -- an unsolicited reply has been consumed instead of an answer: from here on what
                                -- the client reads depends on kernel timing; the model declines ("Unmodelled")
deriving Repr, DecidableEq

abbrev Cache := Option Conn

inductive Outcome where
  | result (tok : Nat)              -- the call returned the result carrying this token
  | transportError (code : Nat)     -- TransportError(url, code, …)
  | other (kind : String)           -- any other exception, by family
deriving Repr, DecidableEq

/-- Result of one `single_request`. -/
inductive Att where
  | done (o : Outcome) (c : Cache)
  | retryable                        -- disconnect-class error: cache dropped, `request` may try again
deriving Repr, DecidableEq

/-- After a non-success reply that announces a length: drained (reusable) or left unread. -/
def afterLength (lib : Lib) (c : Conn) : Cache :=
  if lib.drain then some c else some { c with pending := true }

/-- After a 200 reply read to its end: the connection as it was, or none when the reply ends it. -/
def afterOk (fr : Framing) (c : Conn) : Cache := if fr.keeps then some c else none

/-- Surplus bytes sent after a pause stay unread on the connection; in the segment of the last body byte they are read
    ahead and discarded with the response. -/
def surplusLeft (late : Bool) (c : Conn) : Conn := if late then { c with inbound := [.junk] } else c

/-- A reply delivered in pieces on a connection with nothing unread.  The pauses inside the final response (`r.cuts`,
    the `cut` of a `100 Continue`) do not appear: the client blocks through them (validated on real sockets) — what
    matters is what is sent after the client has finished with the exchange. -/
def deliver (lib : Lib) (c : Conn) (tok : Nat) (r : Reply) : Att :=
  match firstOther r.infos with
  | some code =>
    -- a bodiless response without a length header: not drained, left unread (whatever follows it on the wire is
    -- dropped with the connection when the next use fails); when the peer closes after the final response the
    -- dead socket is noticed first (while sending) and the request is re-sent on a new connection (dead AND unread:
    -- which is noticed first is kernel timing, as for a bodiless status followed by `down`; the harness does not
    -- generate it, both outcomes are an exception or the call's own result and both recover)
    .done (.transportError code) (if lib.closeNoLen then none else some { c with pending := true, stale := r.final.closes })
  | none =>
    match r.final with
    | .ok .exact => .done (.result tok) (some c)
    | .ok (.long late) => .done (.result tok) (some (surplusLeft late c))
    | .ok .short => .done (.other "decode") (some { c with stale := true })            -- as `truncated`
    | .status code _ none => .done (.transportError code.n) none                       -- will_close
    | .status code _ (some .exact) => .done (.transportError code.n) (afterLength lib c)
    | .status code _ (some (.long late)) => .done (.transportError code.n) ((afterLength lib c).map (surplusLeft late))
    | .status code _ (some .short) =>
      -- draining hits the end of the stream: IncompleteRead, raised outside the close-on-error handler
      if lib.drain then .done (.other "incomplete") (some { c with stale := true })
      else .done (.transportError code.n) (some { c with pending := true, stale := true })
    | .bodiless nm true => .done (.transportError (bodilessCode nm)) (afterLength lib c)
    | .bodiless nm false =>
      .done (.transportError (bodilessCode nm)) (if lib.closeNoLen then none else some { c with pending := true })

/-- One request/response exchange on a usable connection `c`: the peer reads the request carrying
    `tok` and applies behaviour `b`; the client then processes what it receives. -/
def exchange (lib : Lib) (c : Conn) (tok : Nat) (b : Beh) : Att :=
  match c.inbound with
  | .junk :: _ =>
    -- the unread bytes are glued in front of whatever comes next: BadStatusLine, an unexpected error ⇒ close();
    -- everything else that was unread goes with the connection
    .done (.other "http-garbage") none
  | .reply t :: rest =>
    -- a complete reply is waiting: it is taken for the answer (no check of the reply id); the real answer stays behind
    .done (.result t) (some { c with inbound := rest, desync := true })
  | [] =>
    match b with
    | .okKeep => .done (.result tok) (some c)
    | .okClose => .done (.result tok) (some { c with stale := true })
    | .down => .retryable
    | .closeBeforeReply => .retryable
    | .reset => .retryable
    | .status code true _ => .done (.transportError code.n) (afterLength lib c)
    | .status code false _ => .done (.transportError code.n) none       -- http.client closes it (will_close)
    | .bodiless nm true => .done (.transportError (bodilessCode nm)) (afterLength lib c)  -- read() of 0 bytes completes it
    | .bodiless nm false =>
      .done (.transportError (bodilessCode nm)) (if lib.closeNoLen then none else some { c with pending := true })
    -- the partial body is handed to the JSON parser (read(amt) does not raise IncompleteRead): ValueError
    -- after a normally completed single_request; the connection stays cached although the peer closed it
    | .truncated => .done (.other "decode") (some { c with stale := true })
    | .empty200 => .done (.other "empty") (some c)                      -- TypeError after a clean exchange
    | .nonJson200 => .done (.other "decode") (some c)                   -- ValueError after a clean exchange
    | .okExtraNow _ => .done (.result tok) (some c)                     -- read ahead, discarded with the response
    | .okThenLate k => .done (.result tok) (some { c with inbound := [.reply k] })
    | .statusLongNow code => .done (.transportError code.n) (afterLength lib c)
    | .statusLongLate code r =>
      .done (.transportError code.n)
        ((afterLength lib c).map fun c' => { c' with inbound := .junk :: (r.map Item.reply).toList })
    | .scripted r => deliver lib c tok r
    -- no Content-Length header: `response.getheader("content-length", 0)` is falsy, nothing is read; the response is
    -- framed (chunked) and the connection kept alive, so http.client still holds it unread — as for a bodiless status
    | .statusChunked code _ =>
      .done (.transportError code.n) (if lib.closeNoLen then none else some { c with pending := true })
    -- `Connection: close`: http.client hands the socket over to the response (will_close) and forgets it; the cached
    -- HTTPConnection reconnects on its next use — read or unread, nothing of this exchange can reach a later call
    | .statusLenClose code _ => .done (.transportError code.n) none
    -- the whole body (to the announced number of BYTES, to the last chunk, to the close) is joined, decoded once as
    -- UTF-8 (after gzip decoding when announced) and parsed: the result of this call, whatever the text looks like
    | .okBody _ fr => .done (.result tok) (afterOk fr c)
    -- strict decoding / parsing fails: ValueError (UnicodeDecodeError, JSONDecodeError) after a clean exchange
    | .badBody200 _ fr => .done (.other "decode") (afterOk fr c)

/-- `single_request` on the cached connection (or a new one). Returns the attempt's result and the
    behaviours the peer has not consumed. -/
def attempt (lib : Lib) (cache : Cache) (tok : Nat) (bs : List Beh) : Att × List Beh :=
  match cache with
  | some c =>
    if c.desync then (.done (.other "Unmodelled") (some c), [])         -- declined, see `Conn.desync`
    -- a dead socket is noticed while sending (headers and body are two sends), before `getresponse`
    else if c.stale then (.retryable, bs)                               -- the peer never sees the request
    else if c.pending then (.done (.other "http-state") none, [])      -- ResponseNotReady → close()
    else match bs with
      | b :: rest => (exchange lib c tok b, rest)
      | [] => (exchange lib c tok .okKeep, [])
  | none =>
    match bs with
    | .down :: rest => (.done (.other "refused") none, rest)
    | b :: rest => (exchange lib {} tok b, rest)
    | [] => (exchange lib {} tok .okKeep, [])

/-- `Transport.request`: the call with token `tok`, the peer following script `bs` for this call. -/
def call (lib : Lib) (cache : Cache) (tok : Nat) (bs : List Beh) : Outcome × Cache :=
  -- a peer that is down has also dropped its connections
  let cache := if bs.head? = some .down then cache.map (fun c => { c with stale := true }) else cache
  match attempt lib cache tok bs with
  | (.done o c, _) => (o, c)
  | (.retryable, bs') =>
    match attempt lib none tok bs' with
    | (.done o c, _) => (o, c)
    | (.retryable, _) => (.other "disconnected", none)

/-- A session: calls numbered from `tok`, each with its script. -/
def session (lib : Lib) (cache : Cache) (tok : Nat) : List (List Beh) → List Outcome × Cache
  | [] => ([], cache)
  | bs :: rest =>
    let (o, c) := call lib cache tok bs
    let (os, c') := session lib c (tok + 1) rest
    (o :: os, c')

/-- The body of a non-200 reply replaced by plain text (see `C19_error_body_irrelevant`): the code never looks at it. -/
def Final.eraseBody : Final → Final
  | .status code _ len => .status code .text len
  | f => f

def Beh.eraseBody : Beh → Beh
  | .status code len _ => .status code len .text
  | .statusChunked code _ => .statusChunked code .text
  | .statusLenClose code _ => .statusLenClose code .text
  | .scripted r => .scripted { r with final := r.final.eraseBody }
  | b => b

/-- Behaviours of a peer that respects HTTP framing at least so far that it never leaves a *complete
    unsolicited reply* at the head of the unread data: everything but `okThenLate`. -/
def Beh.framed : Beh → Bool
  | .okThenLate _ => false
  | _ => true

/-- A healthy exchange delivered in pieces: 200 + own result of the announced length, possibly after `100 Continue`
    responses, with pauses anywhere. -/
def Reply.healthy (r : Reply) : Bool :=
  (firstOther r.infos).isNone && (match r.final with | .ok .exact => true | _ => false)

/-- Healthy exchanges: the reply holds the call's own result as well-formed JSON text — whatever characters it
    holds, however they are spelled, however long it is, gzip-coded or not, however it is framed. -/
def Beh.healthy : Beh → Bool
  | .okKeep => true
  | .okClose => true
  | .okBody _ _ => true
  | .scripted r => r.healthy
  | _ => false

/-- Connection states in which no foreign reply can be taken for an answer: nothing unread, or unread bytes that
    cannot be parsed as a reply (they make the next use fail and the library drop the connection). -/
def Conn.safe (c : Conn) : Bool :=
  !c.desync && (match c.inbound with
    | [] => true
    | .junk :: _ => true
    | .reply _ :: _ => false)

def Cache.safe : Cache → Bool
  | none => true
  | some c => c.safe

/-- Connection states from which a healthy exchange succeeds at once. -/
def Cache.good : Cache → Bool
  | none => true
  | some c => !c.desync && c.inbound.isEmpty && !c.pending

end JRV.Transport
