/-
  JRV.Model.Transport — the client transport under faults (C19): the cached connection of
  `xmlrpc.client.Transport` as used by `jsonrpclib.jsonrpc.TransportMixIn.single_request`.

  Library logic transcribed:
    * `Transport.request`: at most two attempts; the second only after a disconnect-class error
      (`RemoteDisconnected`, `ECONNRESET`, `ECONNABORTED`, `EPIPE`) of the first;
    * `single_request`: any exception ⇒ `self.close()` (cache dropped) and re-raise; status 200 ⇒ parse the
      body; other status ⇒ drain the body *when a Content-Length is announced*, raise `TransportError`;
    * `_run_request`: empty body ⇒ `None` (then `None["result"]` raises `TypeError` in `_request`);
      otherwise `loads` (non-JSON ⇒ `ValueError`) and `check_for_errors`.
  Environment model (http.client + peer + kernel), assumed and differentially tested against real sockets:
    * a connection has an inbound queue of complete replies (tagged with the token of the request the peer
      answered), a `stale` flag (the peer has closed its end) and a `pending` flag (http.client still holds an
      unread response and will refuse the next `getresponse` with `ResponseNotReady`);
    * the peer consumes one behaviour of the call's script for every request it actually reads.
-/
import JRV.Model.Json

namespace JRV.Transport

/-- The fault alphabet of the scripted peer. -/
inductive Beh where
  | okKeep                 -- 200 + own result, connection kept alive
  | okClose                -- 200 + own result, then the peer closes the connection silently
  | down                   -- peer not listening and all its connections closed: connect is refused
  | closeBeforeReply       -- request read, connection closed without a reply
  | reset                  -- request read, connection reset
  | statusLen (code : Nat) -- non-200 status with Content-Length and a body, keep-alive
  | statusNoLenClose (code : Nat)  -- non-200 status without length, then close
  | bodiless (code : Nat)  -- bodiless status (e.g. 204) without a length header, keep-alive
  | truncated              -- 200 with a Content-Length larger than the bytes sent, then close
  | empty200               -- 200 with an empty body
  | nonJson200             -- 200 with a body that is not JSON
deriving Repr, DecidableEq

structure Conn where
  stale : Bool := false
  pending : Bool := false
  inbound : List Nat := []      -- tokens of complete, unread replies
deriving Repr, DecidableEq

abbrev Cache := Option Conn

inductive Outcome where
  | result (tok : Nat)              -- the call returned the result carrying this token
  | transportError (code : Nat)     -- TransportError(url, code, …)
  | other (kind : String)           -- any other exception, by family
deriving Repr, DecidableEq

/-- Result of one `single_request`. -/
inductive Att where
  | done (o : Outcome) (c : Cache)
  | retryable                        -- disconnect-class error: cache dropped, `request` may try again
deriving Repr, DecidableEq

/-- One request/response exchange on a usable connection `c`: the peer reads the request carrying
    `tok` and applies behaviour `b`; the client then processes what it receives. -/
def exchange (c : Conn) (tok : Nat) (b : Beh) : Att :=
  match b with
  | .okKeep =>
    match c.inbound ++ [tok] with
    | t :: rest => .done (.result t) (some { c with inbound := rest })
    | [] => .retryable
  | .okClose =>
    match c.inbound ++ [tok] with
    | t :: rest => .done (.result t) (some { c with inbound := rest, stale := true })
    | [] => .retryable
  | .down => .retryable
  | .closeBeforeReply => .retryable
  | .reset => .retryable
  | .statusLen code => .done (.transportError code) (some c)          -- body drained: reusable
  | .statusNoLenClose code => .done (.transportError code) none       -- http.client closes it (will_close)
  | .bodiless code => .done (.transportError code) (some { c with pending := true })
  -- the partial body is handed to the JSON parser (read(amt) does not raise IncompleteRead): ValueError
  -- after a normally completed single_request; the connection stays cached although the peer closed it
  | .truncated => .done (.other "decode") (some { c with stale := true })
  | .empty200 => .done (.other "empty") (some c)                      -- TypeError after a clean exchange
  | .nonJson200 => .done (.other "decode") (some c)                   -- ValueError after a clean exchange

/-- `single_request` on the cached connection (or a new one). Returns the attempt's result and the
    behaviours the peer has not consumed. -/
def attempt (cache : Cache) (tok : Nat) (bs : List Beh) : Att × List Beh :=
  match cache with
  | some c =>
    -- a dead socket is noticed while sending (headers and body are two sends), before `getresponse`
    if c.stale then (.retryable, bs)                                   -- the peer never sees the request
    else if c.pending then (.done (.other "http-state") none, [])     -- ResponseNotReady → close()
    else match bs with
      | b :: rest => (exchange c tok b, rest)
      | [] => (exchange c tok .okKeep, [])
  | none =>
    match bs with
    | .down :: rest => (.done (.other "refused") none, rest)
    | b :: rest => (exchange {} tok b, rest)
    | [] => (exchange {} tok .okKeep, [])

/-- `Transport.request`: the call with token `tok`, the peer following script `bs` for this call. -/
def call (cache : Cache) (tok : Nat) (bs : List Beh) : Outcome × Cache :=
  -- a peer that is down has also dropped its connections
  let cache := if bs.head? = some .down then cache.map (fun c => { c with stale := true }) else cache
  match attempt cache tok bs with
  | (.done o c, _) => (o, c)
  | (.retryable, bs') =>
    match attempt none tok bs' with
    | (.done o c, _) => (o, c)
    | (.retryable, _) => (.other "disconnected", none)

/-- A session: calls numbered from `tok`, each with its script. -/
def session (cache : Cache) (tok : Nat) : List (List Beh) → List Outcome × Cache
  | [] => ([], cache)
  | bs :: rest =>
    let (o, c) := call cache tok bs
    let (os, c') := session c (tok + 1) rest
    (o :: os, c')

/-- Cache states the library can be in between calls: no unread data ever stays behind. -/
def Cache.clean : Cache → Bool
  | none => true
  | some c => c.inbound.isEmpty

end JRV.Transport
