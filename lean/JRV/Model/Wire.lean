/-
  JRV.Model.Wire — bytes on the wire: `utils.to_bytes/from_bytes`, the client's response
  buffering (`JSONTarget`), the server's chunked body read (`do_POST`), the reply of `do_POST` for
  every way its `try` block ends (200 with a text / "" / `None`, 500 with the fault text), CGI
  framing for the codecs `encoding=` may name (UTF-8, ascii, latin-1; others `Unmodelled`),
  request target and URL scheme checks of `ServerProxy.__init__`/`_run_request`.

  Bytes are `List UInt8` (so that read splitting is `take`/`drop`); UTF-8 is Lean core's verified
  codec (`String.toUTF8`, `String.fromUTF8?`).  `urlparse` and gzip are CPython: the model starts
  from a parsed URL record and from the decompressed byte stream.
-/
import JRV.Model.Json
import JRV.Model.Headers

namespace JRV.Wire
open JRV

abbrev Bytes := List UInt8

/-- `utils.to_bytes(string)`: `bytes(string, "UTF-8")`. -/
def toBytes (s : String) : Bytes := s.toUTF8.data.toList

/-- `utils.from_bytes(data)`: `str(data, "UTF-8")`, raising `UnicodeDecodeError` on invalid input. -/
def fromBytes (b : Bytes) : PyM String :=
  match String.fromUTF8? b.toByteArray with
  | some s => pure s
  | none => raise "UnicodeDecodeError"

/- ---------- client: JSONTarget ---------- -/

/-- What `JSONTarget.close()` returns: text, or the raw bytes when decoding fails
    (`except (TypeError, ValueError): pass`). -/
inductive Closed where
  | text (s : String)
  | raw (b : Bytes)
deriving Repr, DecidableEq

/-- `feed` appends raw chunks; `close` joins them and decodes once. -/
def clientClose (chunks : List Bytes) : Closed :=
  if chunks.isEmpty then .text ""
  else match fromBytes chunks.flatten with
    | .ok s => .text s
    | .error _ => .raw chunks.flatten

/-- What decoding chunk by chunk would give (NOT what the code does): used to state why the order
    join-then-decode matters. -/
def decodeChunkwise (chunks : List Bytes) : PyM String :=
  chunks.foldlM (fun acc c => do let s ← fromBytes c; pure (acc ++ s)) ""

/- ---------- server: do_POST body read ---------- -/

/-- The read loop of `do_POST`: `remaining` = Content-Length still to read, `stream` = bytes the
    connection will deliver, `reads` = how many bytes each successive `rfile.read` returns at most
    (short reads); a read returning nothing ends the loop, as does `remaining = 0`. -/
def readLoop (maxChunk : Nat) : Nat → Bytes → List Nat → List Bytes
  | _, _, [] => []
  | remaining, stream, r :: rs =>
    let got := min (min r (min remaining maxChunk)) stream.length
    if got = 0 then []
    else stream.take got :: readLoop maxChunk (remaining - got) (stream.drop got) rs

/-- Total number of bytes the loop collects. -/
def readTotal (maxChunk : Nat) : Nat → Bytes → List Nat → Nat
  | _, _, [] => 0
  | remaining, stream, r :: rs =>
    let got := min (min r (min remaining maxChunk)) stream.length
    if got = 0 then 0
    else got + readTotal maxChunk (remaining - got) (stream.drop got) rs

/-- `data = utils.from_bytes(b"".join(chunks))`. -/
def serverBody (maxChunk contentLength : Nat) (stream : Bytes) (reads : List Nat) : PyM String :=
  fromBytes (readLoop maxChunk contentLength stream reads).flatten

/-- `max_chunk_size` of `do_POST`. -/
def maxChunkSize : Nat := 10 * 1024 * 1024

/- ---------- framing ---------- -/

/-- Header lines of the client request (see `Headers.sendContent`): the length is taken after the
    conversion to bytes. -/
def clientHeaders (strOf : PyVal → String) (contentType userAgent : String) (body : String)
    (extra : Headers.HDict) (stack : List Headers.HDict) : List (String × String) :=
  Headers.sendContent strOf contentType (toBytes body).length userAgent extra stack

/-- Header lines and body bytes of the HTTP server's reply (`do_POST`, the code after the
    `try/except`): `response is None → ""`, then `to_bytes`, `Content-type` from the configuration,
    `Content-length` = `len` of the converted bytes; the bytes are written only when non-empty
    (so `[]` also stands for "nothing written"). -/
def serverReply (contentType : String) (response : Option String) : List (String × String) × Bytes :=
  let b := toBytes (response.getD "")
  ([("Content-type", contentType), ("Content-length", toString b.length)], b)

/-- How the `try` block of `do_POST` ends: the dispatcher returned a text or `None`, or something
    raised (bad `Content-Length` header, undecodable body, dispatcher exception). -/
inductive TryOutcome where
  | returned (response : Option String)
  | raised
deriving Repr, DecidableEq

/-- Status line and framing of the reply for each way the `try` block can end.  `faultText` is the
    text `fault.response()` produced (whatever it is: only its framing is modelled). -/
def doPostReply (contentType faultText : String) : TryOutcome → Nat × List (String × String) × Bytes
  | .returned r => (200, serverReply contentType r)
  | .raised => (500, serverReply contentType (some faultText))

/-- The whole of `do_POST` for a valid RPC path: header `content-length` (`none` = missing or not an
    integer: `int(...)` raises), read loop, single decode, dispatcher, reply. -/
def doPost (maxChunk : Nat) (contentType faultText : String) (contentLength : Option Nat) (stream : Bytes)
    (reads : List Nat) (dispatch : String → TryOutcome) : Nat × List (String × String) × Bytes :=
  match contentLength with
  | none => doPostReply contentType faultText .raised
  | some cl =>
    match serverBody maxChunk cl stream reads with
    | .ok data => doPostReply contentType faultText (dispatch data)
    | .error _ => doPostReply contentType faultText .raised

/-- Codec names are compared case-insensitively (`"UTF-8"` = `"utf-8"`). -/
def lowerName (s : String) : String := String.ofList (s.toList.map Char.toLower)

/-- `response.encode(self.encoding)` of the CGI handler, for the codecs the model describes:
    the UTF-8 names, `ascii` and `latin-1` (one byte per character, `UnicodeEncodeError` beyond the
    codec's range).  Any other codec name (utf-16, unknown names → `LookupError`, …) is `Unmodelled`. -/
def cgiEncode (encoding : String) (s : String) : PyM Bytes :=
  let e := lowerName encoding
  if e == "utf-8" || e == "utf8" || e == "utf_8" then pure (toBytes s)
  else if e == "ascii" || e == "us-ascii" then
    if s.toList.all (fun c => c.toNat < 128) then pure (s.toList.map fun c => UInt8.ofNat c.toNat)
    else raise "UnicodeEncodeError"
  else if e == "latin-1" || e == "latin1" || e == "iso-8859-1" then
    if s.toList.all (fun c => c.toNat < 256) then pure (s.toList.map fun c => UInt8.ofNat c.toNat)
    else raise "UnicodeEncodeError"
  else raise "Unmodelled"

/-- Header lines and body bytes printed by the CGI handler: the text is encoded first (a failing
    encode raises before anything is printed), `Content-Length` is `len` of the encoded bytes. -/
def cgiReply (encoding contentType : String) (response : String) : PyM (List (String × String) × Bytes) := do
  let b ← cgiEncode encoding response
  pure ([("Content-Type", contentType), ("Content-Length", toString b.length)], b)

/- ---------- URL handling ---------- -/

/-- Result of `urlparse(uri)`. -/
structure Url where
  scheme : String
  netloc : String
  path : String
  query : String
deriving Repr, DecidableEq

/-- `schema.startswith("unix+")` / `schema[len("unix+"):]`. -/
def splitUnix (scheme : String) : Bool × String :=
  match scheme.toList with
  | 'u' :: 'n' :: 'i' :: 'x' :: '+' :: rest => (true, String.ofList rest)
  | _ => (false, scheme)

/-- `ServerProxy.__init__` with the default transport: which URLs are accepted, and the handler. -/
def proxyInit (u : Url) : PyM (Bool × String) :=
  let (useUnix, schema) := splitUnix u.scheme
  if schema != "http" && schema != "https" then raise "OSError" (.str "Unsupported JSON-RPC protocol.")
  else if useUnix && schema != "http" then raise "OSError" (.str "Unhandled combination")
  else
    let handler := if useUnix then "/" else if u.path == "" then "/" else u.path
    pure (useUnix, handler)

/-- The request target `_run_request` passes to the transport. -/
def requestTarget (u : Url) : PyM String := do
  let (_, handler) ← proxyInit u
  pure (if u.query == "" then handler else handler ++ "?" ++ u.query)

end JRV.Wire
