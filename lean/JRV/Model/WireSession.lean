/-
  JRV.Model.WireSession — ONE transport object, a SEQUENCE of responses (C17).

  `JRV.Model.Wire.clientClose` describes one response read to its end through a `JSONTarget`.  A transport
  (`Transport`, `SafeTransport`, `UnixTransport`: all `TransportMixIn`) lives as long as its `ServerProxy` and parses
  every response of that proxy — over a kept-alive connection, over a new connection after an error, and, within one
  call, the second attempt of `xmlrpc.client.Transport.request` after a connection reset.  A response does not always
  end well: a read can raise in the middle of the body (connection reset, time-out, `IncompleteRead` of a chunked body,
  a truncated gzip stream).

  Library code transcribed:
    TransportMixIn.getparser  (static)   target = JSONTarget(); return JSONParser(target), target
    JSONTarget.__init__                  self.data = []
    JSONTarget.feed(data)                self.data.append(data)
    JSONTarget.close()                   join + decode once  (`Wire.clientClose`)
  and the standard library's `Transport.parse_response(response)`:
    p, u = self.getparser()
    while data := stream.read(1024): p.feed(data)          -- a raising read propagates: p, u are dropped
    p.close(); return u.close()

  The two facts about the source this rests on are parameters of the model (like `Cfg.catchAll` of the server life
  cycle) and are discharged from the extracted facts in JRV/Properties/C17Gen.lean:
    `freshParser`  — `getparser()` builds a new `JSONTarget` on every call (it keeps none on the transport or the class);
    `ownBuffer`    — `JSONTarget.__init__` gives the instance a buffer of its own (`self.data = []`; not a class-level list).
  With either of them false the transport carries a buffer from one response to the next: `kept`.
-/
import JRV.Model.Wire

namespace JRV.Wire

/-- How the body of a response ends for the reader: end of stream, or a read that raises. -/
inductive ReadEnd where
  | eof
  | error (cls : String)
deriving Repr, DecidableEq

/-- One response as `parse_response` sees it: what the successive `stream.read(1024)` return (after gzip
    decompression), then how the stream ends. -/
structure Resp where
  chunks : List Bytes
  ending : ReadEnd := .eof
deriving Repr, DecidableEq

/-- All the bytes of the response that were read. -/
def Resp.bytes (r : Resp) : Bytes := r.chunks.flatten

structure SessionCfg where
  freshParser : Bool := true
  ownBuffer : Bool := true
  /-- (only matters for a kept buffer) `close()` empties the buffer it has joined -/
  closeResets : Bool := false
deriving Repr, DecidableEq

/-- What a transport would carry from one response to the next: the buffer of a target that outlives the response. -/
structure TState where
  kept : List Bytes := []
deriving Repr, DecidableEq

/-- The buffer `feed` appends to when a response begins. -/
def startBuffer (cfg : SessionCfg) (st : TState) : List Bytes :=
  if cfg.freshParser && cfg.ownBuffer then [] else st.kept

/-- `parse_response` on one response: the outcome, and what the transport holds afterwards. -/
def parseStep (cfg : SessionCfg) (st : TState) (r : Resp) : TState × PyM Closed :=
  let buf := startBuffer cfg st ++ r.chunks            -- p.feed(data) for every chunk read
  match r.ending with
  | .eof => ({ kept := if cfg.closeResets then [] else buf }, .ok (clientClose buf))
  | .error cls => ({ kept := buf }, raise cls)         -- the read raised: `close()` is never reached

/-- The outcomes of a sequence of responses parsed by one transport object. -/
def session (cfg : SessionCfg) : TState → List Resp → List (PyM Closed)
  | _, [] => []
  | st, r :: rest => (parseStep cfg st r).2 :: session cfg (parseStep cfg st r).1 rest

/-- The outcome of a response parsed by a transport that has never parsed anything. -/
def parseAlone (r : Resp) : PyM Closed :=
  match r.ending with
  | .eof => .ok (clientClose r.chunks)
  | .error cls => raise cls

end JRV.Wire
